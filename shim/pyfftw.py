"""NumPy/SciPy stand-in for the two pyfftw calls used by ibldsp.voltage.decompress_destripe_cbin (pyfftw is not installed in the
sandbox; the property's hook_needed field asks for exactly this).  Only on sys.path for the C06 bounded stand-in."""
import numpy as np
import scipy.fft


def empty_aligned(shape, dtype="float32", **kw):
    return np.empty(shape, dtype=dtype)


class FFTW:
    def __init__(self, a, b, axes=(1,), direction="FFTW_FORWARD", threads=1, **kw):
        self.a, self.b, self.axes, self.direction = a, b, axes, direction

    def __call__(self, x):
        if self.direction == "FFTW_FORWARD":
            return scipy.fft.rfft(np.asarray(x, dtype=self.a.dtype), axis=self.axes[0]).astype(self.b.dtype)
        return scipy.fft.irfft(x, n=self.b.shape[self.axes[0]], axis=self.axes[0]).astype(self.b.dtype)
