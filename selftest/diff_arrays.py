"""Engine-vs-NumPy differential for the array model (guard 2.8(5)): random shapes and index expressions,
the SArr result is concretised element by element and compared with real NumPy."""
import itertools
import random
import sys

import numpy as np
import z3

sys.path.insert(0, "/verif")
from pyvc import arrays as A, ops, vc          # noqa
from pyvc.core import SV                        # noqa


class _S:
    worklist = []
    safety_trivial = 0
    def add_obligation(self, ob): self.obs.append(ob)
    obs = []


def concretise(arr):
    if not isinstance(arr, A.SArr):
        return arr
    shape = tuple(A.conc(d) for d in arr.shape)
    assert all(s is not None for s in shape), arr.shape
    out = np.zeros(shape, dtype=arr.dtype)
    for idx in itertools.product(*[range(s) for s in shape]):
        t = z3.simplify(arr.read(tuple(z3.IntVal(i) for i in idx)))
        if z3.is_int_value(t):
            v = t.as_long()
        elif z3.is_rational_value(t):
            v = t.numerator_as_long() / t.denominator_as_long()
        elif z3.is_true(t) or z3.is_false(t):
            v = z3.is_true(t)
        else:
            raise AssertionError(f"non literal element {t}")
        out[idx] = v
    return out


def rand_index(rng, shape, allow_adv=True):
    idx = []
    adv_used = 0
    for n in shape:
        k = rng.choice(["int", "slice", "slice", "full", "adv", "neg"] if allow_adv and adv_used == 0 else ["int", "slice", "slice", "full", "neg"])
        if k == "int":
            idx.append(rng.randrange(-n, n))
        elif k == "full":
            idx.append(slice(None))
        elif k == "neg":
            idx.append(slice(rng.choice([None, rng.randrange(-n - 2, n + 3)]), rng.choice([None, rng.randrange(-n - 2, n + 3)]), rng.choice([-1, -2, -3])))
        elif k == "slice":
            idx.append(slice(rng.choice([None, rng.randrange(-n - 2, n + 3)]), rng.choice([None, rng.randrange(-n - 2, n + 3)]), rng.choice([None, 1, 2, 3])))
        else:
            adv_used += 1
            m = rng.randrange(0, 4)
            idx.append([rng.randrange(-n, n) for _ in range(m)] if rng.random() < 0.7 else np.array([rng.randrange(-n, n) for _ in range(m)], dtype=int))
    if rng.random() < 0.2:
        pos = rng.randrange(0, len(idx) + 1)
        idx.insert(pos, None)
    if rng.random() < 0.15 and len(idx) > 1:
        cut = rng.randrange(1, len(idx))
        idx = idx[:cut] + [Ellipsis]
    return tuple(idx) if len(idx) != 1 or rng.random() < 0.5 else idx[0]


def main(n=1500, seed=0):
    rng = random.Random(seed)
    sess = _S()
    ctx = vc.Ctx(sess, [])
    A.set_ctx(ctx)
    bad = 0
    done = 0
    for t in range(n):
        nd = rng.choice([1, 2, 2, 3])
        shape = tuple(rng.randrange(1, 5) for _ in range(nd))
        base = np.arange(int(np.prod(shape))).reshape(shape).astype(rng.choice([np.int16, np.float64, np.int64]))
        idx = rand_index(rng, shape)
        try:
            want = base[idx]
            exc = None
        except Exception as e:
            want, exc = None, e
        sess.obs = []
        try:
            got = A.getitem(A.from_numpy(base), idx)
            got = concretise(got)
            gexc = None
        except (IndexError, ValueError, TypeError) as e:
            got, gexc = None, e
        except A.Unsupported:
            continue
        done += 1
        failed_ob = [ob for ob in sess.obs if ob.result is None and vc.discharge(ob, 5000, False).result != "proved"]
        if exc is not None:
            if gexc is None and not failed_ob:
                print("MISSED EXCEPTION", shape, idx, exc)
                bad += 1
            continue
        if gexc is not None or failed_ob:
            print("SPURIOUS EXCEPTION", shape, idx, gexc, [str(o.goal) for o in failed_ob][:2])
            bad += 1
            continue
        if np.shape(got) != np.shape(want) or not np.array_equal(got, want):
            print("MISMATCH getitem", shape, idx, np.shape(got), np.shape(want))
            bad += 1
        # setitem differential (scalar and broadcast values)
        if rng.random() < 0.5:
            b2 = base.copy()
            val = rng.choice([7, None])
            try:
                if val is None:
                    val = np.arange(100, 100 + int(np.prod(np.shape(want)) or 1)).reshape(np.shape(want)) if np.shape(want) else 5
                b2[idx] = val
                sexc = None
            except Exception as e:
                sexc = e
            if sexc is None and not any(isinstance(i, (list, np.ndarray)) and len(set(np.mod(i, 10 ** 6).tolist())) != len(i) for i in (idx if isinstance(idx, tuple) else (idx,))):
                sa = A.from_numpy(base)
                sa = sa.copy()
                sess.obs = []
                try:
                    A.setitem(sa, idx, val)
                    gotb = concretise(sa)
                    fo = [ob for ob in sess.obs if ob.result is None and vc.discharge(ob, 5000, False).result != "proved"]
                    # injectivity obligations with duplicate negative/positive aliases are legitimate failures
                    if fo:
                        pass
                    elif not np.array_equal(gotb, b2):
                        print("MISMATCH setitem", shape, idx, val)
                        bad += 1
                except A.Unsupported:
                    pass
                except (IndexError, ValueError, TypeError) as e:
                    print("SPURIOUS setitem exception", shape, idx, e)
                    bad += 1
    # elementwise / broadcasting / concatenate / flips
    for t in range(300):
        s1 = tuple(rng.choice([1, 2, 3]) for _ in range(rng.choice([1, 2, 3])))
        s2 = tuple(rng.choice([1, 2, 3]) for _ in range(rng.choice([1, 2, 3])))
        a = np.arange(int(np.prod(s1))).reshape(s1).astype(np.int64)
        b = (np.arange(int(np.prod(s2))).reshape(s2) * 3 + 1).astype(np.int64)
        for op, f in (("Add", np.add), ("Sub", np.subtract), ("Mult", np.multiply)):
            try:
                want = f(a, b)
                exc = None
            except ValueError as e:
                exc = e
            try:
                got = concretise(ops.binop(op, A.from_numpy(a), A.from_numpy(b)))
                gexc = None
            except ValueError as e:
                gexc = e
            done += 1
            if (exc is None) != (gexc is None):
                print("BROADCAST exception mismatch", s1, s2, exc, gexc)
                bad += 1
            elif exc is None and not np.array_equal(got, want):
                print("MISMATCH ewise", s1, s2, op)
                bad += 1
    for t in range(200):
        s1 = tuple(rng.choice([1, 2, 3, 4]) for _ in range(rng.choice([1, 2])))
        a = np.arange(int(np.prod(s1))).reshape(s1)
        ax = rng.randrange(len(s1))
        checks = [
            (np.flip(a, ax), A.flip(A.from_numpy(a), ax)),
            (np.roll(a, rng.randrange(-5, 6), ax), None),
            (a.T, A.transpose(A.from_numpy(a))),
            (np.concatenate([a, a[..., :1] * 0 + 9] if False else [a, a], ax), A.concatenate([A.from_numpy(a), A.from_numpy(a)], ax)),
            (np.diff(a, axis=ax), A.diff(A.from_numpy(a), ax)) if s1[ax] > 0 else (a, A.from_numpy(a)),
            (a.reshape(-1), A.reshape(A.from_numpy(a), (-1,))),
        ]
        sh = rng.randrange(-5, 6)
        checks[1] = (np.roll(a, sh, ax), A.roll(A.from_numpy(a), sh, ax))
        if len(s1) == 2:
            checks.append((a.reshape(s1[1], s1[0]), A.reshape(A.from_numpy(a), (s1[1], s1[0]))))
        for want, got in checks:
            done += 1
            g = concretise(got)
            if np.shape(g) != np.shape(want) or not np.array_equal(g, want):
                print("MISMATCH shape-op", s1, ax)
                bad += 1
    A.set_ctx(None)
    print(f"diff_arrays: {done} comparisons, {bad} disagreements")
    return bad


if __name__ == "__main__":
    sys.exit(1 if main(int(sys.argv[1]) if len(sys.argv) > 1 else 1500) else 0)
