"""Verification sessions: path exploration, obligations, discharge with z3 (cvc5 on unknown)."""
import ast
import hashlib
import os
import subprocess
import tempfile
import time
import traceback

import z3

from .core import SV, Unsupported, PathEnd, term, wrap, is_z3, fresh_name
from . import arrays as A
from . import interp as I

QUICK_TIMEOUT_MS = int(os.environ.get("PYVC_TIMEOUT_MS", "20000"))
BRANCH_TIMEOUT_MS = 1000


_QCACHE = {}


def has_quantifier(t):
    k = t.get_id()
    r = _QCACHE.get(k)
    if r is not None:
        return r[1]
    todo = [t]
    seen = set()
    r = False
    while todo:
        x = todo.pop()
        i = x.get_id()
        if i in seen:
            continue
        seen.add(i)
        if z3.is_quantifier(x):
            r = True
            break
        todo.extend(x.children())
    _QCACHE[k] = (t, r)     # keeping the term alive prevents z3 from re-using its id
    return r


class Obligation:
    def __init__(self, oid, kind, hyps, goal, detail="", function="", lineno=None, path=()):
        self.id, self.kind, self.hyps, self.goal = oid, kind, list(hyps), goal
        self.detail, self.function, self.lineno, self.path = detail, function, lineno, tuple(path)
        self.result = None      # 'proved' | 'failed' | 'undecided'
        self.model = None
        self.backend = None
        self.solver_s = 0.0
        self.reason = ""
        self.candidate = None   # candidate counter-model of an undecided obligation (quantifier instantiation incomplete)
        self.lossy = None       # the path lost information (loop without invariant): a counter-model may be an artefact


class PathResult:
    def __init__(self, outcome, value, ctx):
        self.outcome, self.value, self.ctx = outcome, value, ctx   # outcome: 'return' | 'raise' | 'end'


class Ctx:
    def __init__(self, session, decisions):
        self.session = session
        self.prefix = list(decisions)
        self.taken = []
        self.pc = []
        self.facts = []
        self._fact_ids = set()
        self.n_branches = 0
        self.lineno = None
        self.stmt_tag = None
        self.func = ""
        self.obligations = []
        self.where_log = []
        self.reduce_log = []
        self.lossy = None       # set when information was dropped on this path (a loop cut without a sidecar invariant): failures are then not verdicts

    def decisions_taken(self):
        return self.taken

    # ---- cheap entailment under the quantifier-free part of the path condition (term clean-up only)
    def _qf(self):
        if not hasattr(self, "_qf_solver"):
            self._qf_solver = z3.Solver()
            self._qf_solver.set("timeout", 300)
            self._qf_n = [0, 0]
            self._ent_cache = {}
        s = self._qf_solver
        for lst, i in ((self.pc, 0), (self.facts, 1)):
            while self._qf_n[i] < len(lst):
                h = lst[self._qf_n[i]]
                self._qf_n[i] += 1
                if not has_quantifier(h):
                    s.add(h)
                    self._ent_cache.clear()
        return s

    def entails(self, c):
        s = self._qf()
        k = c.get_id()
        hit = self._ent_cache.get(k)
        if hit is not None:
            return hit[1]
        s.push()
        s.add(z3.Not(c))
        r = s.check() == z3.unsat
        s.pop()
        self._ent_cache[k] = (c, r)     # the term is kept alive with its verdict (ids of dead terms are re-used by z3)
        return r

    def instantiate(self, quantified, *terms):
        """add the instance of a universally quantified hypothesis (already in the path condition / facts) at the given terms;
        a proof hint only: the instance is a consequence of that hypothesis"""
        assert z3.is_quantifier(quantified) and quantified.is_forall() and quantified.num_vars() == len(terms)
        known = any(z3.eq(quantified, h) for h in self.pc) or any(z3.eq(quantified, h) for h in self.facts)
        assert known, "instantiate(): the quantified formula is not a hypothesis of this path"
        inst = z3.substitute_vars(quantified.body(), *reversed([term(t) for t in terms]))
        self.pc.append(inst)
        return inst

    def bind(self, t, hint="v"):
        """let-binding: a fresh constant defined equal to a large term (same term -> same constant)"""
        k = t.get_id()
        if not hasattr(self, "_binds"):
            self._binds = {}
        hit = self._binds.get(k)
        if hit is None:
            c = z3.Const(fresh_name(hint), t.sort())
            self._binds[k] = (t, c)
            self._binds[c.get_id()] = (c, c)
            self.pc.append(c == t)
            return c
        return hit[1]

    def prune(self, t, depth=0):
        """resolve If-conditions that the path condition decides (keeps index terms small)"""
        t = z3.simplify(t)
        if depth > 12 or not z3.is_app(t) or t.num_args() == 0:
            return t
        if z3.is_app_of(t, z3.Z3_OP_ITE):
            c = t.arg(0)
            if self.entails(c):
                return self.prune(t.arg(1), depth + 1)
            if self.entails(z3.Not(c)):
                return self.prune(t.arg(2), depth + 1)
            return z3.If(c, self.prune(t.arg(1), depth + 1), self.prune(t.arg(2), depth + 1))
        k = t.decl().kind()
        if k in (z3.Z3_OP_ADD, z3.Z3_OP_SUB, z3.Z3_OP_MUL, z3.Z3_OP_IDIV, z3.Z3_OP_MOD, z3.Z3_OP_UMINUS):
            ch = [self.prune(c, depth + 1) for c in t.children()]
            return z3.simplify(t.decl()(*ch))
        return t

    def hyps(self):
        return self.pc + self.facts

    def add_fact(self, t):
        t = term(t)
        k = t.get_id()
        if k not in self._fact_ids:
            self._fact_ids.add(k)       # t stays referenced from self.facts, so its id is not re-used
            self.facts.append(t)

    def assume(self, t):
        t = term(t)
        if z3.is_true(t):
            return
        self.pc.append(t)

    def _check(self, extra):
        s = z3.Solver()
        s.set("timeout", BRANCH_TIMEOUT_MS)
        # feasibility is decided without the quantified hypotheses (over-approximation: a path that is
        # infeasible only because of them is still explored; its obligations are then proved vacuously)
        s.add(*[h for h in self.hyps() if not has_quantifier(h)])
        s.add(extra)
        return s.check()

    def branch(self, cond):
        cond = z3.simplify(term(cond))
        if z3.is_true(cond):
            return True
        if z3.is_false(cond):
            return False
        self.n_branches += 1
        pos = len(self.taken)
        if pos < len(self.prefix):
            d = self.prefix[pos]
        else:
            can_t = self._check(cond) != z3.unsat
            can_f = self._check(z3.Not(cond)) != z3.unsat
            if can_t and can_f:
                self.session.worklist.append(self.taken + [False])
                d = True
            elif can_t:
                d = True
            elif can_f:
                d = False
            else:
                raise PathEnd()      # infeasible path
        self.taken.append(d)
        self.pc.append(cond if d else z3.Not(cond))
        return d

    def oblige(self, oid, goal, kind="post", detail="", assume=True):
        goal = term(goal)
        g = z3.simplify(goal)
        if len(self.taken) >= len(self.prefix):     # otherwise already emitted by the parent path
            ob = Obligation(oid, kind, self.hyps(), goal, detail, self.func, self.lineno, self.taken)
            ob.lossy = self.lossy
            if z3.is_true(g):
                ob.result, ob.backend = "proved", "simplifier"
            self.session.add_obligation(ob)
        # assert-then-assume: later obligations on this path may use it
        if assume:
            self.pc.append(goal)

    def safety(self, kind, goal, detail=""):
        goal = term(goal)
        g = z3.simplify(goal)
        if z3.is_true(g):
            self.session.safety_trivial += 1
            return
        fn = self.func or "?"
        # id = function + hash of the statement's own text + kind (no line numbers: ids must survive harmless edits)
        self.oblige(f"safety.{fn}@{self.stmt_tag}.{kind}", goal, "safety", f"{detail} (line {self.lineno})")


class Session:
    """One harness: symbolic inputs + real code + obligations."""

    def __init__(self, name, loops=None, contracts=None, native_ok=None, symbolic_classes=(), gen_hooks=None):
        self.name = name
        self.loops = dict(loops or {})
        self.contracts = dict(contracts or {})
        self._native_ok = native_ok
        self.symbolic_classes = set(symbolic_classes)
        self.gen_hooks = gen_hooks or {}
        self.obligations = []
        self.worklist = []
        self.functions = {}         # qualname -> sha256 of source segment
        self.dropped = {}
        self.safety_trivial = 0
        self.paths = 0
        self.unsupported = []
        self.inputs = {}            # name -> z3 term (for counter-model reporting / replay)
        self.assumptions = set()

    # ---- hooks used by the interpreter
    def contract_for(self, fn):
        return self.contracts.get(fn)

    def native_ok(self, fn):
        return True if self._native_ok is None else self._native_ok(fn)

    def is_repo_class(self, cls):
        f = getattr(cls, "__init__", None)
        mod = getattr(cls, "__module__", "")
        try:
            import sys
            file = getattr(sys.modules.get(mod), "__file__", "") or ""
        except Exception:
            file = ""
        return os.path.realpath(file).startswith(os.path.realpath(I.REPO_SRC))

    def force_symbolic_class(self, cls):
        return cls in self.symbolic_classes

    def note_function(self, fn):
        q = fn.__module__ + ":" + fn.__qualname__.replace("<locals>.", "")
        if q not in self.functions:
            seg = I.SOURCES.segment(fn) or ""
            self.functions[q] = hashlib.sha256(seg.encode()).hexdigest()[:16]

    def note_dropped(self, qualname, what):
        self.dropped.setdefault(qualname, set()).add(what)

    def funcnode_of(self, env):
        return getattr(env, "funcnode", None)

    def on_yield(self, interp, gen, v, env):
        vals = list(v) if isinstance(v, tuple) else [v]
        hook = self.gen_hooks.get(env.qualname)
        if hook is not None:
            hook(interp, gen, vals, env)
        scal = all(isinstance(x, (SV, int, float, bool)) or is_z3(x) for x in vals)
        if scal:
            gen.ensure(vals)
            for f, x in zip(gen.comps, vals):
                interp.ctx.assume(f(gen.k) == term(x))
        gen.k = z3.simplify(gen.k + 1)

    def add_obligation(self, ob):
        self.obligations.append(ob)

    # ---- exploration
    def explore(self, body, may_raise=False):
        """body(interp) -> value ; runs once per feasible path"""
        results = []
        self.worklist = [[]]
        while self.worklist:
            dec = self.worklist.pop()
            ctx = Ctx(self, dec)
            A.set_ctx(ctx)
            it = I.Interp(ctx)
            self.paths += 1
            if self.paths > 4000:
                raise Unsupported("more than 4000 paths")
            try:
                v = body(it)
                results.append(PathResult("return", v, ctx))
            except PathEnd:
                results.append(PathResult("end", None, ctx))
            except I.PyRaise as e:
                results.append(PathResult("raise", e.exc, ctx))
                if not may_raise and isinstance(e.exc, (TypeError, AttributeError, KeyError, NameError)):
                    # typically state that the harness does not provide (an attribute / metadata key the code did not touch before): not a verdict on the code
                    raise Unsupported(f"{type(e.exc).__name__} raised by the code under contract on a harness object: {str(e.exc)[:100]} (line {ctx.lineno})")
                if not may_raise:
                    # an exception that escapes the code under contract on a feasible path is a failed obligation (contracts that expect one
                    # catch it themselves or explore with may_raise=True): never a silently shorter list of obligations
                    ctx.oblige(f"no_exception.{type(e.exc).__name__}.{ctx.func or 'harness'}@{getattr(ctx, 'stmt_tag', '')}", z3.BoolVal(False), "safety",
                               f"raises {type(e.exc).__name__}: {str(e.exc)[:120]} (line {ctx.lineno})", assume=False)
            except I.ReturnEx as r:
                results.append(PathResult("return", r.v, ctx))
            finally:
                A.set_ctx(None)
        return results


# ----------------------------------------------------------------------------- solving
PORTFOLIO = [({}, 0.2), ({"smt.random_seed": 7}, 0.2), ({"smt.mbqi": False, "auto_config": False}, 0.2), ({"smt.random_seed": 23, "smt.arith.nl": True}, 0.4)]


def _solve_z3(hyps, goal, timeout_ms, early_cvc5=False):
    """small portfolio: the same query under a few solver configurations (slow queries are the unstable ones;
    a verdict is only taken from a configuration that decides: unsat from any, sat only with MBQI on).  With early_cvc5 the other solver gets a
    short turn right after z3's first configuration gave up: the queries it decides it decides in a second or two, and the verdict then does
    not depend on z3 running out its whole budget first (which is what flips under load)"""
    total = 0.0
    last = None
    for n_cfg, (opts, share) in enumerate(PORTFOLIO):
        if n_cfg == 1 and early_cvc5 and last is not None:
            r2, dt2 = _solve_cvc5(last, min(8000, max(3000, int(timeout_ms * 0.3))))
            total += dt2
            if r2 == "unsat":
                return "cvc5-unsat", None, total, "", last
        s = z3.Solver()
        s.set("timeout", max(1000, int(timeout_ms * share)))
        for k, v in opts.items():
            s.set(k, v)
        s.add(*hyps)
        s.add(z3.Not(goal))
        t = time.time()
        r = s.check()
        total += time.time() - t
        last = s
        if r == z3.unsat:
            return r, None, total, "", s
        if r == z3.sat and "smt.mbqi" not in opts:
            return r, s.model(), total, "", s
        if r == z3.unknown and "smt.mbqi" in opts and "incomplete" in s.reason_unknown():
            # E-matching saturated without a contradiction: the solver's state is a *candidate* counter-model (it satisfies the ground part and
            # every generated instance of the quantified hypotheses).  Never a verdict by itself: api replays it on the real code.
            # (the tactic front end does not expose that state; the plain SMT core does)
            try:
                s2 = z3.SimpleSolver()
                s2.set("timeout", 3000)
                s2.set("mbqi", False)
                s2.set("auto_config", False)
                s2.add(*hyps)
                s2.add(z3.Not(goal))
                if s2.check() == z3.unknown and "incomplete" in s2.reason_unknown():
                    _CANDIDATE[0] = s2.model()
            except z3.Z3Exception:
                pass
    return z3.unknown, None, total, last.reason_unknown(), last


_CANDIDATE = [None]


def _unpb(e, cache):
    """z3's simplifier turns small cardinality facts into pseudo-boolean terms ((_ at-most k), (_ pble ...)) that cvc5 does not parse:
    rewrite them back into integer sums for the export"""
    k = e.get_id()
    if k in cache:
        return cache[k][1]
    r = e
    if z3.is_quantifier(e):
        body = _unpb(e.body(), cache)
        if not z3.eq(body, e.body()):
            vs = [z3.Const(e.var_name(i), e.var_sort(i)) for i in range(e.num_vars())]
            b2 = z3.substitute_vars(body, *reversed(vs))
            r = z3.ForAll(vs, b2) if e.is_forall() else z3.Exists(vs, b2)
    elif z3.is_app(e) and e.num_args() > 0:
        args = [_unpb(e.arg(i), cache) for i in range(e.num_args())]
        kind = e.decl().kind()
        one = lambda b, c=1: z3.If(b, z3.IntVal(c), z3.IntVal(0))     # noqa
        if kind == z3.Z3_OP_PB_AT_MOST:
            r = z3.Sum([one(a) for a in args]) <= e.decl().params()[0]
        elif kind == z3.Z3_OP_PB_AT_LEAST:
            r = z3.Sum([one(a) for a in args]) >= e.decl().params()[0]
        elif kind in (z3.Z3_OP_PB_LE, z3.Z3_OP_PB_GE, z3.Z3_OP_PB_EQ):
            ps = e.decl().params()
            lhs = z3.Sum([one(a, c) for a, c in zip(args, ps[1:])])
            r = (lhs <= ps[0]) if kind == z3.Z3_OP_PB_LE else (lhs >= ps[0]) if kind == z3.Z3_OP_PB_GE else (lhs == ps[0])
        elif any(not z3.eq(a, e.arg(i)) for i, a in enumerate(args)):
            r = e.decl()(*args)
    cache[k] = (e, r)
    return r


def _solve_cvc5(solver, timeout_ms):
    smt = solver.to_smt2()
    if "at-most" in smt or "pble" in smt or "pbge" in smt or "pbeq" in smt or "at-least" in smt:
        try:
            cache = {}
            s2 = z3.Solver()
            s2.add(*[_unpb(a, cache) for a in solver.assertions()])
            smt = s2.to_smt2()
        except Exception:
            pass
    smt = "(set-logic ALL)\n" + smt
    with tempfile.NamedTemporaryFile("w", suffix=".smt2", delete=False, dir=os.environ.get("PYVC_SCRATCH", None)) as f:
        f.write(smt)
        path = f.name
    t = time.time()
    try:
        p = subprocess.run(["/usr/bin/cvc5", f"--tlimit={timeout_ms}", "--full-saturate-quant", path],
                           capture_output=True, text=True, timeout=timeout_ms / 1000 + 5)
        out = p.stdout.strip().splitlines()
        r = out[0] if out else "unknown"
    except Exception as e:
        r = "unknown"
    finally:
        os.unlink(path)
    return r, time.time() - t


def discharge(ob, timeout_ms=None, use_cvc5=True):
    if ob.result is not None:
        return ob
    _discharge(ob, timeout_ms, use_cvc5)
    if ob.result == "failed" and getattr(ob, "lossy", None):
        # the state this obligation speaks about was havocked without an invariant: the counter-model may not correspond to any execution.
        # Undecided; the model is kept as a candidate (a failing native replay can still confirm it)
        ob.result = "undecided"
        ob.reason = f"not decidable here: {ob.lossy}"
        ob.candidate, ob.model = ob.model, None
    return ob


def _discharge(ob, timeout_ms=None, use_cvc5=True):
    timeout_ms = timeout_ms or QUICK_TIMEOUT_MS
    if z3.is_false(z3.simplify(ob.goal)):
        # a structural obligation that evaluated to False: it fails unless the path itself is infeasible
        s = z3.Solver()
        s.set("timeout", min(timeout_ms, 10000))
        s.add(*[h for h in ob.hyps if not has_quantifier(h)])
        t = time.time()
        r = s.check()
        ob.solver_s = time.time() - t
        ob.backend = "z3-" + z3.get_version_string()
        if r == z3.unsat:
            ob.result = "proved"
        else:
            ob.result = "failed"
            ob.model = s.model() if r == z3.sat else None
            ob.reason = "goal is the constant False on a feasible path"
        return ob
    _CANDIDATE[0] = None
    if os.environ.get("PYVC_DUMP_DIR") and os.environ.get("PYVC_DUMP_MATCH", "") in ob.id:      # debugging aid: the query as SMT-LIB text
        sd = z3.Solver()
        sd.add(*ob.hyps)
        sd.add(z3.Not(ob.goal))
        with open(os.path.join(os.environ["PYVC_DUMP_DIR"], ob.id.replace("/", "_") + ".smt2"), "w") as fd:
            fd.write(sd.to_smt2())
    r, model, dt, reason, solver = _solve_z3(ob.hyps, ob.goal, timeout_ms, early_cvc5=use_cvc5)
    ob.candidate = _CANDIDATE[0]
    ob.solver_s = dt
    ob.backend = "z3-" + z3.get_version_string()
    if isinstance(r, str) and r == "cvc5-unsat":
        ob.result, ob.backend = "proved", "cvc5-1.0.3"
    elif r == z3.unsat:
        ob.result = "proved"
    elif r == z3.sat:
        ob.result = "failed"
        ob.model = model
    else:
        ob.reason = reason
        if use_cvc5:
            r2, dt2 = _solve_cvc5(solver, timeout_ms)
            ob.solver_s += dt2
            if r2 == "unsat":
                ob.result, ob.backend = "proved", "cvc5-1.0.3"
            else:
                ob.result = "undecided"
                ob.reason = f"z3: {reason}; cvc5: {r2}"
        else:
            ob.result = "undecided"
    return ob


def model_values(ob, inputs):
    """evaluate the named input terms in the counter-model"""
    out = {}
    if ob.model is None:
        return out
    for k, t in inputs.items():
        try:
            v = ob.model.eval(term(t), model_completion=True)
            if z3.is_int_value(v):
                out[k] = v.as_long()
            elif z3.is_rational_value(v):
                out[k] = v.numerator_as_long() / v.denominator_as_long()
            elif z3.is_true(v) or z3.is_false(v):
                out[k] = z3.is_true(v)
            else:
                out[k] = str(v)
        except Exception:
            out[k] = None
    return out
