"""Symbolic scalar values and small helpers shared by the engine."""
import itertools
import z3

_counter = itertools.count()


def fresh_name(prefix):
    return f"{prefix}!{next(_counter)}"


class Unsupported(Exception):
    """The engine does not model this construct: obligations depending on it are *undecided*."""


class PathEnd(Exception):
    """The current path is finished (loop step checked, or path proved infeasible)."""


def is_z3(x):
    return isinstance(x, z3.ExprRef)


class SV:
    """Symbolic scalar: a z3 term of sort Int, Real or Bool (Python int / float / bool)."""
    __slots__ = ("t",)
    __array_priority__ = 1000

    def __init__(self, t):
        assert is_z3(t), t
        self.t = t

    # ---- kinds
    @property
    def is_int(self):
        return z3.is_int(self.t)

    @property
    def is_real(self):
        return z3.is_real(self.t)

    @property
    def is_bool(self):
        return z3.is_bool(self.t)

    def __repr__(self):
        return f"SV({self.t})"

    def __hash__(self):
        return hash(self.t)

    # arithmetic (used by contracts and models; the interpreter goes through ops.binop)
    def _bin(self, other, op, rev=False):
        from . import ops
        return ops.binop(op, other, self) if rev else ops.binop(op, self, other)

    def __add__(self, o): return self._bin(o, "Add")
    def __radd__(self, o): return self._bin(o, "Add", True)
    def __sub__(self, o): return self._bin(o, "Sub")
    def __rsub__(self, o): return self._bin(o, "Sub", True)
    def __mul__(self, o): return self._bin(o, "Mult")
    def __rmul__(self, o): return self._bin(o, "Mult", True)
    def __truediv__(self, o): return self._bin(o, "Div")
    def __rtruediv__(self, o): return self._bin(o, "Div", True)
    def __floordiv__(self, o): return self._bin(o, "FloorDiv")
    def __rfloordiv__(self, o): return self._bin(o, "FloorDiv", True)
    def __mod__(self, o): return self._bin(o, "Mod")
    def __rmod__(self, o): return self._bin(o, "Mod", True)
    def __neg__(self):
        from . import ops
        return ops.unop("USub", self)

    def _cmp(self, o, op):
        from . import ops
        return ops.compare(op, self, o)

    def __lt__(self, o): return self._cmp(o, "Lt")
    def __le__(self, o): return self._cmp(o, "LtE")
    def __gt__(self, o): return self._cmp(o, "Gt")
    def __ge__(self, o): return self._cmp(o, "GtE")
    def __eq__(self, o): return self._cmp(o, "Eq")
    def __ne__(self, o): return self._cmp(o, "NotEq")

    def __bool__(self):
        raise Unsupported("truth value of a symbolic scalar taken outside the interpreter")


NAN = z3.Real("NaN!token")


def term(x):
    """z3 term of a Python / symbolic scalar."""
    import numpy as np
    if isinstance(x, SV):
        return x.t
    if is_z3(x):
        return x
    if isinstance(x, (bool, np.bool_)):
        return z3.BoolVal(bool(x))
    if isinstance(x, (int, np.integer)):
        return z3.IntVal(int(x))
    if isinstance(x, (float, np.floating)):
        f = float(x)
        if f != f:
            return NAN          # a distinguished token: data-flow of NaN padding only (no IEEE semantics in real mode)
        if f in (float("inf"), float("-inf")):
            raise Unsupported("inf constant in real-arithmetic mode")
        import fractions
        fr = fractions.Fraction(f)
        return z3.RealVal(f"{fr.numerator}/{fr.denominator}")
    raise Unsupported(f"no scalar term for {type(x).__name__}")


def wrap(t):
    """Return a concrete Python value when the term is a literal, else an SV."""
    t = z3.simplify(t) if is_z3(t) else t
    if is_z3(t):
        if z3.is_int_value(t):
            return t.as_long()
        if z3.is_true(t):
            return True
        if z3.is_false(t):
            return False
        if z3.is_rational_value(t) and z3.is_real(t):
            n, d = t.numerator_as_long(), t.denominator_as_long()
            f = n / d
            import fractions
            if fractions.Fraction(f) == fractions.Fraction(n, d):
                return f
            return SV(t)
        return SV(t)
    return t


def is_sym(x):
    from .arrays import SArr
    return isinstance(x, (SV, SArr))


def to_real(t):
    return z3.ToReal(t) if z3.is_int(t) else t


def as_bool_term(x):
    """Python truthiness of a scalar as a z3 Bool."""
    t = term(x)
    if z3.is_bool(t):
        return t
    if z3.is_int(t):
        return t != 0
    if z3.is_real(t):
        return t != 0
    raise Unsupported("truthiness of non scalar")


def Min(a, b):
    a, b = term(a), term(b)
    return z3.If(a <= b, a, b)


def Max(a, b):
    a, b = term(a), term(b)
    return z3.If(a >= b, a, b)


def _of_int(t):
    """x if t is to_real(x)"""
    if z3.is_app_of(t, z3.Z3_OP_TO_REAL):
        return t.arg(0)
    return None


def _as_int_term(t):
    """Int term equal to the Real term t when t is syntactically integer valued (sums / integer multiples of to_real(...)), else None"""
    if z3.is_int(t):
        return t
    if z3.is_app_of(t, z3.Z3_OP_TO_REAL):
        return t.arg(0)
    if z3.is_rational_value(t):
        return z3.IntVal(t.numerator_as_long()) if t.denominator_as_long() == 1 else None
    if z3.is_app_of(t, z3.Z3_OP_ADD) or z3.is_app_of(t, z3.Z3_OP_SUB):
        parts = [_as_int_term(c) for c in t.children()]
        if any(p is None for p in parts):
            return None
        r = parts[0]
        for p in parts[1:]:
            r = r + p if z3.is_app_of(t, z3.Z3_OP_ADD) else r - p
        return r
    if z3.is_app_of(t, z3.Z3_OP_UMINUS):
        p = _as_int_term(t.arg(0))
        return None if p is None else -p
    if z3.is_app_of(t, z3.Z3_OP_MUL):
        parts = [_as_int_term(c) for c in t.children()]
        if any(p is None for p in parts):
            return None
        r = parts[0]
        for p in parts[1:]:
            r = r * p
        return r
    return None


def _denominators(t, acc, depth=0):
    if depth > 30:
        return
    if z3.is_rational_value(t):
        acc.add(t.denominator_as_long())
        return
    if z3.is_app(t) and t.decl().kind() in (z3.Z3_OP_ADD, z3.Z3_OP_SUB, z3.Z3_OP_MUL, z3.Z3_OP_UMINUS, z3.Z3_OP_DIV):
        if z3.is_app_of(t, z3.Z3_OP_DIV) and z3.is_rational_value(t.arg(1)) and t.arg(1).denominator_as_long() == 1 and t.arg(1).numerator_as_long() > 0:
            acc.add(t.arg(1).numerator_as_long())
            _denominators(t.arg(0), acc, depth + 1)
            return
        for c in t.children():
            _denominators(c, acc, depth + 1)


def _int_over_literal(t):
    """(a, d) with t == to_real(a) / d, a an Int term and d a positive integer literal (t may have been normalised by the simplifier
    into sums of rational multiples)"""
    import math
    dens = set()
    _denominators(t, dens)
    dens.discard(1)
    if not dens or len(dens) > 3:
        return None
    L = 1
    for d in dens:
        L = L * d // math.gcd(L, d)
    if L > 10 ** 6:
        return None
    a = _as_int_term(z3.simplify(t * L))
    if a is None:
        return None
    return z3.simplify(a), L


def trunc_int(t):
    """int(x) for a Real term: truncation toward zero."""
    if z3.is_int(t):
        return t
    if _of_int(t) is not None:
        return _of_int(t)
    q = _int_over_literal(t)
    if q is not None:
        a, d = q
        return z3.If(a >= 0, a / d, -((-a) / d))
    return z3.If(t >= 0, z3.ToInt(t), -z3.ToInt(-t))


def ceil_real(t):
    if z3.is_int(t):
        return z3.ToReal(t)
    if _of_int(t) is not None:
        return t
    q = _int_over_literal(t)
    if q is not None:
        a, d = q
        return z3.ToReal(-((-a) / d))
    return z3.ToReal(-z3.ToInt(-t))


def floor_real(t):
    if z3.is_int(t):
        return z3.ToReal(t)
    if _of_int(t) is not None:
        return t
    q = _int_over_literal(t)
    if q is not None:
        a, d = q
        return z3.ToReal(a / d)           # integer division by a positive literal is the floor
    return z3.ToReal(z3.ToInt(t))


def round_half_even(t):
    """Python round() / np.round / np.rint on a Real term -> Int term."""
    if z3.is_int(t):
        return t
    if _of_int(t) is not None:
        return _of_int(t)
    f = z3.ToInt(t)
    frac = t - z3.ToReal(f)
    half = z3.RealVal("1/2")
    return z3.If(frac < half, f, z3.If(frac > half, f + 1, z3.If(f % 2 == 0, f, f + 1)))


def py_floordiv(a, b):
    """Python // on Int terms (floor), z3 div is euclidean."""
    # b < 0: floor(a/b) = floor((-a)/(-b)); (-a) div (-b) is floor since -b > 0
    if z3.is_int_value(b):
        return a / b if b.as_long() > 0 else (-a) / (-b)
    return z3.If(b > 0, a / b, (-a) / (-b))


def py_mod(a, b):
    """Python % on Int terms: result has the sign of b."""
    return z3.If(b > 0, a % b, -((-a) % (-b)))
