"""Models of builtins / NumPy / SciPy functions applied to symbolic values.

A model returns NotImplemented to fall through to the native call (all-concrete arguments).
Every model is an *assumed contract on a dependency* (A-PY / A-NP-INDEX / A-NP-SPEC / A-SCIPY in
DESIGN.md); the ones a run used are listed in its evidence.
"""
import builtins
import math

import numpy as np
import scipy.signal
import z3

from .core import (SV, Unsupported, term, wrap, is_z3, fresh_name, Min, Max, trunc_int, ceil_real,
                   floor_real, round_half_even, to_real, as_bool_term)
from . import arrays as A
from .arrays import SArr
from . import ops

_MODELS = {}
USED = set()


def model(*fns, name=None):
    def deco(f):
        for fn in fns:
            _MODELS[_key(fn)] = (f, name or getattr(fn, "__qualname__", getattr(fn, "__name__", str(fn))))
        return f
    return deco


def _key(fn):
    try:
        hash(fn)
        return fn
    except TypeError:
        return id(fn)


def lookup(fn):
    try:
        m = _MODELS.get(_key(fn))
    except TypeError:
        return None
    if m is None:
        return None
    f, name = m

    def run(interp, args, kwargs):
        if any(getattr(x, "_pyvc_series", False) for x in args):
            # a pandas column handed to a NumPy function: NumPy works on its values (the result is treated as a plain array: A-PANDAS)
            args = [x.arr if getattr(x, "_pyvc_series", False) else x for x in args]
        r = f(interp, args, kwargs)
        if r is not NotImplemented:
            USED.add(name)
        return r
    return run


def _sym(x):
    from .interp import has_symbolic
    return has_symbolic(x)


def _anysym(args, kwargs=None):
    return _sym(list(args)) or (kwargs is not None and _sym(kwargs))


class SymStr:
    """opaque string built from symbolic parts (only ever logged or stored)"""

    def __init__(self, parts):
        self.parts = parts

    def __repr__(self):
        return "SymStr(" + "".join(str(p) for p in self.parts) + ")"


# ----------------------------------------------------------------------------- builtins
@model(builtins.int)
def _int(I, a, k):
    if not _anysym(a):
        return NotImplemented
    x = a[0]
    if isinstance(x, SArr):
        if x.ndim == 0 or (all(isinstance(d, int) for d in x.shape) and x.size == 1):
            t = x.read(tuple(z3.IntVal(0) for _ in x.shape))
            return wrap(A.cast_term(x.dtype, "int64", t) if x.dtype.kind != "f" else trunc_int(t))
        raise Unsupported("int() of array")
    t = term(x)
    if z3.is_bool(t):
        return wrap(z3.If(t, z3.IntVal(1), z3.IntVal(0)))
    return wrap(trunc_int(t))


@model(builtins.float)
def _float(I, a, k):
    if not _anysym(a):
        return NotImplemented
    x = a[0]
    if isinstance(x, SArr):
        if x.ndim == 0:
            return wrap(to_real(A.cast_term(x.dtype, "float64", x.read(()))))
        raise Unsupported("float() of array")
    t = term(x)
    if z3.is_bool(t):
        t = z3.If(t, z3.IntVal(1), z3.IntVal(0))
    return wrap(to_real(t))


@model(builtins.bool)
def _bool(I, a, k):
    if not _anysym(a):
        return NotImplemented
    return I.truth(a[0])


@model(builtins.abs, np.abs, np.absolute)
def _abs(I, a, k):
    if not _anysym(a):
        return NotImplemented
    x = a[0]
    if isinstance(x, SArr):
        if x.dtype.kind == "c":
            CS = A.sort_of(x.dtype)
            f = z3.Function("c_abs!uf", CS, z3.RealSort())
            z = z3.Const(fresh_name("z"), CS)
            A.note_fact(z3.ForAll([z], f(z) >= 0, patterns=[f(z)]))
            dt = np.dtype("float32") if x.dtype == np.dtype("complex64") else np.dtype("float64")
            return A.ewise(lambda t: f(t), dt, x)
        return A.ewise(lambda t: z3.If(t >= 0, t, -t), x.dtype, x)
    t = term(x)
    return wrap(z3.If(t >= 0, t, -t))


def _minmax(I, a, k, is_min):
    if not _anysym(a):
        return NotImplemented
    if k:
        raise Unsupported("min/max with key/default on symbolic values")
    items = list(a)
    if len(items) == 1:
        items = I.to_list(items[0])
    # python semantics: first element wins ties; on scalars values are equal anyway
    r = items[0]
    for x in items[1:]:
        if isinstance(r, SArr) or isinstance(x, SArr):
            raise Unsupported("python min/max on arrays")
        c = ops.compare("Lt" if is_min else "Gt", x, r)
        tr, tx = term(r), term(x)
        if z3.is_int(tr) != z3.is_int(tx):
            # python keeps the original type of the selected operand; force a path split
            r = x if I.truth(c) else r
        else:
            r = wrap(z3.If(term(c), tx, tr))
    return r


@model(builtins.min)
def _min(I, a, k):
    return _minmax(I, a, k, True)


@model(builtins.max)
def _max(I, a, k):
    return _minmax(I, a, k, False)


@model(builtins.len)
def _len(I, a, k):
    x = a[0]
    if isinstance(x, SArr):
        return x.length()
    from .interp import SIter
    if isinstance(x, SIter):
        return wrap(A.T(x.length))
    if hasattr(x, "length") and getattr(x, "_pyvc_ok", False):
        return x.length() if callable(x.length) else wrap(A.T(x.length))
    if isinstance(x, (list, tuple, dict, str, set)):
        return len(x)
    return NotImplemented


@model(builtins.range)
def _range(I, a, k):
    if not _anysym(a):
        return NotImplemented
    from .interp import SIter
    if len(a) == 1:
        start, stop, step = 0, a[0], 1
    elif len(a) == 2:
        start, stop, step = a[0], a[1], 1
    else:
        start, stop, step = a
    if _sym(step):
        raise Unsupported("range with symbolic step")
    st, sp = term(start), term(stop)
    if step > 0:
        n = z3.If(sp > st, (sp - st + step - 1) / step, z3.IntVal(0))
    else:
        n = z3.If(sp < st, (st - sp - step - 1) / (-step), z3.IntVal(0))
    sit = SIter(z3.simplify(n), lambda j: wrap(st + j * step))
    sit.as_array = lambda: A.arange(start, stop, step)
    return sit


@model(builtins.enumerate)
def _enumerate(I, a, k):
    from .interp import SIter
    it = I.to_iterable(a[0], None)
    start = a[1] if len(a) > 1 else k.get("start", 0)
    if isinstance(it, SIter):
        return SIter(it.length, lambda j: (wrap(j + term(start)), it.item(j)), it.on_iter)
    if isinstance(it, (list, tuple)) and isinstance(start, (int, np.integer)):
        return [(int(start) + j, x) for j, x in enumerate(it)]
    return NotImplemented


@model(builtins.zip)
def _zip(I, a, k):
    from .interp import SIter
    its = [I.to_iterable(x, None) for x in a]
    if not any(isinstance(x, SIter) for x in its):
        return NotImplemented
    raise Unsupported("zip over symbolic iterables")


@model(builtins.isinstance)
def _isinstance(I, a, k):
    x, t = a
    if not isinstance(x, (SV, SArr)) and not is_z3(x):
        from .interp import SObj
        if isinstance(x, SObj):
            if x.cls is None:
                raise Unsupported("isinstance on untyped symbolic object")
            return issubclass(x.cls, t)
        return isinstance(x, t)
    ts = t if isinstance(t, tuple) else (t,)
    import numbers
    if isinstance(x, SArr):
        return any(issubclass(np.ndarray, c) for c in ts if isinstance(c, type))
    tt = term(x)
    if z3.is_bool(tt):
        pt = bool
    elif z3.is_int(tt):
        pt = int
    else:
        pt = float
    return any(isinstance(c, type) and issubclass(pt, c) for c in ts) or any(c is numbers.Number for c in ts)


@model(builtins.hasattr)
def _hasattr(I, a, k):
    from .interp import SObj, PyRaise
    obj, name = a
    if isinstance(obj, SObj):
        if name in obj.attrs:
            return True
        return obj.cls is not None and any(name in c.__dict__ for c in obj.cls.__mro__)
    if isinstance(obj, (SV, SArr)):
        try:
            sym_attr(I, obj, name)
            return True
        except (PyRaise, Unsupported):
            return False
    return NotImplemented


@model(builtins.getattr)
def _getattr(I, a, k):
    from .interp import SObj, PyRaise
    obj, name = a[0], a[1]
    if isinstance(obj, (SObj, SV, SArr)):
        try:
            return I.getattr(obj, name)
        except PyRaise:
            if len(a) > 2:
                return a[2]
            raise
    return NotImplemented


@model(builtins.slice)
def _slice(I, a, k):
    return slice(*a)


@model(builtins.tuple)
def _tuple(I, a, k):
    if a and isinstance(a[0], SArr):
        return tuple(I.to_list(a[0]))
    return tuple(*a) if not a or not _sym(a[0]) or isinstance(a[0], (list, tuple)) else NotImplemented


@model(builtins.list)
def _list(I, a, k):
    from .interp import SIter
    if a and isinstance(a[0], SIter):
        n = A.conc(a[0].length)
        if n is None:
            if getattr(a[0], "as_array", None) is not None:
                # list(range(a, b)) of symbolic length: represented by the equivalent integer array
                # (same len(), indexing and use as an index; list-only operations are not modelled)
                return a[0].as_array()
            raise Unsupported("list() of an iterable of symbolic length")
        return [a[0].item(z3.IntVal(j)) for j in range(n)]
    if a and isinstance(a[0], SArr):
        return I.to_list(a[0])
    if a and isinstance(a[0], (list, tuple, dict, set)) or not a:
        return list(*a)
    return NotImplemented


@model(builtins.round)
def _round(I, a, k):
    if not _anysym(a):
        return NotImplemented
    if len(a) > 1:
        raise Unsupported("round with ndigits")
    return wrap(round_half_even(term(a[0])))


@model(builtins.sum)
def _sum(I, a, k):
    if not _anysym(a):
        return NotImplemented
    x0 = a[0].arr if getattr(a[0], "_pyvc_series", False) else a[0]
    if isinstance(x0, SArr) and x0.ndim == 1 and not isinstance(x0.shape[0], int) and len(a) == 1:
        return _npsum(I, [x0], {})          # sum over a 1-d array of symbolic length: the same opaque reduction as np.sum
    items = I.to_list(x0)
    r = a[1] if len(a) > 1 else 0
    for x in items:
        r = ops.binop("Add", r, x)
    return r


@model(builtins.all)
def _all(I, a, k):
    if not _anysym(a):
        return NotImplemented
    x = a[0]
    if isinstance(x, SArr):
        return _np_all(I, a, k)
    for e in I.to_list(x):
        if not I.truth(e):
            return False
    return True


@model(builtins.any)
def _any(I, a, k):
    if not _anysym(a):
        return NotImplemented
    x = a[0]
    if isinstance(x, SArr):
        return _np_any(I, a, k)
    for e in I.to_list(x):
        if I.truth(e):
            return True
    return False


@model(builtins.str, builtins.repr, builtins.format)
def _str(I, a, k):
    if not _anysym(a):
        return NotImplemented
    if len(a) == 1 and getattr(a[0], "_pyvc_ok", False) and hasattr(a[0], "key"):
        return a[0].key
    if I is not None and len(a) == 1 and not k and isinstance(a[0], SV):
        return SymStr([a[0]])          # str(v): the default text of the value (A-STR-FREE: kept as a constructor term; an integer term stands for its decimal digits)
    if len(a) == 1 and not k and isinstance(a[0], SymStr):
        return a[0]
    return SymStr(["<sym>"])


@model(builtins.print)
def _print(I, a, k):
    return None


@model(math.ceil)
def _mceil(I, a, k):
    if not _anysym(a):
        return NotImplemented
    return wrap(z3.ToInt(ceil_real(to_real(term(a[0])))) if not z3.is_int(term(a[0])) else term(a[0]))


@model(math.floor)
def _mfloor(I, a, k):
    if not _anysym(a):
        return NotImplemented
    return wrap(z3.ToInt(to_real(term(a[0]))))


# ----------------------------------------------------------------------------- numpy scalars / ufuncs
def _unary_real(fn_scalar, out_dtype_rule="float"):
    def m(I, a, k):
        if not _anysym(a):
            return NotImplemented
        x = a[0]
        if isinstance(x, SArr):
            dt = x.dtype if x.dtype.kind == "f" else np.dtype("float64")
            return A.ewise(lambda t: fn_scalar(A.cast_term(x.dtype, dt, t)), dt, x)
        return wrap(fn_scalar(to_real(term(x))))
    return m


model(np.ceil)(_unary_real(ceil_real))
model(np.floor)(_unary_real(floor_real))
model(np.round, np.rint, np.around)(_unary_real(lambda t: z3.ToReal(round_half_even(t))))


def _np_binary_select(pick):
    def m(I, a, k):
        if not _anysym(a):
            return NotImplemented
        x, y = a[0], a[1]
        if isinstance(x, (SArr, np.ndarray, list)) or isinstance(y, (SArr, np.ndarray, list)):
            xx, yy = A.as_sarr(x), A.as_sarr(y)
            dt = A.result_dtype((x if not isinstance(x, list) else xx, False), (y if not isinstance(y, list) else yy, False)) if True else None
            return A.ewise(lambda s, t: pick(A.cast_term(xx.dtype, dt, s), A.cast_term(yy.dtype, dt, t)), dt, xx, yy)
        tx, ty = term(x), term(y)
        if z3.is_int(tx) != z3.is_int(ty):
            tx, ty = to_real(tx), to_real(ty)
        return wrap(pick(tx, ty))
    return m


_npminimum = _np_binary_select(lambda s, t: z3.If(s <= t, s, t))
_npmaximum = _np_binary_select(lambda s, t: z3.If(s >= t, s, t))
model(np.minimum)(_npminimum)
model(np.maximum)(_npmaximum)


@model(np.mod, np.remainder)
def _np_mod(I, a, k):
    if not _anysym(a):
        return NotImplemented
    return ops.binop("Mod", a[0], a[1])


@model(np.logical_or)
def _lor(I, a, k):
    if not _anysym(a):
        return NotImplemented
    xx, yy = A.as_sarr(a[0]), A.as_sarr(a[1])
    r = A.ewise(lambda s, t: z3.Or(A.cast_term(xx.dtype, bool, s), A.cast_term(yy.dtype, bool, t)), bool, xx, yy)
    return _unbox(r)


@model(np.logical_and)
def _land(I, a, k):
    if not _anysym(a):
        return NotImplemented
    xx, yy = A.as_sarr(a[0]), A.as_sarr(a[1])
    r = A.ewise(lambda s, t: z3.And(A.cast_term(xx.dtype, bool, s), A.cast_term(yy.dtype, bool, t)), bool, xx, yy)
    return _unbox(r)


@model(np.logical_not)
def _lnot(I, a, k):
    if not _anysym(a):
        return NotImplemented
    xx = A.as_sarr(a[0])
    return _unbox(A.ewise(lambda s: z3.Not(A.cast_term(xx.dtype, bool, s)), bool, xx))


def _unbox(r):
    if isinstance(r, SArr) and r.ndim == 0:
        return wrap(r.read(()))
    return r


def _scalar_type_model(dtype):
    dtype = np.dtype(dtype)

    def m(I, a, k):
        if not _anysym(a):
            return NotImplemented
        x = a[0]
        if isinstance(x, SArr):
            return A.astype(x, dtype)
        if isinstance(x, (list, tuple)):
            return A.astype(A.as_sarr(x), dtype)
        t = term(x)
        src = np.dtype(bool) if z3.is_bool(t) else np.dtype("int64") if z3.is_int(t) else np.dtype("float64")
        return wrap(A.cast_term(src, dtype, t))
    return m


for _t in (np.int8, np.int16, np.int32, np.int64, np.uint8, np.uint16, np.float32, np.float64, np.double, np.bool_):
    model(_t)(_scalar_type_model(_t))


@model(np.isclose)
def _isclose(I, a, k):
    if not _anysym(a):
        return NotImplemented
    rtol = k.get("rtol", 1e-5)
    atol = k.get("atol", 1e-8)
    xx, yy = A.as_sarr(a[0]), A.as_sarr(a[1])

    def f(s, t):
        s, t = to_real(A.cast_term(xx.dtype, "float64", s)), to_real(A.cast_term(yy.dtype, "float64", t))
        d = s - t
        ad = z3.If(d >= 0, d, -d)
        at = z3.If(t >= 0, t, -t)
        return ad <= term(atol) + term(rtol) * at
    return _unbox(A.ewise(f, bool, xx, yy))


@model(np.all)
def _np_all(I, a, k):
    if not _anysym(a):
        return NotImplemented
    x = A.as_sarr(a[0])
    if k.get("axis") is not None:
        raise Unsupported("np.all with axis")
    return wrap(A.forall_elems(x, lambda t: A.cast_term(x.dtype, bool, t)))


@model(np.any)
def _np_any(I, a, k):
    if not _anysym(a):
        return NotImplemented
    x = A.as_sarr(a[0])
    if k.get("axis") is not None:
        raise Unsupported("np.any with axis")
    return wrap(A.exists_elem(x, lambda t: A.cast_term(x.dtype, bool, t)))


@model(np.array_equal)
def _array_equal(I, a, k):
    if not _anysym(a):
        return NotImplemented
    x, y = A.as_sarr(a[0]), A.as_sarr(a[1])
    if x.ndim != y.ndim:
        return False
    conds = [A.T(p) == A.T(q) for p, q in zip(x.shape, y.shape)]
    eq = ops.compare("Eq", x, y) if all(A.same_dim(p, q) for p, q in zip(x.shape, y.shape)) else None
    if eq is None:
        raise Unsupported("array_equal with possibly different shapes")
    return wrap(A.forall_elems(eq, lambda t: t))


# ----------------------------------------------------------------------------- numpy constructors
def _shape_arg(s):
    if isinstance(s, (tuple, list)):
        return tuple(s)
    if isinstance(s, SArr):
        if s.ndim != 1 or not isinstance(s.shape[0], int):
            raise Unsupported("shape given as an array of symbolic length")
        return tuple(wrap(s.read((z3.IntVal(i),))) for i in range(s.shape[0]))
    return (s,)


@model(np.zeros)
def _zeros(I, a, k):
    if not _anysym(a, k):
        return NotImplemented
    dt = np.dtype(k.get("dtype", a[1] if len(a) > 1 else np.float64))
    return A.full(_shape_arg(a[0]), False if dt.kind == "b" else 0, dt)


@model(np.ones)
def _ones(I, a, k):
    if not _anysym(a, k):
        return NotImplemented
    dt = np.dtype(k.get("dtype", a[1] if len(a) > 1 else np.float64))
    return A.full(_shape_arg(a[0]), True if dt.kind == "b" else 1, dt)


@model(np.full)
def _full(I, a, k):
    if not _anysym(a, k):
        return NotImplemented
    dt = k.get("dtype", a[2] if len(a) > 2 else None)
    return A.full(_shape_arg(a[0]), a[1], dt)


@model(np.zeros_like)
def _zeros_like(I, a, k):
    if not _anysym(a, k):
        return NotImplemented
    x = A.as_sarr(a[0])
    dt = np.dtype(k.get("dtype") or x.dtype)
    return A.full(x.shape, False if dt.kind == "b" else 0, dt)


@model(np.ones_like)
def _ones_like(I, a, k):
    if not _anysym(a, k):
        return NotImplemented
    x = A.as_sarr(a[0])
    dt = np.dtype(k.get("dtype") or x.dtype)
    return A.full(x.shape, True if dt.kind == "b" else 1, dt)


@model(np.empty)
def _empty(I, a, k):
    if not _anysym(a, k):
        return NotImplemented
    dt = np.dtype(k.get("dtype", a[1] if len(a) > 1 else np.float64))
    return A.fresh_array("empty", dt, _shape_arg(a[0]))


@model(np.arange)
def _arange(I, a, k):
    if not _anysym(a, k):
        return NotImplemented
    return A.arange(*a, dtype=k.get("dtype"))


@model(np.asarray, np.asanyarray, np.ascontiguousarray, np.asfortranarray)
def _asarray(I, a, k):
    """np.asarray: NO copy when the argument already is an array of the requested dtype (the result IS the argument: writes go through).
    ascontiguousarray / asfortranarray: same values and index function (memory layout is not modelled); treated as no copy, the case in which writes alias"""
    if not _anysym(a, k):
        return NotImplemented
    x = a[0]
    dt = k.get("dtype", a[1] if len(a) > 1 else None)
    if isinstance(x, SArr) and (dt is None or np.dtype(dt) == x.dtype):
        return x
    return _array(I, a, {kk: v for kk, v in k.items() if kk != "copy"})


@model(np.array)
def _array(I, a, k):
    if not _anysym(a, k):
        return NotImplemented
    x = a[0]
    dt = k.get("dtype", a[1] if len(a) > 1 else None)
    r = A.as_sarr(x)
    if isinstance(x, SArr):
        r = x.copy()
    if dt is not None:
        r = A.astype(r, dt)
    return r


@model(np.copy)
def _copy(I, a, k):
    if not _anysym(a, k):
        return NotImplemented
    return A.as_sarr(a[0]).copy()


@model(np.atleast_1d)
def _atleast_1d(I, a, k):
    if not _anysym(a, k):
        return NotImplemented
    x = A.as_sarr(a[0])
    if x.ndim == 0:
        s = x.snapshot()
        return SArr(x.dtype, (1,), lambda idx: s(()))
    return x


@model(np.flipud)
def _flipud(I, a, k):
    if not _anysym(a):
        return NotImplemented
    return A.flip(a[0], 0)


@model(np.fliplr)
def _fliplr(I, a, k):
    if not _anysym(a):
        return NotImplemented
    return A.flip(a[0], 1)


@model(np.flip)
def _flip(I, a, k):
    if not _anysym(a):
        return NotImplemented
    return A.flip(a[0], k.get("axis", a[1] if len(a) > 1 else None))


@model(np.roll)
def _roll(I, a, k):
    if not _anysym(a):
        return NotImplemented
    return A.roll(a[0], a[1], k.get("axis", a[2] if len(a) > 2 else None))


@model(np.transpose)
def _transpose(I, a, k):
    if not _anysym(a):
        return NotImplemented
    return A.transpose(a[0], k.get("axes", a[1] if len(a) > 1 else None))


@model(np.concatenate)
def _concatenate(I, a, k):
    if not _anysym(a, k):
        return NotImplemented
    return A.concatenate(list(a[0]), k.get("axis", a[1] if len(a) > 1 else 0))


@model(np.hstack)
def _hstack(I, a, k):
    if not _anysym(a, k):
        return NotImplemented
    arrs = [A.as_sarr(x) for x in a[0]]
    arrs = [_atleast_1d(I, [x], {}) if isinstance(x, SArr) and x.ndim == 0 else x for x in arrs]
    return A.concatenate(arrs, 0 if arrs[0].ndim == 1 else 1)


@model(np.vstack)
def _vstack(I, a, k):
    if not _anysym(a, k):
        return NotImplemented
    arrs = [A.as_sarr(x) for x in a[0]]
    arrs = [A.getitem(x, (None, slice(None))) if x.ndim == 1 else x for x in arrs]
    return A.concatenate(arrs, 0)


@model(np.take)
def _take(I, a, k):
    if not _anysym(a, k):
        return NotImplemented
    return A.take(a[0], a[1], k.get("axis", a[2] if len(a) > 2 else None))


@model(np.diff)
def _diff(I, a, k):
    if not _anysym(a, k):
        return NotImplemented
    n = k.get("n", a[1] if len(a) > 1 else 1)
    if n != 1:
        raise Unsupported("np.diff n != 1")
    x = A.as_sarr(a[0])
    if k.get("append") is not None:
        raise Unsupported("np.diff append=")
    if k.get("prepend") is not None:
        # A-NP-SPEC diff(prepend=p): the difference of concatenate(([p], x)) along the axis
        if x.ndim != 1:
            raise Unsupported("np.diff prepend= on a n-d array")
        pre = A.as_sarr(k["prepend"])
        if pre.ndim == 0:
            pre = A.reshape(pre, (1,))
        x = A.concatenate([pre, x], axis=0)
    if x.dtype.kind == "b":
        hi = [slice(None)] * x.ndim
        lo = [slice(None)] * x.ndim
        ax = int(k.get("axis", -1)) % x.ndim
        hi[ax] = slice(1, None)
        lo[ax] = slice(None, -1)
        return ops.compare("NotEq", A.getitem(x, tuple(hi)), A.getitem(x, tuple(lo)))
    return A.diff(x, k.get("axis", a[2] if len(a) > 2 else -1))


@model(np.where)
def _where(I, a, k):
    if not _anysym(a, k):
        return NotImplemented
    if len(a) == 1:
        m = A.as_sarr(a[0])
        if m.ndim == 1:
            return (A.where1d(m),)
        if m.ndim == 2:
            return A.where2d(m)
        raise Unsupported("np.where on n-d condition")
    c, x, y = (A.as_sarr(v) for v in a)
    dt = np.result_type(x.dtype, y.dtype)
    return A.ewise(lambda cc, s, t: z3.If(A.cast_term(c.dtype, bool, cc), A.cast_term(x.dtype, dt, s), A.cast_term(y.dtype, dt, t)), dt, c, x, y)


@model(np.flatnonzero)
def _flatnonzero(I, a, k):
    if not _anysym(a, k):
        return NotImplemented
    m = A.as_sarr(a[0])
    if m.ndim != 1:
        raise Unsupported("flatnonzero on n-d")
    return A.where1d(m)


@model(np.reshape)
def _reshape(I, a, k):
    if not _anysym(a, k):
        return NotImplemented
    return A.reshape(a[0], a[1])


@model(np.shape)
def _shape(I, a, k):
    if not _anysym(a, k):
        return NotImplemented
    return tuple(d if isinstance(d, int) else SV(d) for d in A.as_sarr(a[0]).shape)


# ----------------------------------------------------------------------------- r_ / c_
def subscript_hook(obj):
    if obj is np.r_:
        return _r_getitem
    if obj is np.c_:
        return _c_getitem
    return None


def _r_getitem(I, obj, idx):
    items = idx if isinstance(idx, tuple) else (idx,)
    if not _sym(list(items)):
        return np.r_[idx]
    if any(isinstance(x, (str, slice)) for x in items):
        raise Unsupported("np.r_ with slice / string directive and symbolic parts")
    arrs = []
    for x in items:
        xx = A.as_sarr(x)
        if xx.ndim == 0:
            s = xx.snapshot()
            xx = SArr(xx.dtype, (1,), (lambda s_: lambda i: s_(()))(s))
        arrs.append(xx)
    return A.concatenate(arrs, 0)


def _c_getitem(I, obj, idx):
    items = idx if isinstance(idx, tuple) else (idx,)
    if not _sym(list(items)):
        return np.c_[idx]
    arrs = []
    for x in items:
        xx = A.as_sarr(x)
        if xx.ndim == 0:
            raise Unsupported("np.c_ with scalar")
        if xx.ndim == 1:
            xx = A.getitem(xx, (slice(None), None))
        arrs.append(xx)
    return A.concatenate(arrs, -1)


# ----------------------------------------------------------------------------- reductions
def _mean_axioms(along, n, r):
    return []


@model(np.mean)
def _mean(I, a, k):
    if not _anysym(a, k):
        return NotImplemented
    x = A.as_sarr(a[0])
    axis = k.get("axis", a[1] if len(a) > 1 else None)
    dt = x.dtype if x.dtype.kind == "f" else np.dtype("float64")
    return _unbox(mean_model(x, axis, dt))


def mean_model(x, axis, dt):
    """mean as an uninterpreted reduction (mathematical mean); boolean input gets the counting facts
    0 <= mean <= 1, mean == 0 iff no element is set, mean*n is the count (A-NP-SPEC)."""
    if x.dtype.kind == "b":
        def ax(along, n, r):
            return [r >= 0, r <= 1]
        return A.reduce_axis(x, axis, "mean", dt, ax)
    return A.reduce_axis(x, axis, "mean", dt, None)


@model(np.sum)
def _npsum(I, a, k):
    if not _anysym(a, k):
        return NotImplemented
    x = A.as_sarr(a[0])
    axis = k.get("axis", a[1] if len(a) > 1 else None)
    dt = np.dtype("int64") if x.dtype.kind in "biu" else x.dtype
    if x.ndim == 0:
        return _unbox(A.astype(x, dt))
    return _unbox(A.reduce_axis(x, axis, "sum", dt, None))


# ----------------------------------------------------------------------------- attributes of symbolic values
class SymCallable:
    """callable provided by a model (method of a symbolic value); accepts symbolic arguments"""

    def __init__(self, f, name=""):
        self.f, self.name = f, name

    def __call__(self, *a, **k):
        return self.f(*a, **k)


def sym_attr(I, obj, name):
    r = _sym_attr(I, obj, name)
    if callable(r) and not isinstance(r, (SymCallable, SArr, SV, np.dtype)):
        return SymCallable(r, name)
    return r


def _sym_attr(I, obj, name):
    from .interp import PyRaise
    if isinstance(obj, SV):
        if name == "tofile":
            return lambda fid, *x, **kw: fid.write_array(A.getitem(A.as_sarr(obj), (None,)))
        if name == "is_integer" and obj.is_real:
            return lambda: wrap(z3.IsInt(obj.t))
        if name in ("astype",):
            # numpy scalar .astype(dtype): a 0-d array keeps the dtype (needed for byte counts of tofile)
            return lambda dt, **kw: A.astype(A.as_sarr(obj), dt)
        if name == "real":
            return obj
        if name == "ndim":
            return 0
        if name == "shape":
            return ()
        raise PyRaise(AttributeError(f"scalar has no attribute {name}"))
    a = obj
    if name == "shape":
        return tuple(d if isinstance(d, int) else SV(d) for d in a.shape)
    if name == "ndim":
        return a.ndim
    if name == "size":
        return a.size
    if name == "dtype":
        return a.dtype
    if name == "T":
        return A.transpose(a)
    if name == "astype":
        def astype(dt, copy=True, **kw):
            if copy is False and np.dtype(dt) == a.dtype:
                return a              # ndarray.astype(same dtype, copy=False) returns the array itself
            return A.astype(a, dt)
        return astype
    if name == "copy":
        return lambda *x, **kw: a.copy()
    if name == "transpose":
        return lambda *axes: A.transpose(a, axes[0] if len(axes) == 1 and isinstance(axes[0], (tuple, list)) else (axes or None))
    if name == "reshape":
        return lambda *s, **kw: A.reshape(a, _shape_arg(s[0]) if len(s) == 1 and isinstance(s[0], (tuple, list, SArr)) else s)
    if name == "flatten" or name == "ravel":
        return lambda *x, **kw: A.reshape(a, (-1,))
    if name == "view":
        def view(dt):
            from . import bits
            return bits.view(a, dt)
        return view
    if name == "tofile":
        def tofile(fid, *x, **kw):
            w = getattr(fid, "write_array", None)
            if w is None:
                raise Unsupported("tofile on a non ghost file")
            return w(a)
        return tofile
    if name == "tolist":
        return lambda: I.to_list(a)
    if name in ("mean", "sum", "all", "any", "min", "max", "argmax", "cumsum"):
        fn = {"mean": _mean, "sum": _npsum, "all": _np_all, "any": _np_any, "min": lambda *q: _npmin(*q), "max": lambda *q: _npmax(*q),
              "argmax": lambda *q: _argmax_model(False)(*q), "cumsum": lambda *q: _cumsum(*q)}[name]
        return lambda *x, **kw: fn(I, [a] + list(x), kw)
    if name == "swapaxes":
        def swapaxes(i, j):
            axes = list(range(a.ndim))
            axes[i], axes[j] = axes[j], axes[i]
            return A.transpose(a, axes)
        return swapaxes
    raise PyRaise(AttributeError(f"ndarray model has no attribute {name}")) if name.startswith("__") else Unsupported(f"ndarray attribute {name}")


@model(scipy.signal.windows.hann)
def _hann(I, a, k):
    """A-SCIPY: symmetric Hann window of odd length N: values in [0,1], w[i] + w[(N-1)/2 - i] == 1
    for 0 <= i <= (N-1)/2 (0.5-0.5cos(2 pi i/(N-1)) identity), w[i] == w[N-1-i]."""
    if not _anysym(a, k):
        return NotImplemented
    n = term(a[0])
    sym = k.get("sym", a[1] if len(a) > 1 else True)
    if sym is not True:
        raise Unsupported("periodic hann with symbolic length")
    f = z3.Function(fresh_name("hann"), z3.IntSort(), z3.RealSort())

    def facts(idx, t):
        i = idx[0]
        half = (n - 1) / 2
        return [t >= 0, t <= 1,
                z3.Implies(z3.And(n % 2 == 1, i >= 0, i <= half), t + f(half - i) == 1),
                z3.Implies(z3.And(i >= 0, i < n), t == f(n - 1 - i))]
    arr = SArr(np.float64, (A.dim(n),), lambda idx: f(idx[0]))
    arr.facts_on_read = facts
    return arr


@model(np.unpackbits)
def _unpackbits(I, a, k):
    """A-NP-SPEC: uint8 -> bits, most significant first, flattened (axis=None)"""
    if not _anysym(a, k):
        return NotImplemented
    x = A.as_sarr(a[0])
    if x.dtype != np.dtype("uint8"):
        raise I_raise(TypeError("Expected an input array of unsigned byte data type"))
    if k.get("axis") is not None or k.get("bitorder", "big") != "big" or k.get("count") is not None:
        raise Unsupported("unpackbits with axis/bitorder/count")
    flat = A.reshape(x, (-1,)) if x.ndim != 1 else x
    s = flat.snapshot()
    n = A.T(flat.shape[0])

    def elem(idx):
        i = idx[0]
        byte = s((A.idiv(i, 8),))
        b = z3.simplify(7 - A.imod(i, 8))
        # (byte div 2^b) mod 2 with b in 0..7: case split keeps the arithmetic linear
        if z3.is_int_value(b):
            return z3.simplify((byte / (2 ** b.as_long())) % 2)
        t = (byte / 128) % 2
        for bb in range(6, -1, -1):
            t = z3.If(b == bb, (byte / (2 ** bb)) % 2, t)
        return z3.simplify(t)
    return SArr(np.uint8, (A.dim(n * 8),), elem)


def I_raise(e):
    from .interp import PyRaise
    return PyRaise(e)


@model(np.lexsort)
def _lexsort(I, a, k):
    """A-NP-SPEC: lexsort(keys) is the stable permutation sorting by the LAST key first"""
    if not _anysym(a, k):
        return NotImplemented
    keys = a[0]
    if isinstance(keys, (tuple, list)):
        ks = [A.as_sarr(x) for x in keys]
        n = ks[0].shape[0]
        snaps = [x.snapshot() for x in ks]
        key = lambda r, i: snaps[r]((i,))     # noqa
        nk = len(ks)
    else:
        keys = A.as_sarr(keys)
        if keys.ndim != 2 or not isinstance(keys.shape[0], int):
            raise Unsupported("lexsort keys must be (nkeys, n) with a concrete number of keys")
        nk = keys.shape[0]
        n = keys.shape[1]
        s = keys.snapshot()
        key = lambda r, i: s((z3.IntVal(r), i))     # noqa
    nt = A.T(n)
    p = z3.Function(fresh_name("perm"), z3.IntSort(), z3.IntSort())
    pinv = z3.Function(fresh_name("perminv"), z3.IntSort(), z3.IntSort())
    i, j, i2 = z3.Int(fresh_name("i")), z3.Int(fresh_name("j")), z3.Int(fresh_name("i"))

    def lex_le(x, y):
        # last key is primary; ties broken by original position (stability)
        t = x < y
        for r in range(nk):
            t = z3.Or(key(r, x) < key(r, y), z3.And(key(r, x) == key(r, y), t))
        return t
    A.note_fact(z3.ForAll([i], z3.Implies(z3.And(i >= 0, i < nt), z3.And(p(i) >= 0, p(i) < nt, pinv(p(i)) == i)), patterns=[p(i)]),
                z3.ForAll([j], z3.Implies(z3.And(j >= 0, j < nt), z3.And(pinv(j) >= 0, pinv(j) < nt, p(pinv(j)) == j)), patterns=[pinv(j)]),
                z3.ForAll([i, i2], z3.Implies(z3.And(i >= 0, i < i2, i2 < nt), lex_le(p(i), p(i2))), patterns=[z3.MultiPattern(p(i), p(i2))]))
    out = SArr(np.dtype("int64"), (A.dim(nt),), lambda idx: p(idx[0]))
    out.inverse = lambda x: pinv(x)
    c = A.cur()
    if c is not None:
        if not hasattr(c, "sort_log"):
            c.sort_log = []
        c.sort_log.append({"perm": p, "inv": pinv, "n": nt, "key": key, "nk": nk})
    return out


@model(scipy.signal.windows.cosine)
def _cosine(I, a, k):
    """A-SCIPY: cosine(M)[j] = sin(pi (j+0.5)/M): values in (0,1], symmetric, centre tap == 1 when M is odd"""
    if not _anysym(a, k):
        return NotImplemented
    m = term(a[0])
    f = z3.Function(fresh_name("coswin"), z3.IntSort(), z3.RealSort())

    def facts(idx, t):
        j = idx[0]
        return [z3.Implies(z3.And(j >= 0, j < m), z3.And(t > 0, t <= 1, t == f(m - 1 - j))),
                z3.Implies(z3.And(m % 2 == 1, j == (m - 1) / 2), t == 1)]
    arr = SArr(np.float64, (A.dim(m),), lambda idx: f(idx[0]))
    arr.facts_on_read = facts
    arr.window = ("cosine", m, f)
    return arr


@model(scipy.signal.convolve)
def _convolve(I, a, k):
    """A-SCIPY direct convolution, mode='same', 1-D, with a non negative kernel w of length M:
       out[t] = sum_k x[k] w[t + (M-1)//2 - k];  for x >= 0:  out[t] >= 0,  out[t] >= x[k] w[t+(M-1)//2-k] for every k (single-term bound),
       out[t] == 0 when x vanishes on the support [t + (M-1)//2 - (M-1), t + (M-1)//2]."""
    if not _anysym(a, k):
        return NotImplemented
    mode = k.get("mode", a[2] if len(a) > 2 else "full")
    x, w = A.as_sarr(a[0]), A.as_sarr(a[1])
    if mode != "same" or x.ndim != 1 or w.ndim != 1:
        raise Unsupported("scipy.signal.convolve other than 1-D mode='same'")
    if x.dtype.kind != "b":
        raise Unsupported("convolve model needs a boolean (non negative) first operand")
    xs, ws = x.snapshot(), w.snapshot()
    n, m = A.T(x.shape[0]), A.T(w.shape[0])
    f = z3.Function(fresh_name("conv"), z3.IntSort(), z3.RealSort())
    h = (m - 1) / 2
    kk = z3.Int(fresh_name("k"))

    def facts(idx, t):
        tt = idx[0]
        lo, hi = tt + h - (m - 1), tt + h
        single = A.forall_hyp([kk], lambda: z3.Implies(z3.And(kk >= 0, kk < n, kk >= lo, kk <= hi, xs((kk,))), t >= ws((tt + h - kk,))))
        empty = z3.Implies(A.forall([kk], lambda: z3.Implies(z3.And(kk >= 0, kk < n, kk >= lo, kk <= hi), z3.Not(xs((kk,))))), t == 0)
        return [t >= 0, single, empty]
    out = SArr(np.float64, (A.dim(n),), lambda idx: f(idx[0]))
    out.facts_on_read = facts
    c = A.cur()
    if c is not None:
        if not hasattr(c, "conv_log"):
            c.conv_log = []
        c.conv_log.append({"x": xs, "w": w, "n": n, "m": m, "out": f})
    return out


import copy as _copy


def _deepcopy_sym(x):
    if isinstance(x, dict):
        r = type(x)() if type(x) is not dict else {}
        for k, v in x.items():
            r[k] = _deepcopy_sym(v)
        return r
    if isinstance(x, list):
        return [_deepcopy_sym(v) for v in x]
    if isinstance(x, tuple):
        return tuple(_deepcopy_sym(v) for v in x)
    if isinstance(x, SArr):
        return x.copy()
    if isinstance(x, SV) or is_z3(x):
        return x
    return _copy.deepcopy(x)


@model(_copy.copy)
def _shallowcopy(I, a, k):
    """copy.copy: a new container holding the SAME members (dict / list / Bunch); arrays are copied (ndarray.__copy__ copies the data)"""
    x = a[0]
    if isinstance(x, dict):
        out = type(x)() if type(x) is not dict else {}
        for kk, v in x.items():
            out[kk] = v
        return out
    if isinstance(x, list):
        return list(x)
    if isinstance(x, SArr):
        return x.copy()
    if not _anysym(a, k):
        return NotImplemented
    raise Unsupported(f"copy.copy of {type(x).__name__}")


@model(_copy.deepcopy)
def _deepcopy(I, a, k):
    if not _anysym(a):
        return NotImplemented
    return _deepcopy_sym(a[0])


def _opaque_unary(name):
    def m(I, a, k):
        if not _anysym(a, k):
            return NotImplemented
        x = a[0]
        if isinstance(x, SArr):
            dt = x.dtype if x.dtype.kind == "f" else np.dtype("float64")
            f = z3.Function(name + "!uf", z3.RealSort(), z3.RealSort())
            out = A.ewise(lambda t: f(to_real(A.cast_term(x.dtype, dt, t))), dt, x)
            c = A.cur()
            if c is not None:
                if not hasattr(c, "opaque_log"):
                    c.opaque_log = []
                c.opaque_log.append({"name": name, "in": x.snapshot(), "shape": x.shape, "out": out.snapshot()})
            return out
        f = z3.Function(name + "!uf", z3.RealSort(), z3.RealSort())
        return wrap(f(to_real(term(x))))
    return m


model(np.log)(_opaque_unary("log"))
model(np.sqrt)(_opaque_unary("sqrt"))
model(np.exp)(_opaque_unary("exp"))
def _cos_model(I, a, k):
    """A-MATH: cos is opaque except cos(0) = 1, cos(np.pi) = -1 (np.pi is the binary64 constant; the error of cos at it is below 1e-16 and
    ignored under A-REAL), |cos| <= 1 and cos non increasing on [0, np.pi]"""
    r = _opaque_unary("cos")(I, a, k)
    if r is NotImplemented:
        return r
    f = z3.Function("cos!uf", z3.RealSort(), z3.RealSort())
    x, y = z3.Reals("cos!x cos!y")
    pi = term(float(np.pi))
    A.note_fact(f(z3.RealVal(0)) == 1, f(pi) == -1,
                z3.ForAll([x], z3.And(f(x) >= -1, f(x) <= 1), patterns=[f(x)]),
                z3.ForAll([x, y], z3.Implies(z3.And(x >= 0, x <= y, y <= pi), f(x) >= f(y)), patterns=[z3.MultiPattern(f(x), f(y))]))
    return r


model(np.cos)(_cos_model)
model(np.sin)(_opaque_unary("sin"))


@model(np.tile)
def _tile(I, a, k):
    if not _anysym(a, k):
        return NotImplemented
    x = A.as_sarr(a[0])
    reps = a[1] if isinstance(a[1], (tuple, list)) else (a[1],)
    if x.ndim == 1 and len(reps) == 2 and A.conc(reps[1]) == 1:
        s = x.snapshot()
        return SArr(x.dtype, (A.dim(reps[0]), x.shape[0]), lambda idx: s((idx[1],)))
    raise Unsupported("np.tile other than tile(1-d, (k, 1))")


@model(np.repeat)
def _repeat(I, a, k):
    """np.repeat([v0, v1, ...], [n0, n1, ...]): v0 n0 times, then v1 n1 times, ... (counts may be symbolic, assumed >= 0 as NumPy demands)"""
    if not _anysym(a, k):
        return NotImplemented
    vals, reps = a[0], (a[1] if len(a) > 1 else k.get("repeats"))
    if not isinstance(vals, (list, tuple)) or not isinstance(reps, (list, tuple)) or len(vals) != len(reps) or k.get("axis") is not None:
        raise Unsupported("np.repeat other than repeat(list of k scalars, list of k counts)")
    from .core import to_real as as_real
    vt = [as_real(term(v)) if not isinstance(v, (int, float)) else z3.RealVal(repr(float(v))) for v in vals]
    bounds, acc = [], z3.IntVal(0)
    for r in reps:
        A.oblige("repeat.count_non_negative", A.T(r) >= 0, "np.repeat raises on a negative count")
        acc = acc + A.T(r)
        bounds.append(acc)

    def elem(idx):
        e = vt[-1]
        for v_, b_ in reversed(list(zip(vt[:-1], bounds[:-1]))):
            e = z3.If(idx[0] < b_, v_, e)
        return e
    return SArr(np.float64, (wrap(z3.simplify(acc)),), elem)


# ----------------------------------------------------------------------------- order statistics (A-NP-SPEC)
def _argmax_axioms(nan_aware):
    def ax(along, n, r):
        k = z3.Int(fresh_name("k"))
        from .core import NAN
        ok = (lambda t: t != NAN) if nan_aware else (lambda t: z3.BoolVal(True))
        return [r >= 0, r < n, ok(along(r)),
                z3.ForAll([k], z3.Implies(z3.And(k >= 0, k < n, ok(along(k))), z3.And(along(k) <= along(r), z3.Implies(k < r, along(k) < along(r)))))]
    return ax


def _argmax_model(nan_aware):
    def m(I, a, k):
        if not _anysym(a, k):
            return NotImplemented
        x = A.as_sarr(a[0])
        axis = k.get("axis", a[1] if len(a) > 1 else None)
        if x.dtype.kind == "b":
            x = A.astype(x, "int64")
        if nan_aware:
            # np.nanargmax raises ValueError on an all-NaN slice
            from .core import NAN
            ax_ = (0 if x.ndim == 1 else int(axis) % x.ndim) if axis is not None or x.ndim == 1 else None
            if ax_ is None:
                raise Unsupported("nanargmax over a flattened n-d array")
            rest = [z3.Int(fresh_name("q")) for _ in range(x.ndim - 1)]
            kk = z3.Int(fresh_name("k"))
            s = x.snapshot()
            full = lambda kv: tuple(rest[:ax_] + [kv] + rest[ax_:])     # noqa
            rng = z3.And(*[z3.And(q >= 0, q < A.T(d)) for q, d in zip(rest, x.shape[:ax_] + x.shape[ax_ + 1:])]) if rest else z3.BoolVal(True)
            goal = z3.Implies(rng, z3.Exists([kk], z3.And(kk >= 0, kk < A.T(x.shape[ax_]), s(full(kk)) != NAN)))
            A.oblige("nanargmax.not_all_nan", z3.ForAll(rest, goal) if rest else goal, "np.nanargmax raises ValueError('All-NaN slice encountered') otherwise")
        return _unbox(A.reduce_axis(x, axis, "nanargmax" if nan_aware else "argmax", np.dtype("int64"), _argmax_axioms(nan_aware)))
    return m


def argmax_instance(entry, rest, k):
    """the instance at position k of the (arg)max specification axiom of a logged reduction (reduce_log entry of np.argmax / np.nanargmax):
    a consequence of a hypothesis already in the context, offered as a proof hint where the solver has no term to trigger on"""
    from .core import NAN
    ax_ = entry["axis"]
    rest = tuple(rest)
    along = lambda kv: entry["input"](tuple(rest[:ax_]) + (kv,) + tuple(rest[ax_:]))     # noqa
    r = entry["out"](*rest) if rest else entry["out"]()
    n = A.T(entry["in_shape"][ax_])
    ok = (lambda t: t != NAN) if entry["name"] == "nanargmax" else (lambda t: z3.BoolVal(True))
    k = term(k)
    return z3.Implies(z3.And(k >= 0, k < n, ok(along(k))), z3.And(along(k) <= along(r), z3.Implies(k < r, along(k) < along(r))))


model(np.argmax)(_argmax_model(False))
model(np.nanargmax)(_argmax_model(True))


@model(np.max, np.amax)
def _npmax(I, a, k):
    if not _anysym(a, k):
        return NotImplemented
    x = A.as_sarr(a[0])
    axis = k.get("axis", a[1] if len(a) > 1 else None)

    nrest = max(x.ndim - 1, 0) if axis is not None or x.ndim == 1 else 0
    wf = z3.Function(fresh_name("max_witness"), *([z3.IntSort()] * nrest), z3.IntSort()) if nrest else z3.Int(fresh_name("max_witness"))

    def ax(along, n, r, idx):
        kq = z3.Int(fresh_name("k"))
        w = wf(*idx) if nrest else wf          # the position where the maximum is attained (a function of the remaining indices)
        return [z3.ForAll([kq], z3.Implies(z3.And(kq >= 0, kq < n), along(kq) <= r)), w >= 0, w < n, along(w) == r]
    return _unbox(A.reduce_axis(x, axis, "max", x.dtype, ax))


@model(np.min, np.amin)
def _npmin(I, a, k):
    if not _anysym(a, k):
        return NotImplemented
    x = A.as_sarr(a[0])
    axis = k.get("axis", a[1] if len(a) > 1 else None)
    nrest = max(x.ndim - 1, 0) if axis is not None or x.ndim == 1 else 0
    wf = z3.Function(fresh_name("min_witness"), *([z3.IntSort()] * nrest), z3.IntSort()) if nrest else z3.Int(fresh_name("min_witness"))

    def ax(along, n, r, idx):
        kq = z3.Int(fresh_name("k"))
        w = wf(*idx) if nrest else wf
        return [z3.ForAll([kq], z3.Implies(z3.And(kq >= 0, kq < n), along(kq) >= r)), w >= 0, w < n, along(w) == r]
    return _unbox(A.reduce_axis(x, axis, "min", x.dtype, ax))


@model(np.isnan)
def _isnan(I, a, k):
    if not _anysym(a, k):
        return NotImplemented
    from .core import NAN
    x = A.as_sarr(a[0])
    if x.dtype.kind != "f":
        return _unbox(A.ewise(lambda t: z3.BoolVal(False), bool, x))
    return _unbox(A.ewise(lambda t: t == NAN, bool, x))


@model(np.sign)
def _sign(I, a, k):
    if not _anysym(a, k):
        return NotImplemented
    x = a[0]
    if getattr(x, "_pyvc_series", False):
        from .pdmodel import SSeries
        return SSeries(_sign(I, [x.arr], {}))
    xx = A.as_sarr(x)
    one = (lambda v: z3.RealVal(v)) if xx.dtype.kind == "f" else (lambda v: z3.IntVal(v))
    return _unbox(A.ewise(lambda t: z3.If(t > 0, one(1), z3.If(t < 0, one(-1), one(0))), xx.dtype, xx))


# ----------------------------------------------------------------------------- FFT family (A-FFT: shapes exact, contents opaque)
import scipy.fft as _sfft


def _fft_model(kind):
    def m(I, a, k):
        if not _anysym(a, k):
            return NotImplemented
        x = A.as_sarr(a[0])
        n = k.get("n", a[1] if len(a) > 1 else None)
        axis = k.get("axis", a[2] if len(a) > 2 else -1)
        axis = int(axis) % x.ndim
        nin = A.T(x.shape[axis])
        if kind == "rfft":
            nin_eff = nin if n is None else term(n)
            nout = nin_eff / 2 + 1
            dt = np.dtype("complex64") if x.dtype == np.dtype("float32") else np.dtype("complex128")
        elif kind == "irfft":
            nout = 2 * (nin - 1) if n is None else term(n)       # numpy / scipy default: n = 2*(m-1)
            dt = np.dtype("float32") if x.dtype == np.dtype("complex64") else np.dtype("float64")
        else:
            nout = nin if n is None else term(n)
            dt = np.dtype("complex64") if x.dtype in (np.dtype("float32"), np.dtype("complex64")) else np.dtype("complex128")
        shape = list(x.shape)
        shape[axis] = A.dim(nout)
        out = A.fresh_array(kind, dt, tuple(shape)) if dt.kind != "c" else _fresh_complex(kind, dt, tuple(shape))
        c = A.cur()
        if c is not None:
            if not hasattr(c, "fft_log"):
                c.fft_log = []
            c.fft_log.append({"kind": kind, "in_shape": x.shape, "in": x.snapshot(), "axis": axis, "n": n, "out": out})
        return out
    return m


def _fresh_complex(name, dt, shape):
    CS = A.sort_of(dt)
    f = z3.Function(fresh_name(name), *([z3.IntSort()] * len(shape)), CS) if shape else z3.Const(fresh_name(name), CS)
    arr = SArr(dt, shape, (lambda idx: f(*idx)) if shape else (lambda idx: f))
    arr.uf = f
    return arr


for _mod in (np.fft, _sfft):
    model(_mod.rfft)(_fft_model("rfft"))
    model(_mod.irfft)(_fft_model("irfft"))
    model(_mod.fft)(_fft_model("fft"))
    model(_mod.ifft)(_fft_model("ifft"))


@model(np.real)
def _real(I, a, k):
    if not _anysym(a, k):
        return NotImplemented
    x = A.as_sarr(a[0])
    if x.dtype.kind != "c":
        return x
    CS = A.sort_of(x.dtype)
    re = z3.Function("c_real!uf", CS, z3.RealSort())
    dt = np.dtype("float32") if x.dtype == np.dtype("complex64") else np.dtype("float64")
    return _unbox(A.ewise(lambda t: re(t), dt, x))


@model(np.conj, np.conjugate)
def _conj(I, a, k):
    """conjugation: identity on reals, an involutive uninterpreted function on the complex sort"""
    if not _anysym(a, k):
        return NotImplemented
    x = A.as_sarr(a[0])
    if x.dtype.kind != "c":
        return x
    CS = A.sort_of(x.dtype)
    cj = z3.Function("c_conj!uf", CS, CS)
    z = z3.Const(fresh_name("z"), CS)
    A.note_fact(z3.ForAll([z], cj(cj(z)) == z, patterns=[cj(cj(z))]))
    return _unbox(A.ewise(lambda t: cj(t), x.dtype, x))


@model(np.searchsorted)
def _searchsorted(I, a, k):
    """A-NP-SPEC (side='left'): index r with sorted[r-1] < v <= sorted[r]"""
    if not _anysym(a, k):
        return NotImplemented
    if k.get("side", "left") != "left":
        raise Unsupported("searchsorted side != left")
    srt, v = a[0], a[1]
    if isinstance(v, (list, tuple)) and len(v) <= 8:
        # a short list of values: one specification instance per value, returned as an array
        rs = [_searchsorted(I, [srt, x], k) for x in v]
        return A.stack_list(rs)
    if isinstance(v, (SArr, list, np.ndarray)):
        raise Unsupported("searchsorted with an array of values and symbolic operands")
    sa = A.as_sarr(srt)
    n = A.T(sa.shape[0])
    r = z3.Int(fresh_name("ss"))
    s = sa.snapshot()
    vt = term(v)
    A.note_fact(r >= 0, r <= n, z3.Implies(r > 0, s((r - 1,)) < vt), z3.Implies(r < n, vt <= s((r,))))
    return wrap(r)


@model(np.median)
def _median(I, a, k):
    """A-NP-SPEC: the median is opaque (an order statistic); logged as a reduction"""
    if not _anysym(a, k):
        return NotImplemented
    x = A.as_sarr(a[0])
    axis = k.get("axis", a[1] if len(a) > 1 else None)
    dt = x.dtype if x.dtype.kind == "f" else np.dtype("float64")
    return _unbox(A.reduce_axis(x, axis, "median", dt, None))


@model(np.unique)
def _unique(I, a, k):
    if not _anysym(a, k):
        return NotImplemented
    x = A.as_sarr(a[0])
    if x.ndim != 1 or k.get("axis") is not None or k.get("return_index"):
        raise Unsupported("np.unique of a symbolic n-d array / with return_index")
    # A-NP-SPEC unique (1-D): the sorted distinct values u (m of them), the inverse map inv with u[inv[i]] == x[i], and the multiplicities
    xs = x.snapshot()
    n = A.T(x.shape[0])
    m = z3.Int(fresh_name("nuniq"))
    srt = A.sort_of(x.dtype)
    u = z3.Function(fresh_name("uniq"), z3.IntSort(), srt)
    inv = z3.Function(fresh_name("uinv"), z3.IntSort(), z3.IntSort())
    rep = z3.Function(fresh_name("urep"), z3.IntSort(), z3.IntSort())        # a position of x holding the k-th distinct value
    cnt = z3.Function(fresh_name("ucnt"), z3.IntSort(), z3.IntSort())
    i, j, q = (z3.Int(fresh_name(v)) for v in "ijq")
    A.note_fact(m >= 0, m <= n, z3.Implies(n >= 1, m >= 1),
                z3.ForAll([i], z3.Implies(z3.And(i >= 0, i < n), z3.And(inv(i) >= 0, inv(i) < m, u(inv(i)) == xs((i,)))), patterns=[inv(i)]),
                z3.ForAll([j, q], z3.Implies(z3.And(j >= 0, j < q, q < m), u(j) < u(q)), patterns=[z3.MultiPattern(u(j), u(q))]),
                z3.ForAll([j], z3.Implies(z3.And(j >= 0, j < m), z3.And(rep(j) >= 0, rep(j) < n, inv(rep(j)) == j, cnt(j) >= 1, cnt(j) <= n)), patterns=[rep(j)]))
    uarr = SArr(x.dtype, (A.dim(m),), lambda idx: u(idx[0]))
    c = A.cur()
    if c is not None:
        if not hasattr(c, "unique_log"):
            c.unique_log = []
        c.unique_log.append({"input": xs, "n": n, "m": m, "values": u, "inverse": inv, "counts": cnt})
    out = [uarr]
    if k.get("return_inverse"):
        out.append(SArr(np.dtype("int64"), (x.shape[0],), lambda idx: inv(idx[0])))
    if k.get("return_counts"):
        out.append(SArr(np.dtype("int64"), (A.dim(m),), lambda idx: cnt(idx[0])))
    return out[0] if len(out) == 1 else tuple(out)


@model(np.hanning)
def _hanning(I, a, k):
    if not _anysym(a, k):
        return NotImplemented
    n = term(a[0])
    f = z3.Function(fresh_name("hanning"), z3.IntSort(), z3.RealSort())
    arr = SArr(np.float64, (A.dim(n),), lambda idx: f(idx[0]))
    arr.facts_on_read = lambda idx, t: [t >= 0, t <= 1]
    return arr


# ----------------------------------------------------------------------------- helpers used by fourier.fshift
@model(np.iscomplexobj)
def _iscomplexobj(I, a, k):
    x = a[0]
    if isinstance(x, SArr):
        return x.dtype.kind == "c"
    if isinstance(x, SV):
        return False
    return NotImplemented


@model(np.isrealobj)
def _isrealobj(I, a, k):
    x = a[0]
    if isinstance(x, SArr):
        return x.dtype.kind != "c"
    if isinstance(x, SV):
        return True
    return NotImplemented


@model(np.isscalar)
def _isscalar(I, a, k):
    x = a[0]
    if isinstance(x, SV):
        return True
    if isinstance(x, SArr):
        return False
    return NotImplemented


@model(np.put)
def _put(I, a, k):
    """np.put(arr, ind, v) with scalar flat index and value (mode='raise')"""
    arr, ind, v = a[0], a[1], a[2]
    if not isinstance(arr, SArr):
        return NotImplemented
    if isinstance(ind, (list, tuple, np.ndarray, SArr)):
        raise Unsupported("np.put with an index array")
    total = z3.IntVal(1)
    for d in arr.shape:
        total = total * A.T(d)
    it = term(ind)
    A.oblige("put.in_bounds", z3.And(it >= -total, it < total), "np.put flat index out of range")
    flat_i = z3.If(it < 0, it + total, it)
    dims = [A.T(d) for d in arr.shape]
    vt = A.cast_term(A.as_sarr(v).dtype, arr.dtype, A.as_sarr(v).read(()))

    def cover(idx):
        f = z3.IntVal(0)
        for i, d in zip(idx, dims):
            f = f * d + i
        return z3.simplify(f) == flat_i
    arr._write(cover, lambda idx: vt)
    return None


def _complex_opaque(name):
    def m(I, a, k):
        if not _anysym(a, k):
            return NotImplemented
        x = A.as_sarr(a[0])
        if x.dtype.kind == "c":
            CS = A.sort_of(x.dtype)
            f = z3.Function(name + "_c!uf", CS, CS if name == "exp" else z3.RealSort())
            dt = x.dtype if name == "exp" else (np.dtype("float32") if x.dtype == np.dtype("complex64") else np.dtype("float64"))
            return _unbox(A.ewise(lambda t: f(t), dt, x))
        if name == "angle":
            f = z3.Function("angle_r!uf", z3.RealSort(), z3.RealSort())
            dt = x.dtype if x.dtype.kind == "f" else np.dtype("float64")
            return _unbox(A.ewise(lambda t: f(to_real(A.cast_term(x.dtype, dt, t))), dt, x))
        return _opaque_unary(name)(I, a, k)
    return m


model(np.exp)(_complex_opaque("exp"))
model(np.angle)(_complex_opaque("angle"))
model(np.invert)(lambda I, a, k: (not a[0]) if isinstance(a[0], (bool, np.bool_)) else (ops.unop("Invert", a[0]) if _anysym(a) else NotImplemented))


@model(np.convolve)
def _npconvolve(I, a, k):
    """A-NP-SPEC shape of np.convolve: full -> M+N-1, same -> max(M,N), valid -> max(M,N)-min(M,N)+1; contents opaque"""
    if not _anysym(a, k):
        return NotImplemented
    x, y = A.as_sarr(a[0]), A.as_sarr(a[1])
    mode = k.get("mode", a[2] if len(a) > 2 else "full")
    m, n = A.T(x.shape[0]), A.T(y.shape[0])
    mx, mn = z3.If(m >= n, m, n), z3.If(m >= n, n, m)
    ln = {"full": m + n - 1, "same": mx, "valid": mx - mn + 1}[mode]
    A.oblige("convolve.non_empty", z3.And(m >= 1, n >= 1), "np.convolve raises on empty operands")
    return A.fresh_array("npconv", "float64", (A.dim(ln),))


@model(np.pad)
def _pad(I, a, k):
    if not _anysym(a, k):
        return NotImplemented
    x = A.as_sarr(a[0])
    w = a[1]
    mode = k.get("mode", a[2] if len(a) > 2 else "constant")
    if x.ndim != 1 or isinstance(w, (tuple, list)) or mode != "edge":
        raise Unsupported("np.pad other than 1-D, scalar width, mode='edge'")
    wt, n = term(w), A.T(x.shape[0])
    A.oblige("pad.width_nonneg", wt >= 0, "np.pad raises on negative widths")
    s = x.snapshot()
    return SArr(x.dtype, (A.dim(n + 2 * wt),), lambda idx: s((z3.If(idx[0] < wt, z3.IntVal(0), z3.If(idx[0] >= wt + n, n - 1, idx[0] - wt)),)))


def _window_model(name):
    def m(I, a, k):
        if not _anysym(a, k):
            return NotImplemented
        n = term(a[0])
        f = z3.Function(fresh_name(name), z3.IntSort(), z3.RealSort())
        return SArr(np.float64, (A.dim(n),), lambda idx: f(idx[0]))
    return m


for _w in ("blackman", "hamming", "bartlett"):
    model(getattr(np, _w))(_window_model(_w))


def _matrow(M, ys, idx):
    r, j = idx
    out = None
    for rr in range(M.shape[0] - 1, -1, -1):
        row = z3.Sum([term(float(M[rr, kk])) * to_real(ys((z3.IntVal(kk), j))) for kk in range(M.shape[1])])
        out = row if out is None else z3.If(A.T(r) == rr, row, out)
    return out


@model(np.matmul)
def _matmul(I, a, k):
    """opaque product with exact shape for (m,) @ (m, n) and (p, m) @ (m, n); operands are logged"""
    if not _anysym(a, k):
        return NotImplemented
    if isinstance(a[0], np.ndarray) and a[0].ndim == 2 and a[0].dtype.kind in "fiu" and a[0].shape[1] <= 16:
        # a small concrete matrix times a symbolic one: exact linear combinations
        M = a[0]
        y = A.as_sarr(a[1])
        if y.ndim == 2 and A.conc(y.shape[0]) == M.shape[1]:
            ys = y.snapshot()
            return SArr(np.result_type(M.dtype, y.dtype), (M.shape[0], y.shape[1]),
                        lambda idx: (lambda r, j: z3.Sum([term(float(M[rr, kk])) * to_real(ys((z3.IntVal(kk), j))) for rr in [r] for kk in range(M.shape[1])]))(A.conc(idx[0]), idx[1])
                        if A.conc(idx[0]) is not None else _matrow(M, ys, idx))
    if isinstance(a[0], np.ndarray) and a[0].ndim == 1 and a[0].dtype.kind in "fiu" and a[0].shape[0] <= 16:
        # a short concrete vector times a symbolic matrix with as many rows: exact linear combination of its rows
        vec = a[0]
        y = A.as_sarr(a[1])
        if y.ndim == 2 and A.conc(y.shape[0]) == vec.shape[0]:
            dt = np.result_type(vec.dtype, y.dtype if y.dtype.kind != "b" else np.dtype("int64"))
            ys = A.cast_fn(y.dtype, dt, y.snapshot())
            cf = (lambda v: z3.IntVal(int(v))) if dt.kind in "iu" else (lambda v: term(float(v)))
            return SArr(dt, (y.shape[1],), lambda idx: z3.Sum([cf(vec[kk]) * ys((z3.IntVal(kk), idx[0])) for kk in range(vec.shape[0])]))
    x, y = A.as_sarr(a[0]), A.as_sarr(a[1])
    if x.ndim == 1 and y.ndim == 2:
        A.oblige("matmul.inner", A.T(x.shape[0]) == A.T(y.shape[0]), "matmul inner dimensions")
        out = A.fresh_array("matmul", "float64", (y.shape[1],))
    elif x.ndim == 2 and y.ndim == 2:
        A.oblige("matmul.inner", A.T(x.shape[1]) == A.T(y.shape[0]), "matmul inner dimensions")
        out = A.fresh_array("matmul", "float64", (x.shape[0], y.shape[1]))
    else:
        raise Unsupported("matmul shapes")
    c = A.cur()
    if c is not None:
        if not hasattr(c, "matmul_log"):
            c.matmul_log = []
        c.matmul_log.append({"a": x.snapshot(), "a_shape": x.shape, "b": y.snapshot(), "b_shape": y.shape, "out": out.snapshot()})
    return out


def _is_whole(t, depth=0):
    """the real-sorted term t denotes a whole number whatever its free variables are (sufficient syntactic test)"""
    if depth > 40:
        return False
    if z3.is_rational_value(t):
        return t.denominator_as_long() == 1
    if z3.is_int_value(t):
        return True
    if not z3.is_app(t):
        return False
    kd = t.decl().kind()
    if kd == z3.Z3_OP_TO_REAL:
        return True
    if t.sort() == z3.IntSort():
        return True
    if kd in (z3.Z3_OP_ADD, z3.Z3_OP_SUB, z3.Z3_OP_MUL, z3.Z3_OP_UMINUS):
        return all(_is_whole(c, depth + 1) for c in t.children())
    if kd == z3.Z3_OP_ITE:
        return _is_whole(t.arg(1), depth + 1) and _is_whole(t.arg(2), depth + 1)
    return False


def _whole_as_int(t):
    """the integer term equal to a real term accepted by _is_whole"""
    if z3.is_rational_value(t):
        return z3.IntVal(t.numerator_as_long())
    if t.sort() == z3.IntSort():
        return t
    kd = t.decl().kind()
    if kd == z3.Z3_OP_TO_REAL:
        return t.arg(0)
    ch = [_whole_as_int(c) for c in t.children()] if kd != z3.Z3_OP_ITE else None
    if kd == z3.Z3_OP_ADD:
        return z3.Sum(ch)
    if kd == z3.Z3_OP_SUB:
        return ch[0] - z3.Sum(ch[1:]) if len(ch) > 1 else ch[0]
    if kd == z3.Z3_OP_MUL:
        return z3.Product(ch)
    if kd == z3.Z3_OP_UMINUS:
        return -ch[0]
    if kd == z3.Z3_OP_ITE:
        return z3.If(t.arg(0), _whole_as_int(t.arg(1)), _whole_as_int(t.arg(2)))
    return z3.ToInt(t)


@model(np.cumsum)
def _cumsum(I, a, k):
    """A-NP-SPEC cumsum (1-D): out[0] = x[0], out[k] = out[k-1] + x[k]"""
    if not _anysym(a, k):
        return NotImplemented
    x = A.as_sarr(a[0])
    axis_ = k.get("axis", a[1] if len(a) > 1 else None)
    if x.ndim == 2 and axis_ in (1, -1):
        # running sum along the rows of a 2-d array: c[i,0] = x[i,0], c[i,t] = c[i,t-1] + x[i,t] (closed forms need induction: lemmas in the contract)
        dt2 = np.dtype("int64") if x.dtype.kind in "biu" else x.dtype
        s2 = x.snapshot()
        f2 = z3.Function(fresh_name("cumsum2"), z3.IntSort(), z3.IntSort(), A.sort_of(dt2))
        n0, n1 = A.T(x.shape[0]), A.T(x.shape[1])
        iq, kq2 = z3.Int(fresh_name("ci")), z3.Int(fresh_name("cs"))
        el2 = lambda i_, q: A.cast_term(x.dtype, dt2, s2((i_, q)))      # noqa
        A.note_fact(z3.ForAll([iq], z3.Implies(z3.And(iq >= 0, iq < n0, n1 >= 1), f2(iq, z3.IntVal(0)) == el2(iq, z3.IntVal(0))), patterns=[f2(iq, z3.IntVal(0))]),
                    z3.ForAll([iq, kq2], z3.Implies(z3.And(iq >= 0, iq < n0, kq2 >= 1, kq2 < n1), f2(iq, kq2) == f2(iq, kq2 - 1) + el2(iq, kq2)), patterns=[f2(iq, kq2)]))
        c_ = A.cur()
        if c_ is not None:
            if not hasattr(c_, "cumsum_log"):
                c_.cumsum_log = []
            c_.cumsum_log.append({"f": f2, "input": s2, "shape": x.shape})
        return SArr(dt2, x.shape, lambda idx: f2(idx[0], idx[1]))
    if x.ndim != 1:
        raise Unsupported("cumsum of a n-d array")
    dt = np.dtype("int64") if x.dtype.kind in "biu" else x.dtype
    s = x.snapshot()
    n = A.T(x.shape[0])
    kq = z3.Int(fresh_name("cs"))
    el = lambda q: A.cast_term(x.dtype, dt, s((q,)))      # noqa
    c_ = A.cur()
    if dt.kind == "f" and c_ is not None:
        # a float vector all of whose elements are whole numbers (e.g. np.ones with some entries replaced by integers): the running sums are whole
        # numbers, and exact in double precision below 2**53 (A-FLOAT: machine arithmetic treated as mathematical); they are then represented as the
        # image of an integer function, so that a later astype(int) is the identity without the solver having to find that out by induction
        q0 = z3.Int(fresh_name("q"))
        try:
            whole = _is_whole(z3.simplify(el(q0)))      # syntactic (z3 does not terminate on is_int goals over if-then-else terms)
        except Exception:
            whole = False
        if whole:
            fi = z3.Function(fresh_name("cumsum_whole"), z3.IntSort(), z3.IntSort())
            eli = lambda q: _whole_as_int(z3.simplify(el(q)))      # noqa
            A.note_fact(z3.Implies(n >= 1, fi(z3.IntVal(0)) == eli(z3.IntVal(0))),
                        z3.ForAll([kq], z3.Implies(z3.And(kq >= 1, kq < n), fi(kq) == fi(kq - 1) + eli(kq)), patterns=[fi(kq)]))
            return SArr(dt, (x.shape[0],), lambda idx: z3.ToReal(fi(idx[0])))
    f = z3.Function(fresh_name("cumsum"), z3.IntSort(), A.sort_of(dt))
    A.note_fact(z3.Implies(n >= 1, f(z3.IntVal(0)) == el(z3.IntVal(0))),
                z3.ForAll([kq], z3.Implies(z3.And(kq >= 1, kq < n), f(kq) == f(kq - 1) + el(kq)), patterns=[f(kq)]))
    return SArr(dt, (x.shape[0],), lambda idx: f(idx[0]))


@model(np.percentile)
def _percentile(I, a, k):
    """A-NP-SPEC percentile: an opaque order statistic per slice along `axis` (one value for the whole array when axis is None), lying between the
    slice's minimum and maximum is NOT stated; only which elements it is taken over is modelled (reduce_log)"""
    if not _anysym(a, k):
        return NotImplemented
    x = A.as_sarr(a[0])
    axis = k.get("axis", a[2] if len(a) > 2 else None)
    dt = np.dtype("float64") if x.dtype.kind in "biu" else x.dtype
    if axis is None and x.ndim > 1:
        flat = A.reshape(x, (-1,))
        return _unbox(A.reduce_axis(flat, 0, "percentile", dt, None))
    return _unbox(A.reduce_axis(x, axis if axis is not None else 0, "percentile", dt, None))


@model(np.moveaxis)
def _moveaxis(I, a, k):
    if not _anysym(a, k):
        return NotImplemented
    x = A.as_sarr(a[0])
    src = k.get("source", a[1] if len(a) > 1 else None)
    dst = k.get("destination", a[2] if len(a) > 2 else None)
    if not isinstance(src, (int, np.integer)) or not isinstance(dst, (int, np.integer)):
        raise Unsupported("moveaxis with several axes")
    nd = x.ndim
    src, dst = int(src) % nd, int(dst) % nd
    order = [q for q in range(nd) if q != src]
    order.insert(dst, src)
    return A.transpose(x, tuple(order))


@model(np.swapaxes)
def _swapaxes(I, a, k):
    if not _anysym(a, k):
        return NotImplemented
    x = A.as_sarr(a[0])
    nd = x.ndim
    p, q = int(a[1]) % nd, int(a[2]) % nd
    order = list(range(nd))
    order[p], order[q] = order[q], order[p]
    return A.transpose(x, tuple(order))


@model(np.clip)
def _clip(I, a, k):
    if not _anysym(a, k):
        return NotImplemented
    x = A.as_sarr(a[0])
    lo = k.get("a_min", a[1] if len(a) > 1 else None)
    hi = k.get("a_max", a[2] if len(a) > 2 else None)
    out = x
    if lo is not None:
        out = _npmaximum(I, [out, lo], {})
    if hi is not None:
        out = _npminimum(I, [out, hi], {})
    return out


@model(np.count_nonzero)
def _count_nonzero(I, a, k):
    """A-NP-SPEC count_nonzero: an opaque count in [0, n] per slice (integer); which elements are counted is logged"""
    if not _anysym(a, k):
        return NotImplemented
    x = A.as_sarr(a[0])
    axis = k.get("axis", a[1] if len(a) > 1 else None)
    nz = x if x.dtype.kind == "b" else ops.compare("NotEq", x, 0)

    def ax(along, n, r):
        return [r >= 0, r <= n]
    if axis is None and x.ndim > 1:
        return _unbox(A.reduce_axis(A.reshape(nz, (-1,)), 0, "count_nonzero", np.dtype("int64"), ax))
    return _unbox(A.reduce_axis(nz, axis if axis is not None else 0, "count_nonzero", np.dtype("int64"), ax))


@model(np.linspace)
def _linspace(I, a, k):
    """np.linspace(start, stop, num) with a concrete num: element j = start + j * (stop - start) / (num - 1)  (endpoint=True; reals)"""
    if not _anysym(a, k):
        return NotImplemented
    num = k.get("num", a[2] if len(a) > 2 else 50)
    if not isinstance(num, (int, np.integer)) or k.get("endpoint", True) is not True or k.get("retstep"):
        raise Unsupported("linspace with a symbolic number of points / endpoint=False")
    st, sp = to_real(term(a[0])), to_real(term(a[1]))
    num = int(num)
    if num == 1:
        return SArr(np.dtype("float64"), (1,), lambda idx: st)
    return SArr(np.dtype("float64"), (num,), lambda idx: st + to_real(A.T(idx[0])) * (sp - st) / (num - 1))


@model(np.sort)
def _npsort(I, a, k):
    """A-NP-SPEC sort (1-D): out = x o p for a bijection p of [0,n) with out non decreasing"""
    if not _anysym(a, k):
        return NotImplemented
    x = a[0].arr if getattr(a[0], "_pyvc_series", False) else A.as_sarr(a[0])
    if x.ndim != 1:
        raise Unsupported("np.sort of an n-d symbolic array")
    xs = x.snapshot()
    nt = A.T(x.shape[0])
    p = z3.Function(fresh_name("sortperm"), z3.IntSort(), z3.IntSort())
    pinv = z3.Function(fresh_name("sortinv"), z3.IntSort(), z3.IntSort())
    i, j, i2 = z3.Int(fresh_name("i")), z3.Int(fresh_name("j")), z3.Int(fresh_name("i"))
    A.note_fact(z3.ForAll([i], z3.Implies(z3.And(i >= 0, i < nt), z3.And(p(i) >= 0, p(i) < nt, pinv(p(i)) == i)), patterns=[p(i)]),
                z3.ForAll([j], z3.Implies(z3.And(j >= 0, j < nt), z3.And(pinv(j) >= 0, pinv(j) < nt, p(pinv(j)) == j)), patterns=[pinv(j)]),
                z3.ForAll([i, i2], z3.Implies(z3.And(i >= 0, i < i2, i2 < nt), xs((p(i),)) <= xs((p(i2),))), patterns=[z3.MultiPattern(p(i), p(i2))]))
    out = SArr(x.dtype, x.shape, lambda idx: xs((p(idx[0]),)))
    out.sort_of = {"perm": p, "inv": pinv, "n": nt, "input": xs}
    c = A.cur()
    if c is not None:
        if not hasattr(c, "sort_log"):
            c.sort_log = []
        c.sort_log.append({"perm": p, "inv": pinv, "n": nt, "key": lambda r, q: xs((q,)), "nk": 1, "kind": "sort"})
    return out


@model(np.argsort)
def _argsort(I, a, k):
    """A-NP-SPEC argsort (1-D): the permutation sorting x; with kind='stable' ties keep their original order (== lexsort with one key)"""
    if not _anysym(a, k):
        return NotImplemented
    x = a[0].arr if getattr(a[0], "_pyvc_series", False) else A.as_sarr(a[0])
    if x.ndim != 1 or k.get("axis", -1) not in (-1, 0):
        raise Unsupported("np.argsort of an n-d symbolic array")
    kind = k.get("kind", a[2] if len(a) > 2 else None)
    if kind in ("stable", "mergesort"):
        return _lexsort(I, [[x]], {})
    xs = x.snapshot()
    nt = A.T(x.shape[0])
    p = z3.Function(fresh_name("argsort"), z3.IntSort(), z3.IntSort())
    pinv = z3.Function(fresh_name("argsortinv"), z3.IntSort(), z3.IntSort())
    i, j, i2 = z3.Int(fresh_name("i")), z3.Int(fresh_name("j")), z3.Int(fresh_name("i"))
    A.note_fact(z3.ForAll([i], z3.Implies(z3.And(i >= 0, i < nt), z3.And(p(i) >= 0, p(i) < nt, pinv(p(i)) == i)), patterns=[p(i)]),
                z3.ForAll([j], z3.Implies(z3.And(j >= 0, j < nt), z3.And(pinv(j) >= 0, pinv(j) < nt, p(pinv(j)) == j)), patterns=[pinv(j)]),
                z3.ForAll([i, i2], z3.Implies(z3.And(i >= 0, i < i2, i2 < nt), xs((p(i),)) <= xs((p(i2),))), patterns=[z3.MultiPattern(p(i), p(i2))]))
    out = SArr(np.dtype("int64"), (A.dim(nt),), lambda idx: p(idx[0]))
    out.inverse = lambda q: pinv(q)
    return out


class SymGenerator:
    """A-NP-SPEC numpy.random.Generator: only choice(arr, k, replace=False) is specified: k entries of arr at pairwise distinct positions
    (which ones is unconstrained: the proof holds for every outcome of the draw); k > len(arr) raises ValueError as NumPy does"""
    _pyvc_ok = True

    def __init__(self):
        self.draws = []

    def choice(self, arr, size=None, replace=True, **kw):
        from .interp import PyRaise
        if replace is not False or size is None or kw:
            raise Unsupported("Generator.choice other than choice(arr, k, replace=False)")
        x = A.as_sarr(arr)
        if x.ndim != 1:
            raise Unsupported("Generator.choice on an n-d array")
        xs = x.snapshot()
        n = A.T(x.shape[0])
        kk = term(size)
        A.oblige("choice.sample_not_larger_than_population", kk <= n, "Cannot take a larger sample than population when replace is False")
        sel = z3.Function(fresh_name("draw"), z3.IntSort(), z3.IntSort())
        c, c2 = z3.Int(fresh_name("c")), z3.Int(fresh_name("c"))
        A.note_fact(z3.ForAll([c], z3.Implies(z3.And(c >= 0, c < kk), z3.And(sel(c) >= 0, sel(c) < n)), patterns=[sel(c)]),
                    z3.ForAll([c, c2], z3.Implies(z3.And(c >= 0, c < c2, c2 < kk), sel(c) != sel(c2)), patterns=[z3.MultiPattern(sel(c), sel(c2))]))
        out = SArr(x.dtype, (A.dim(kk),), lambda idx: xs((sel(idx[0]),)))
        self.draws.append({"population": xs, "n": n, "k": kk, "sel": sel, "out": out})
        return out


def default_rng_summary(it, a, k):
    """contract installed by a harness for np.random.default_rng: every draw is an unconstrained choice (SymGenerator)"""
    g = SymGenerator()
    c = A.cur()
    if c is not None:
        if not hasattr(c, "rng_log"):
            c.rng_log = []
        c.rng_log.append(g)
    return g


@model(np.diag)
def _npdiag(I, a, k):
    """np.diag of a 1-D array: the square matrix with it on the diagonal, zeros elsewhere (k=0)"""
    if not _anysym(a, k):
        return NotImplemented
    x = A.as_sarr(a[0])
    if x.ndim != 1 or k.get("k", a[1] if len(a) > 1 else 0) != 0:
        raise Unsupported("np.diag other than of a 1-D array with k=0")
    xs = x.snapshot()
    zero = z3.RealVal(0) if x.dtype.kind == "f" else z3.IntVal(0)
    return SArr(x.dtype, (x.shape[0], x.shape[0]), lambda idx: z3.If(A.T(idx[0]) == A.T(idx[1]), xs((idx[0],)), zero))


@model(np.isin)
def _isin(I, a, k):
    """A-NP-SPEC np.isin(x, values): element-wise membership"""
    if not _anysym(a, k):
        return NotImplemented
    if k.get("invert") or k.get("assume_unique"):
        raise Unsupported("np.isin with invert / assume_unique")
    from .pdmodel import membership
    return membership(a[0], a[1])


@model(np.nan_to_num)
def _nan_to_num(I, a, k):
    """np.nan_to_num(x, nan=v): NaN entries become v (default 0.0); integers are returned as they are (infinities are not modelled)"""
    if not _anysym(a, k):
        return NotImplemented
    from .core import NAN
    x = A.as_sarr(a[0])
    if x.dtype.kind != "f":
        return x.copy()
    rep = to_real(term(k.get("nan", 0.0)))
    xs = x.snapshot()
    return SArr(x.dtype, x.shape, lambda idx: (lambda v: z3.If(v == NAN, rep, v))(xs(idx)))


@model(np.copyto)
def _copyto(I, a, k):
    """np.copyto(dst, src): dst[...] = src (broadcast, cast to dst's dtype); `where` / casting options are not modelled"""
    if not _anysym(a, k):
        return NotImplemented
    if k.get("where", True) is not True:
        raise Unsupported("np.copyto with a where mask")
    dst = a[0]
    if not isinstance(dst, SArr):
        raise Unsupported("np.copyto into a concrete array with symbolic source")
    A.setitem(dst, tuple([slice(None)] * dst.ndim) if dst.ndim else (), a[1])
    return None
