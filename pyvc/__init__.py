"""pyvc - contract-based deductive verification of the real ibl-neuropixel source.

The engine re-parses the functions under contract from /repo/src on every run (ast), executes
that AST symbolically (z3 terms for ints/reals/bools, index functions for NumPy arrays) and
turns sidecar contracts into proof obligations discharged by z3 (cvc5 on unknown).
See /verif/DESIGN.md section 2 for the semantics that are assumed.
"""
