"""ndarray.view(dtype) for integer arrays (A-ENDIAN: little-endian host, asserted natively at start-up)."""
import sys

import numpy as np
import z3

from .core import Unsupported
from . import arrays as A
from .arrays import SArr

assert sys.byteorder == "little", "A-ENDIAN violated: host is not little-endian"
assert np.array([0x0102], dtype=np.int16).view(np.uint8).tolist() == [2, 1]


def view(a, dtype):
    dtype = np.dtype(dtype)
    if dtype == a.dtype:
        return a
    if a.dtype.kind in "iu" and dtype.kind in "iu":
        ss, ds = a.dtype.itemsize, dtype.itemsize
        if ds == 1 and ss > 1 and a.ndim >= 1:
            s = a.snapshot()
            lo, hi = A.int_range(a.dtype)
            mod = 2 ** (8 * ss)
            shape = a.shape[:-1] + (A.dim(A.T(a.shape[-1]) * ss),)
            dlo, dhi = A.int_range(dtype)

            def elem(idx):
                j = idx[-1]
                word = s(tuple(idx[:-1]) + (A.idiv(j, ss),))
                u = word % mod                      # two's complement bit pattern
                b = A.imod(j, ss)
                if z3.is_int_value(b):
                    t = (u / (256 ** b.as_long())) % 256
                    if dlo < 0:
                        t = z3.If(t > dhi, t - 256, t)
                    return z3.simplify(t)
                t = (u / (256 ** (ss - 1))) % 256
                for bb in range(ss - 2, -1, -1):
                    t = z3.If(b == bb, (u / (256 ** bb)) % 256, t)
                if dlo < 0:
                    t = z3.If(t > dhi, t - 256, t)
                return z3.simplify(t)
            r = SArr(dtype, shape, elem)
            r.aliased = True
            return r
    raise Unsupported(f"view {a.dtype} -> {dtype}")
