"""NumPy arrays as index functions: (dtype, shape, elem: index tuple -> z3 term).

Semantics assumed (A-NP-INDEX in DESIGN.md): basic indexing yields views (reads are live, writes go
through to the base), advanced indexing yields copies, C-order reshape, NumPy broadcasting, CPython
slice adjustment.  Everything that would raise in NumPy (index out of bounds, shapes that do not
broadcast) becomes a *safety obligation* on the current path.
"""
import numpy as np
import z3

from .core import SV, Unsupported, term, wrap, is_z3, fresh_name, Min, Max, to_real

_CTX = [None]
# (fresh_name re-exported for ops)



def cur():
    return _CTX[0]


def set_ctx(c):
    _CTX[0] = c


_CAPTURE = []


def note_fact(*ts):
    if _CAPTURE:
        _CAPTURE[-1].extend(ts)
        return
    c = cur()
    if c is not None:
        for t in ts:
            c.add_fact(t)


class capture_facts:
    """facts noted while building the body of a quantified formula must go *inside* the quantifier"""

    def __enter__(self):
        self.facts = []
        _CAPTURE.append(self.facts)
        return self.facts

    def __exit__(self, *a):
        _CAPTURE.pop()


def forall(ks, body):
    """ForAll(ks, body()) where element facts (dtype ranges, window identities) noted while evaluating
    body() become antecedents inside the quantifier (they are instances of universally valid axioms)"""
    with capture_facts() as facts:
        b = body()
    if facts:
        b = z3.Implies(z3.And(*facts), b)
    return z3.ForAll(ks, b) if ks else b


def forall_hyp(ks, body):
    """quantified *hypothesis*: the element facts are asserted alongside (conjoined), not assumed"""
    with capture_facts() as facts:
        b = body()
    if facts:
        b = z3.And(*facts, b)
    return z3.ForAll(ks, b) if ks else b


def exists(ks, body):
    with capture_facts() as facts:
        b = body()
    if facts:
        b = z3.And(*facts, b)
    return z3.Exists(ks, b) if ks else b


def oblige(kind, goal, detail=""):
    c = cur()
    if c is None:
        raise Unsupported("array safety obligation outside a verification context")
    c.safety(kind, goal, detail)


# ----------------------------------------------------------------------------- sorts
F32 = np.dtype("float32")
F64 = np.dtype("float64")


def sort_of(dtype):
    dtype = np.dtype(dtype)
    if dtype.kind == "b":
        return z3.BoolSort()
    if dtype.kind in "iu":
        return z3.IntSort()
    if dtype.kind == "f":
        return z3.RealSort()
    if dtype.kind == "c":
        return z3.DeclareSort("Complex")
    if dtype.kind == "O":
        raise Unsupported("object arrays")
    raise Unsupported(f"dtype {dtype}")


def int_range(dtype):
    dtype = np.dtype(dtype)
    if dtype.kind in "iu":
        info = np.iinfo(dtype)
        return int(info.min), int(info.max)
    return None


def T(x):
    """dimension / index to z3 Int term"""
    if isinstance(x, SV):
        return x.t
    if is_z3(x):
        return x
    return z3.IntVal(int(x))


def simp(t):
    return z3.simplify(t) if is_z3(t) else t


def _linear(t):
    """Int term -> ({atom_id: (atom, coeff)}, const) or None"""
    t = z3.simplify(t)
    if z3.is_int_value(t):
        return {}, t.as_long()
    if z3.is_app_of(t, z3.Z3_OP_ADD):
        acc, c0 = {}, 0
        for ch in t.children():
            r = _linear(ch)
            if r is None:
                return None
            for k, (a, c) in r[0].items():
                acc[k] = (a, acc.get(k, (a, 0))[1] + c)
            c0 += r[1]
        return acc, c0
    if z3.is_app_of(t, z3.Z3_OP_MUL) and t.num_args() == 2 and z3.is_int_value(t.arg(0)):
        r = _linear(t.arg(1))
        if r is None:
            return None
        m = t.arg(0).as_long()
        return {k: (a, c * m) for k, (a, c) in r[0].items()}, r[1] * m
    if z3.is_app_of(t, z3.Z3_OP_UMINUS):
        r = _linear(t.arg(0))
        if r is None:
            return None
        return {k: (a, -c) for k, (a, c) in r[0].items()}, -r[1]
    if z3.is_int(t):
        return {t.get_id(): (t, 1)}, 0
    return None


def idiv(t, d):
    """floor division of an Int term by a positive literal, splitting off multiples of d"""
    t = T(t)
    if not isinstance(d, int):
        return simp(t / T(d))
    if d == 1:
        return simp(t)
    r = _linear(t)
    if r is not None:
        acc, c0 = r
        exact = [(a, c // d) for a, c in acc.values() if c % d == 0]
        rest = [(a, c) for a, c in acc.values() if c % d != 0]
        if not rest:
            out = z3.IntVal(c0 // d)
            for a, c in exact:
                out = out + a * c
            return simp(out)
        out = z3.IntVal(0)
        for a, c in exact:
            out = out + a * c
        rem = z3.IntVal(c0)
        for a, c in rest:
            rem = rem + a * c
        return simp(out + rem / d)
    return simp(t / d)


def imod(t, d):
    t = T(t)
    if not isinstance(d, int):
        return simp(t % T(d))
    if d == 1:
        return z3.IntVal(0)
    r = _linear(t)
    if r is not None:
        acc, c0 = r
        rest = [(a, c % d) for a, c in acc.values() if c % d != 0]
        if not rest:
            return z3.IntVal(c0 % d)
        rem = z3.IntVal(c0 % d)
        for a, c in rest:
            rem = rem + a * c
        return simp(rem % d)
    return simp(t % d)


def conc(t):
    """python int if the term is a literal else None"""
    if isinstance(t, (int, np.integer)):
        return int(t)
    if isinstance(t, SV):
        t = t.t
    t = z3.simplify(t)
    if z3.is_int_value(t):
        return t.as_long()
    return None


def dim(x):
    """normalise a dimension: python int when concrete, z3 Int term otherwise"""
    c = conc(x) if not isinstance(x, (int, np.integer)) else int(x)
    if c is not None:
        return c
    t = simp(T(x))
    cx = cur()
    if cx is not None:
        t = cx.prune(t)
        if z3.is_int_value(t):
            return t.as_long()
    return t


def same_dim(a, b):
    if isinstance(a, int) and isinstance(b, int):
        return a == b
    e = z3.simplify(T(a) == T(b))
    if z3.is_true(e):
        return True
    if z3.is_false(e):
        return False
    cx = cur()
    return cx is not None and cx.entails(e)


def is_one(d):
    if isinstance(d, int):
        return d == 1
    cx = cur()
    return cx is not None and cx.entails(T(d) == 1)


def not_one(d):
    if isinstance(d, int):
        return d != 1
    cx = cur()
    return cx is not None and cx.entails(T(d) != 1)


# ----------------------------------------------------------------------------- the array
class SArr:
    """Symbolic ndarray.  `elem(idx_tuple_of_Int_terms) -> term`.  Views carry `base`."""
    __array_priority__ = 1000

    def __init__(self, dtype, shape, elem=None, base=None, name=None):
        self.dtype = np.dtype(dtype)
        self.shape = tuple(dim(s) for s in shape)
        self._elem = elem
        self.base = base            # (parent SArr, fwd(idx)->pidx, inv(pidx)->(cond, idx))
        self.name = name
        self.aliased = False        # reshape()/ravel() results: write-through not modelled
        self.facts_on_read = None   # optional callable(idx, term) -> list of facts

    # -- basic protocol
    @property
    def ndim(self):
        return len(self.shape)

    @property
    def size(self):
        s = 1
        for d in self.shape:
            s = s * (d if isinstance(d, int) else SV(d))
        return wrap(T(s)) if not isinstance(s, int) else s

    def __len__(self):
        raise Unsupported("len() of symbolic array outside interpreter")

    def length(self):
        if self.ndim == 0:
            raise Unsupported("len() of 0-d array")
        d = self.shape[0]
        return d if isinstance(d, int) else SV(d)

    def __repr__(self):
        return f"SArr({self.dtype},{self.shape},{self.name or ''})"

    def read(self, idx):
        idx = tuple(T(i) for i in idx)
        assert len(idx) == self.ndim, (idx, self.shape)
        if self.base is not None:
            parent, fwd, _ = self.base
            return parent.read(fwd(idx))
        t = self._elem(idx)
        if self.facts_on_read is not None:
            note_fact(*self.facts_on_read(idx, t))
        return t

    def snapshot(self):
        """frozen element function (value semantics: later writes are not seen)"""
        if self.base is not None:
            parent, fwd, _ = self.base
            p = parent.snapshot()
            return lambda idx: p(fwd(idx))
        e = self._elem
        f = self.facts_on_read
        if f is None:
            return e

        def rd(idx):
            t = e(idx)
            note_fact(*f(idx, t))
            return t
        return rd

    def copy(self, dtype=None):
        s = self.snapshot()
        out = SArr(self.dtype, self.shape, s)
        if dtype is not None and np.dtype(dtype) != self.dtype:
            return astype(out, dtype)
        return out

    def _write(self, cover, src):
        """elements with cover(idx) become src(idx)"""
        if self.aliased:
            raise Unsupported("write into an array that may share memory through reshape/ravel")
        if self.base is not None:
            parent, fwd, inv = self.base
            if inv is None:
                raise Unsupported("write through a non invertible view")

            def pcover(pidx):
                c, i = inv(pidx)
                return z3.And(c, cover(i))

            def psrc(pidx):
                _, i = inv(pidx)
                return src(i)
            parent._write(pcover, psrc)
            return
        old = self.snapshot()
        self.facts_on_read = None
        self._elem = lambda idx: z3.If(cover(idx), src(idx), old(idx))

    def in_bounds(self, idx):
        return z3.And(*[z3.And(T(i) >= 0, T(i) < T(d)) for i, d in zip(idx, self.shape)]) if self.ndim else z3.BoolVal(True)

    # numpy-ish attributes used by repo code are provided by models (getattr hook in interp)


def shares_memory(x, y):
    """does a write into x reach y (or vice versa)?  same object, or one is a view (basic slicing / transpose) of the other's storage"""
    def root(a):
        seen = 0
        while isinstance(a, SArr) and a.base is not None and seen < 50:
            a = a.base[0]
            seen += 1
        return a
    return isinstance(x, SArr) and isinstance(y, SArr) and root(x) is root(y)


def fresh_array(name, dtype, shape, ranged=True):
    dtype = np.dtype(dtype)
    shape = tuple(dim(s) for s in shape)
    srt = sort_of(dtype)
    uname = fresh_name(name)
    if len(shape) == 0:
        c = z3.Const(uname, srt)
        arr = SArr(dtype, shape, lambda idx: c, name=name)
    else:
        f = z3.Function(uname, *([z3.IntSort()] * len(shape)), srt)
        arr = SArr(dtype, shape, lambda idx: f(*idx), name=name)
        arr.uf = f
    rng = int_range(dtype)
    if rng and ranged:
        lo, hi = rng
        arr.facts_on_read = lambda idx, t: [t >= lo, t <= hi]
        if shape:
            # also as a quantified axiom (pattern: the element term) so that it is available under quantifiers
            ks = [z3.Int(fresh_name("ax")) for _ in shape]
            note_fact(z3.ForAll(ks, z3.And(f(*ks) >= lo, f(*ks) <= hi), patterns=[f(*ks)]))
    return arr


def assume_range(arr, lo, hi):
    """element range of a harness-created symbolic array: per-read instances + a quantified axiom with the element as pattern.
    (constrains the uninterpreted function at every index, also outside the array: unobservable)"""
    lo_t, hi_t = T(lo), T(hi)
    arr.facts_on_read = lambda idx, t: [t >= lo_t, t <= hi_t]
    f = arr.uf
    ks = [z3.Int(fresh_name("ax")) for _ in arr.shape]
    note_fact(z3.ForAll(ks, z3.And(f(*ks) >= lo_t, f(*ks) <= hi_t), patterns=[f(*ks)]))


_LIFT_CACHE = {}


def from_numpy(a):
    """concrete ndarray -> SArr (small arrays only: z3 array literal over the flat index; identical contents share one term)"""
    a = np.asarray(a)
    if a.size > 4096:
        raise Unsupported("large concrete array lifted to symbolic")
    if a.dtype.kind == "c" or a.dtype.kind == "O":
        raise Unsupported(f"lifting {a.dtype} array")
    key = (a.dtype.str, a.shape, a.tobytes())
    hit = _LIFT_CACHE.get(key)
    if hit is not None:
        return SArr(a.dtype, a.shape, hit)
    vals = [term(v.item()) for v in a.ravel()]
    srt = sort_of(a.dtype)
    if a.dtype.kind == "f":
        vals = [to_real(v) for v in vals]
    shape = a.shape
    strides = []
    s = 1
    for d in reversed(shape):
        strides.append(s)
        s *= d
    strides = list(reversed(strides))
    K = z3.K(z3.IntSort(), vals[0] if vals else (z3.RealVal(0) if srt == z3.RealSort() else z3.IntVal(0) if srt == z3.IntSort() else z3.BoolVal(False)))
    arr = K
    for i, v in enumerate(vals):
        arr = z3.Store(arr, i, v)

    def elem(idx):
        flat = z3.IntVal(0)
        for i, st in zip(idx, strides):
            flat = flat + i * st
        return z3.Select(arr, z3.simplify(flat))
    _LIFT_CACHE[key] = elem
    return SArr(a.dtype, shape, elem)


def as_sarr(x, dtype=None):
    if isinstance(x, SArr):
        return x
    if getattr(x, "_pyvc_series", False):       # a pandas column (A-PANDAS): its values
        return x.arr
    if isinstance(x, SV) or is_z3(x):
        t = term(x)
        dt = np.dtype(bool) if z3.is_bool(t) else np.dtype("int64") if z3.is_int(t) else F64
        return SArr(dt, (), lambda idx: t)
    if isinstance(x, (list, tuple)):
        if any(isinstance(e, (SV, SArr)) for e in x):
            return stack_list(list(x))
        if len(x) == 0:
            return from_numpy(np.asarray(x, dtype=np.int64))     # numpy treats an empty list index as an integer index
        return from_numpy(np.asarray(x))
    if isinstance(x, (bool, int, float, np.generic)):
        a = np.asarray(x)
        t = term(a.item())
        if a.dtype.kind == "f":
            t = to_real(t)
        return SArr(a.dtype, (), lambda idx: t)
    if isinstance(x, np.ndarray):
        return from_numpy(x)
    raise Unsupported(f"cannot view {type(x).__name__} as array")


def stack_list(items):
    """np.array([scalars or equal-shape arrays]) with symbolic members, small concrete length"""
    arrs = [as_sarr(e) for e in items]
    dt = result_dtype(*[(a, False) for a in arrs]) if arrs else F64
    inner = arrs[0].shape if arrs else ()
    n = len(arrs)
    snaps = [cast_fn(a.dtype, dt, a.snapshot()) for a in arrs]

    def elem(idx):
        k, rest = idx[0], tuple(idx[1:])
        t = snaps[-1](rest)
        for j in range(n - 2, -1, -1):
            t = z3.If(k == j, snaps[j](rest), t)
        return t
    return SArr(dt, (n,) + tuple(inner), elem)


# ----------------------------------------------------------------------------- dtypes
def result_dtype(*ops):
    """NEP-50 promotion. ops: (value, is_python_scalar)"""
    args = []
    for v, weak in ops:
        if isinstance(v, SArr):
            args.append(v.dtype)
        elif isinstance(v, SV):
            args.append(bool if v.is_bool else int if v.is_int else float)
        elif isinstance(v, (bool, int, float, complex)):
            args.append(type(v))
        elif isinstance(v, np.generic):
            args.append(v.dtype)
        elif isinstance(v, np.ndarray):
            args.append(v.dtype)
        elif isinstance(v, np.dtype):
            args.append(v)
        else:
            raise Unsupported(f"dtype of {type(v).__name__}")
    if all(isinstance(a, type) for a in args):
        return np.result_type(*[np.dtype(a) if a is not int else np.dtype("int64") for a in args])
    return np.result_type(*args)


def cast_term(src, dst, t):
    """value conversion of one element (astype / implicit cast). Real arithmetic for floats."""
    src, dst = np.dtype(src), np.dtype(dst)
    if src == dst:
        return t
    if dst.kind == "b":
        if src.kind == "b":
            return t
        return t != 0
    if dst.kind in "iu":
        if src.kind == "b":
            return z3.If(t, z3.IntVal(1), z3.IntVal(0))
        if src.kind == "f":
            from .core import trunc_int
            t = trunc_int(t)     # C cast truncates toward zero (in-range values; A-FPSTD)
        lo, hi = int_range(dst)
        slo_shi = int_range(src) if src.kind in "iu" else None
        if slo_shi and slo_shi[0] >= lo and slo_shi[1] <= hi:
            return t
        m = hi - lo + 1
        # out-of-range float -> int is implementation defined; NumPy on x86-64 wraps (via a wider integer): modelled as wrap
        return z3.If(z3.And(t >= lo, t <= hi), t, ((t - lo) % m) + lo)   # two's complement wrap
    if dst.kind == "f":
        if src.kind == "b":
            return z3.If(t, z3.RealVal(1), z3.RealVal(0))
        return to_real(t)
    raise Unsupported(f"cast {src}->{dst}")


def cast_fn(src, dst, f):
    if np.dtype(src) == np.dtype(dst):
        return f
    return lambda idx: cast_term(src, dst, f(idx))


def astype(a, dtype):
    a = as_sarr(a)
    dtype = np.dtype(dtype)
    return SArr(dtype, a.shape, cast_fn(a.dtype, dtype, a.snapshot()))


# ----------------------------------------------------------------------------- slices / indexing
def adjust_slice(sl, n):
    """CPython PySlice_AdjustIndices: -> (start term, step int, length term)"""
    n = T(n)
    step = 1 if sl.step is None else conc(sl.step)
    if step is None:
        raise Unsupported("symbolic slice step")
    if step == 0:
        raise Unsupported("slice step 0")

    def clamp(v, lo_neg, hi):
        v = T(v)
        return z3.If(v < 0, Max(v + n, lo_neg), Min(v, hi))
    if sl.start is None and sl.stop is None:
        # full extent (dimensions are non negative)
        a = abs(step)
        ln = n if a == 1 else (n + (a - 1)) / a
        return (z3.IntVal(0) if step > 0 else simp(n - 1)), step, simp(ln)
    if step > 0:
        start = z3.IntVal(0) if sl.start is None else clamp(sl.start, 0, n)
        stop = n if sl.stop is None else clamp(sl.stop, 0, n)
        length = z3.If(stop > start, (stop - start + (step - 1)) / step, z3.IntVal(0))
    else:
        start = n - 1 if sl.start is None else clamp(sl.start, -1, n - 1)
        stop = z3.IntVal(-1) if sl.stop is None else clamp(sl.stop, -1, n - 1)
        length = z3.If(stop < start, (start - stop + (-step - 1)) / (-step), z3.IntVal(0))
    cx = cur()
    if cx is not None:
        return cx.prune(start), step, cx.prune(length)
    return simp(start), step, simp(length)


def _norm_index(index, ndim):
    if not isinstance(index, tuple):
        index = (index,)
    index = [i.arr if getattr(i, "_pyvc_series", False) else i for i in index]      # a pandas column used as an index: its values
    n_used = sum(1 for i in index if i is not None and i is not Ellipsis and not _is_boolmask_nd(i))
    n_used += sum(i.ndim for i in index if _is_boolmask_nd(i))
    if any(i is Ellipsis for i in index):
        k = [j for j, i in enumerate(index) if i is Ellipsis]
        if len(k) > 1:
            raise IndexError("an index can only have a single ellipsis")
        k = k[0]
        index[k:k + 1] = [slice(None)] * (ndim - n_used)
    else:
        index += [slice(None)] * (ndim - n_used)
    if sum(1 for i in index if i is not None) - sum(0 for _ in ()) > ndim and not any(_is_boolmask_nd(i) for i in index):
        raise IndexError("too many indices for array")
    return index


def _is_boolmask_nd(i):
    return isinstance(i, SArr) and i.dtype.kind == "b" and i.ndim > 1 or (isinstance(i, np.ndarray) and i.dtype.kind == "b" and i.ndim > 1)


def _is_adv(i):
    return isinstance(i, (SArr, list, np.ndarray)) and not (isinstance(i, (SArr, np.ndarray)) and i.ndim == 0 and False)


def _is_scalar_index(i):
    if isinstance(i, (bool, np.bool_)):
        return False
    if isinstance(i, (int, np.integer)):
        return True
    if isinstance(i, SV) and i.is_int:
        return True
    if isinstance(i, SArr) and i.ndim == 0 and i.dtype.kind in "iu":
        return True
    return False


def _scalar_index_term(i):
    if isinstance(i, SArr):
        return i.read(())
    return T(i)


def getitem(a, index):
    a = as_sarr(a)
    if getattr(index, "_pyvc_series", False):
        index = index.arr
    # full-shape boolean mask -> 1-d result
    if isinstance(index, (SArr, np.ndarray)) and getattr(index, "dtype", None) is not None and index.dtype.kind == "b" and index.ndim == a.ndim and a.ndim > 1:
        if a.ndim != 2:
            raise Unsupported("n-d boolean mask read (more than 2 dimensions)")
        # a[mask] for a 2-d mask: the selected elements in row-major order (np.where(mask) specification, shared with a later a[mask] = ...)
        oblige("mask.shape", z3.And(*[T(p) == T(q) for p, q in zip(as_sarr(index).shape, a.shape)]), "boolean index did not match the indexed array")
        info = _where2d_of(index)
        src = a.snapshot()
        out = SArr(a.dtype, (dim(info["count"]),), lambda idx: src((info["rows"](idx[0]), info["cols"](idx[0]))))
        return out
    index = _norm_index(index, a.ndim)
    adv = [k for k, i in enumerate(index) if _is_adv(i) and not _is_scalar_index(i)]
    if not adv:
        return _basic_view(a, index)
    return _advanced_get(a, index, adv)


def _basic_view(a, index):
    """ints / slices / None only -> view"""
    plan = []   # per result dim: ('new',) or ('slice', axis, start, step, length)
    fixed = {}  # axis -> index term
    axis = 0
    for i in index:
        if i is None:
            plan.append(("new",))
            continue
        if axis >= a.ndim:
            raise IndexError("too many indices for array")
        n = a.shape[axis]
        if _is_scalar_index(i):
            it = _scalar_index_term(i)
            it = simp(z3.If(it < 0, it + T(n), it))
            oblige("index.in_bounds", z3.And(it >= 0, it < T(n)), f"integer index on axis {axis}")
            fixed[axis] = it
        elif isinstance(i, slice):
            st, step, ln = adjust_slice(i, n)
            plan.append(("slice", axis, st, step, ln))
        else:
            raise Unsupported(f"index of type {type(i).__name__}")
        axis += 1
    shape = tuple(1 if p[0] == "new" else dim(p[4]) for p in plan)
    nd = a.ndim

    def fwd(idx):
        out = [None] * nd
        for ax, t in fixed.items():
            out[ax] = t
        for p, i in zip(plan, idx):
            if p[0] == "slice":
                _, ax, st, step, _ = p
                out[ax] = simp(st + i * step)
        return tuple(out)

    def inv(pidx):
        conds = []
        out = []
        for ax, t in fixed.items():
            conds.append(pidx[ax] == t)
        for p in plan:
            if p[0] == "new":
                out.append(z3.IntVal(0))
                continue
            _, ax, st, step, ln = p
            d = pidx[ax] - st
            if step == 1:
                q = d
            elif step == -1:
                q = -d
            else:
                q = d / step if step > 0 else (-d) / (-step)
                conds.append(d % abs(step) == 0)
            conds.append(z3.And(q >= 0, q < T(ln)))
            out.append(simp(q))
        return (z3.And(*conds) if conds else z3.BoolVal(True)), tuple(out)
    return SArr(a.dtype, shape, None, base=(a, fwd, inv))


def _int_index_array(i, n, what="index array"):
    """normalise an advanced integer index (SArr/list/ndarray) against dim n -> SArr of non negative ints"""
    if isinstance(i, np.ndarray) and i.dtype.kind == "b" and i.ndim == 1:
        cn = conc(n)
        if cn is not None and cn != i.shape[0]:
            raise IndexError(f"boolean index did not match indexed array along axis; size of axis is {cn} but size of corresponding boolean axis is {i.shape[0]}")
        i = np.flatnonzero(i)           # concrete mask: its index set is concrete
    ia = as_sarr(i)
    if ia.dtype.kind == "b":
        if ia.ndim != 1:
            raise Unsupported("boolean mask index with ndim != 1 on one axis")
        oblige("index.mask_len", T(ia.shape[0]) == T(n), "boolean mask length must match the axis")
        w = where1d(ia)
        return w
    if ia.dtype.kind not in "iu":
        raise IndexError("arrays used as indices must be of integer (or boolean) type")
    snap = ia.snapshot()
    nt = T(n)
    ks = [z3.Int(fresh_name("k")) for _ in ia.shape]
    rng = z3.And(*[z3.And(k >= 0, k < T(d)) for k, d in zip(ks, ia.shape)]) if ks else z3.BoolVal(True)
    oblige("index.in_bounds", forall(ks, lambda: z3.Implies(rng, (lambda v: z3.And(v >= -nt, v < nt))(snap(tuple(ks))))), what)
    out = SArr(np.dtype("int64"), ia.shape, lambda idx: (lambda v: z3.If(v < 0, v + nt, v))(snap(idx)))
    inv = getattr(ia, "inverse", None)
    if inv is not None:
        # a permutation produced by a sort specification: its values are in [0, n) (no negative index to normalise) and its inverse is known
        out.inverse = inv
    return out


def _advanced_get(a, index, adv):
    """basic indices + advanced integer arrays (broadcast together) -> copy"""
    # resolve advanced arrays
    axis = 0
    items = []   # per index entry: ('new',) ('int',ax,t) ('slice',ax,st,step,ln) ('adv',ax,arr)
    for k, i in enumerate(index):
        if i is None:
            items.append(("new",))
            continue
        n = a.shape[axis]
        if k in adv:
            items.append(("adv", axis, _int_index_array(i, n)))
        elif _is_scalar_index(i):
            it = _scalar_index_term(i)
            it = simp(z3.If(it < 0, it + T(n), it))
            oblige("index.in_bounds", z3.And(it >= 0, it < T(n)), f"integer index on axis {axis}")
            items.append(("int", axis, it))
        elif isinstance(i, slice):
            st, step, ln = adjust_slice(i, n)
            items.append(("slice", axis, st, step, ln))
        else:
            raise Unsupported(f"index of type {type(i).__name__}")
        axis += 1
    advs = [it for it in items if it[0] == "adv"]
    # broadcast shape of the advanced indices
    bshape = ()
    for it in advs:
        bshape = broadcast_shapes(bshape, it[2].shape)
    # numpy: ints next to advanced indices take part in the broadcast (as 0-d)
    pos = [k for k, it in enumerate(items) if it[0] in ("adv", "int")]
    adjacent = all(b - a_ == 1 for a_, b in zip(pos, pos[1:])) if any(items[k][0] == "adv" for k in pos) else True
    # result dims
    res_dims = []   # list of ('b', j) or ('slice', item) or ('new',)
    if adjacent:
        placed = False
        for k, it in enumerate(items):
            if it[0] in ("adv", "int"):
                if it[0] == "int" and not any(items[p][0] == "adv" for p in pos):
                    continue
                if not placed and k == pos[0]:
                    res_dims += [("b", j) for j in range(len(bshape))]
                    placed = True
            elif it[0] == "slice":
                res_dims.append(("slice", it))
            else:
                res_dims.append(("new",))
    else:
        res_dims += [("b", j) for j in range(len(bshape))]
        for it in items:
            if it[0] == "slice":
                res_dims.append(("slice", it))
            elif it[0] == "new":
                res_dims.append(("new",))
    shape = tuple(bshape[d[1]] if d[0] == "b" else dim(d[1][4]) if d[0] == "slice" else 1 for d in res_dims)
    base = a.snapshot()
    nd = a.ndim
    adv_snaps = [(it[1], it[2].shape, it[2].snapshot()) for it in advs]

    def elem(idx):
        out = [None] * nd
        bidx = [None] * len(bshape)
        for d, i in zip(res_dims, idx):
            if d[0] == "b":
                bidx[d[1]] = i
            elif d[0] == "slice":
                _, ax, st, step, _ = d[1]
                out[ax] = simp(st + i * step)
        for it in items:
            if it[0] == "int":
                out[it[1]] = it[2]
        for ax, shp, snap in adv_snaps:
            out[ax] = snap(_bcast_idx(bidx, bshape, shp))
        return base(tuple(out))
    return SArr(a.dtype, shape, elem)


def _bcast_idx(idx, shape, target_shape):
    """index into an operand of `target_shape` when iterating over broadcast `shape`"""
    off = len(shape) - len(target_shape)
    out = []
    for k, d in enumerate(target_shape):
        i = idx[off + k]
        if isinstance(d, int):
            out.append(z3.IntVal(0) if d == 1 and not (isinstance(shape[off + k], int) and shape[off + k] == 1) else i)
        elif same_dim(d, shape[off + k]):
            # equal to the result dim: either both are 1 (then i == 0) or no broadcasting on this axis
            out.append(i)
        else:
            out.append(z3.If(T(d) == 1, z3.IntVal(0), i))
    return tuple(out)


def broadcast_shapes(s1, s2):
    s1, s2 = tuple(s1), tuple(s2)
    n = max(len(s1), len(s2))
    s1 = (1,) * (n - len(s1)) + s1
    s2 = (1,) * (n - len(s2)) + s2
    out = []
    for a, b in zip(s1, s2):
        if isinstance(a, int) and a == 1:
            out.append(b)
        elif isinstance(b, int) and b == 1:
            out.append(a)
        elif same_dim(a, b):
            out.append(a if not isinstance(b, int) else b)
        elif isinstance(a, int) and isinstance(b, int):
            raise ValueError(f"operands could not be broadcast together with shapes {s1} {s2}")
        else:
            oblige("broadcast.compatible", z3.Or(T(a) == T(b), T(a) == 1, T(b) == 1), f"shapes {s1} vs {s2}")
            out.append(dim(z3.If(T(a) == 1, T(b), T(a))))
    return tuple(out)


def setitem(a, index, value):
    """a[index] = value (in place)"""
    if not isinstance(a, SArr):
        raise Unsupported("setitem on non symbolic array with symbolic operands")
    if isinstance(index, (SArr, np.ndarray)) and index.dtype.kind == "b" and index.ndim == a.ndim and a.ndim >= 1 and not (a.ndim == 1):
        # full-shape boolean mask
        m = as_sarr(index).snapshot()
        v = as_sarr(value)
        if v.ndim != 0:
            if a.ndim != 2 or v.ndim != 1:
                raise Unsupported("n-d boolean mask assignment of a non scalar")
            info = _where2d_of(index)
            oblige("mask.assign.length", T(v.shape[0]) == info["count"], "NumPy boolean array indexing assignment cannot assign a different number of values than the mask selects")
            vs1 = cast_fn(v.dtype, a.dtype, v.snapshot())
            a._write(lambda idx: m(idx), lambda idx: vs1((info["rank"](idx[0], idx[1]),)))
            return
        vs = cast_fn(v.dtype, a.dtype, v.snapshot())
        a._write(lambda idx: m(idx), lambda idx: vs(()))
        return
    if isinstance(index, tuple) and len(index) == a.ndim and len(index) > 1 and all(isinstance(i, SArr) and getattr(i, "where_of", None) for i in index) \
            and all(i.where_of[0] is index[0].where_of[0] and i.where_of[1] == p for p, i in enumerate(index)):
        # a[np.where(mask)] = scalar  ==  a[mask] = scalar
        m = index[0].where_of[0]["mask"]
        v = as_sarr(value)
        if v.ndim != 0:
            raise Unsupported("where-tuple assignment of a non scalar")
        vs = cast_fn(v.dtype, a.dtype, v.snapshot())
        a._write(lambda idx: m(idx), lambda idx: vs(()))
        return
    idx_list = _norm_index(index, a.ndim)
    adv = [k for k, i in enumerate(idx_list) if _is_adv(i) and not _is_scalar_index(i)]
    if not adv:
        view = _basic_view(a, idx_list)
        v = as_sarr(value)
        _check_assign_shape(v.shape, view.shape)
        vs = cast_fn(v.dtype, a.dtype, v.snapshot())
        vshape = v.shape
        rshape = view.shape
        view._write(lambda idx: z3.BoolVal(True), lambda idx: vs(_bcast_idx(list(idx), rshape, vshape)))
        return
    if len(adv) == 2 and a.ndim == 2 and len(idx_list) == 2:
        # a[rows, cols] = v with two 1-d index arrays of equal length m, rows == arange(start, start + m) (step 1): the pairs are distinct,
        # element (r, c) is written iff 0 <= r - start < m and cols[r - start] == c
        rws, cls = idx_list
        ar = getattr(rws, "arange_of", None) if isinstance(rws, SArr) else None
        if ar is None or ar[1] != 1 or rws.ndim != 1:
            raise Unsupported("assignment with two advanced indices (rows is not an arange with step 1)")
        cia = _int_index_array(cls, a.shape[1], "column index array")
        if cia.ndim != 1:
            raise Unsupported("assignment with two advanced indices (n-d column index array)")
        m = T(rws.shape[0])
        oblige("index.shape_mismatch", T(cia.shape[0]) == m, "shape mismatch: indexing arrays could not be broadcast together")
        st0 = ar[0]
        oblige("index.in_bounds", z3.Implies(m > 0, z3.And(st0 >= 0, st0 + m <= T(a.shape[0]))), "row index array")
        v = as_sarr(value)
        _check_assign_shape(v.shape, (rws.shape[0],))
        vs = cast_fn(v.dtype, a.dtype, v.snapshot())
        vshape = v.shape
        cs_ = cia.snapshot()
        a._write(lambda idx: z3.And(idx[0] - st0 >= 0, idx[0] - st0 < m, cs_((idx[0] - st0,)) == idx[1]),
                 lambda idx: vs(_bcast_idx([idx[0] - st0], (rws.shape[0],), vshape)))
        return
    if len(adv) > 1:
        raise Unsupported("assignment with several advanced indices")
    k = adv[0]
    # axis of the advanced index
    axis = sum(1 for i in idx_list[:k] if i is not None)
    n = a.shape[axis]
    raw = idx_list[k]
    mask_snap = None
    ia_c = None
    if isinstance(raw, (list, np.ndarray)) and not any(isinstance(e, (SV, SArr)) for e in (raw if isinstance(raw, list) else [])):
        c = np.asarray(raw)
        if c.dtype.kind == "b":
            c = np.flatnonzero(c)
        if c.ndim == 1 and c.size <= 64:
            nn = conc(n)
            ia_c = [int(x) if x >= 0 else (int(x) + nn if nn is not None else None) for x in c]
    ia = _int_index_array(raw, n, "assignment index array")
    if ia.ndim != 1:
        raise Unsupported("assignment with n-d index array")
    m = ia.shape[0]
    # view of a with the advanced axis kept whole; then scatter along that axis
    idx_basic = list(idx_list)
    idx_basic[k] = slice(None)
    view = _basic_view(a, idx_basic)
    # position of the axis within the view dims
    vax = 0
    ax_seen = 0
    for j, i in enumerate(idx_basic):
        if j == k:
            break
        if i is None or isinstance(i, slice):
            vax += 1
    rshape = view.shape[:vax] + (m,) + view.shape[vax + 1:]
    v = as_sarr(value)
    _check_assign_shape(v.shape, rshape)
    vs = cast_fn(v.dtype, a.dtype, v.snapshot())
    vshape = v.shape
    ias = ia.snapshot()
    mt = T(m)
    if ia_c is not None and all(x is not None for x in ia_c):
        def cover(idx):
            return z3.Or(*[idx[vax] == x for x in ia_c]) if ia_c else z3.BoolVal(False)

        def src(idx):
            # last write wins
            j = z3.IntVal(len(ia_c) - 1)
            for p in range(len(ia_c) - 2, -1, -1):
                later = z3.Or(*[idx[vax] == ia_c[q] for q in range(p + 1, len(ia_c))])
                j = z3.If(z3.And(idx[vax] == ia_c[p], z3.Not(later)), z3.IntVal(p), j)
            full = list(idx)
            full[vax] = j
            return vs(_bcast_idx(full, rshape, vshape))
    else:
        # injective index array => inverse function
        j1, j2 = z3.Int(fresh_name("j")), z3.Int(fresh_name("j"))
        oblige("scatter.injective",
               forall([j1, j2], lambda: z3.Implies(z3.And(j1 >= 0, j1 < j2, j2 < mt), ias((j1,)) != ias((j2,)))),
               "index array of an assignment must not repeat an index (last-write-wins not modelled)")
        invf = getattr(ia, "inverse", None)
        if invf is None:
            f = z3.Function(fresh_name("invidx"), z3.IntSort(), z3.IntSort())
            jj = z3.Int(fresh_name("j"))
            body_ = z3.Implies(z3.And(jj >= 0, jj < mt), f(ias((jj,))) == jj)
            try:
                note_fact(z3.ForAll([jj], body_, patterns=[f(ias((jj,)))]))
            except z3.Z3Exception:
                note_fact(z3.ForAll([jj], body_))
            invf = lambda x: f(x)   # noqa

        def cover(idx):
            r = invf(idx[vax])
            return z3.And(r >= 0, r < mt, ias((r,)) == idx[vax])

        def src(idx):
            full = list(idx)
            full[vax] = invf(idx[vax])
            return vs(_bcast_idx(full, rshape, vshape))
    view._write(cover, src)


def _check_assign_shape(vshape, rshape):
    """value must broadcast *into* the target shape"""
    if len(vshape) > len(rshape):
        # leading dims of the value must be 1
        extra = vshape[:len(vshape) - len(rshape)]
        for d in extra:
            if isinstance(d, int):
                if d != 1:
                    raise ValueError(f"could not broadcast input array from shape {vshape} into shape {rshape}")
            else:
                oblige("assign.broadcast", T(d) == 1, f"value shape {vshape} into {rshape}")
        vshape = vshape[len(vshape) - len(rshape):]
    off = len(rshape) - len(vshape)
    for k, d in enumerate(vshape):
        r = rshape[off + k]
        if isinstance(d, int) and d == 1:
            continue
        if same_dim(d, r):
            continue
        if isinstance(d, int) and isinstance(r, int):
            raise ValueError(f"could not broadcast input array from shape {vshape} into shape {rshape}")
        oblige("assign.broadcast", z3.Or(T(d) == T(r), T(d) == 1), f"value shape {vshape} into {rshape}")


# ----------------------------------------------------------------------------- where / nonzero
def where1d(mask):
    """np.where(mask)[0] / flatnonzero for a 1-d boolean array: ascending enumeration of the index set"""
    mask = as_sarr(mask)
    if mask.ndim != 1:
        raise Unsupported("where on n-d mask")
    ms = mask.snapshot()
    if mask.dtype.kind != "b":
        ms0 = ms
        ms = lambda idx: cast_term(mask.dtype, bool, ms0(idx))   # noqa
    n = T(mask.shape[0])
    # the enumeration of an index set is unique: the same mask (same element function, same length) gets the same instance
    cx_ = cur()
    probe = z3.Int("where!probe")
    with capture_facts():
        key = (z3.simplify(ms((probe,))).sexpr(), z3.simplify(n).sexpr())
    if cx_ is not None:
        cache = getattr(cx_, "where_cache", None)
        if cache is None:
            cache = cx_.where_cache = {}
        hit = cache.get(key)
        if hit is not None:
            out0 = hit
            out = SArr(np.dtype("int64"), out0.shape, out0._elem)
            out.inverse, out.mask, out.count, out.where_of = out0.inverse, out0.mask, out0.count, out0.where_of
            return out
    cnt = z3.Int(fresh_name("nnz"))
    w = z3.Function(fresh_name("where"), z3.IntSort(), z3.IntSort())
    rank = z3.Function(fresh_name("rank"), z3.IntSort(), z3.IntSort())
    k = z3.Int(fresh_name("k"))
    i = z3.Int(fresh_name("i"))
    note_fact(cnt >= 0, cnt <= n,
              z3.ForAll([k], z3.Implies(z3.And(k >= 0, k < cnt), z3.And(w(k) >= 0, w(k) < n, ms((w(k),)), rank(w(k)) == k)), patterns=[w(k)]),
              z3.ForAll([k], z3.Implies(z3.And(k >= 0, k < cnt - 1), w(k) < w(k + 1)), patterns=[w(k + 1)]),
              z3.ForAll([i], z3.Implies(z3.And(i >= 0, i < n, ms((i,))), z3.And(rank(i) >= 0, rank(i) < cnt, w(rank(i)) == i)), patterns=[rank(i)]))
    # strict monotonicity in the general form (follows by induction from the successor form; stated as
    # part of the specification of where so that the solver need not do the induction)
    k2 = z3.Int(fresh_name("k"))
    note_fact(z3.ForAll([k, k2], z3.Implies(z3.And(k >= 0, k < k2, k2 < cnt), w(k) < w(k2)), patterns=[z3.MultiPattern(w(k), w(k2))]))
    out = SArr(np.dtype("int64"), (dim(cnt),), lambda idx: w(idx[0]))
    out.inverse = lambda x: rank(x)
    out.mask = ms
    out.count = cnt
    info = {"mask": ms, "count": cnt, "rank": rank, "rows": w, "ndim": 1}
    out.where_of = (info, 0)
    c_ = cur()
    if c_ is not None:
        c_.where_log.append(info)
        c_.where_cache[key] = out
    return out


def _where2d_of(mask):
    """the np.where specification of a 2-d mask object, created once per mask object (a read a[mask] and a write a[mask] = v share it)"""
    hit = getattr(mask, "_where2d_info", None) if isinstance(mask, SArr) else None
    if hit is not None:
        return hit
    rows, cols = where2d(mask)
    info = rows.where_of[0]
    if isinstance(mask, SArr):
        mask._where2d_info = info
    return info


def where2d(mask):
    """np.where(mask) for a 2-d boolean array: (rows, cols) in row-major (lexicographic) order"""
    mask = as_sarr(mask)
    ms = mask.snapshot()
    if mask.dtype.kind != "b":
        ms0 = ms
        ms = lambda idx: cast_term(mask.dtype, bool, ms0(idx))   # noqa
    n0, n1 = T(mask.shape[0]), T(mask.shape[1])
    cnt = z3.Int(fresh_name("nnz"))
    r = z3.Function(fresh_name("wrow"), z3.IntSort(), z3.IntSort())
    c = z3.Function(fresh_name("wcol"), z3.IntSort(), z3.IntSort())
    rank = z3.Function(fresh_name("rank"), z3.IntSort(), z3.IntSort(), z3.IntSort())
    k, k2, i, j = (z3.Int(fresh_name(x)) for x in "kkij")
    note_fact(cnt >= 0,
              z3.ForAll([k], z3.Implies(z3.And(k >= 0, k < cnt), z3.And(r(k) >= 0, r(k) < n0, c(k) >= 0, c(k) < n1, ms((r(k), c(k))), rank(r(k), c(k)) == k)), patterns=[r(k)]),
              z3.ForAll([k, k2], z3.Implies(z3.And(k >= 0, k < k2, k2 < cnt), z3.Or(r(k) < r(k2), z3.And(r(k) == r(k2), c(k) < c(k2)))), patterns=[z3.MultiPattern(r(k), r(k2))]),
              z3.ForAll([i, j], z3.Implies(z3.And(i >= 0, i < n0, j >= 0, j < n1, ms((i, j))), z3.And(rank(i, j) >= 0, rank(i, j) < cnt, r(rank(i, j)) == i, c(rank(i, j)) == j)), patterns=[rank(i, j)]))
    rows = SArr(np.dtype("int64"), (dim(cnt),), lambda idx: r(idx[0]))
    cols = SArr(np.dtype("int64"), (dim(cnt),), lambda idx: c(idx[0]))
    info = {"mask": ms, "count": cnt, "rank": rank, "rows": r, "cols": c, "ndim": 2}
    rows.where_of = (info, 0)
    cols.where_of = (info, 1)
    c_ = cur()
    if c_ is not None:
        c_.where_log.append(info)
    return rows, cols


# ----------------------------------------------------------------------------- elementwise
def ewise(fn, out_dtype, *operands, with_idx=False):
    """generic broadcasting map; operands are SArr; fn(terms...) -> term"""
    shape = ()
    for o in operands:
        shape = broadcast_shapes(shape, o.shape)
    snaps = [(o.shape, o.snapshot()) for o in operands]

    def elem(idx):
        args = [s(_bcast_idx(list(idx), shape, shp)) for shp, s in snaps]
        return fn(idx, *args) if with_idx else fn(*args)
    return SArr(out_dtype, shape, elem)


# A-FPSTD mode: every float32 multiply / divide / add / subtract result carries a relative rounding error
# r * (1 + d), |d| <= 2^-24 (standard model of IEEE-754 binary32, round to nearest, no over/underflow)
FP_ERR = [False]
U32 = z3.RealVal(1) / (2 ** 24)


def fp_round(dtype, idx, r, exact=False):
    if not FP_ERR[0] or exact or np.dtype(dtype) != np.dtype("float32"):
        return r
    d = z3.Function(fresh_name("fl32err"), *([z3.IntSort()] * len(idx)), z3.RealSort()) if idx else z3.Const(fresh_name("fl32err"), z3.RealSort())
    dt = d(*idx) if idx else d
    note_fact(dt >= -U32, dt <= U32)
    return r * (1 + dt)


# ----------------------------------------------------------------------------- constructors / shape ops
def full(shape, value, dtype=None):
    if not isinstance(shape, (tuple, list)):
        shape = (shape,)
    v = as_sarr(value)
    dt = np.dtype(dtype) if dtype is not None else v.dtype
    t = cast_term(v.dtype, dt, v.read(()))
    return SArr(dt, tuple(shape), lambda idx: t)


def arange(start, stop=None, step=1, dtype=None):
    if stop is None:
        start, stop = 0, start
    st, sp = term(start), term(stop)
    if not (z3.is_int(st) and z3.is_int(sp)):
        # float bounds (e.g. arange(0, np.floor(ns / 2) + 1)): length ceil(stop - start), elements start + i, dtype float64
        stepc = conc(step)
        if stepc != 1:
            raise Unsupported("float arange with step != 1")
        from .core import to_real, ceil_real
        d = z3.simplify(to_real(sp) - to_real(st))
        ln = z3.ToInt(ceil_real(d))
        ln = z3.If(ln > 0, ln, z3.IntVal(0))
        dtf = np.dtype(dtype) if dtype is not None else np.dtype("float64")
        cx = cur()
        lnp = cx.prune(ln) if cx is not None else simp(ln)
        return SArr(dtf, (dim(lnp),), lambda idx: to_real(st) + z3.ToReal(idx[0]))
    stepc = conc(step)
    if stepc is None and z3.is_int(term(step)):
        # symbolic positive integer step: the length L is characterised by (L-1)*step < stop-start <= L*step (ceil division; non linear),
        # elements start + i*step; a step <= 0 is refused by an obligation (not modelled)
        stt = term(step)
        oblige("arange.positive_step", stt >= 1, "arange with a symbolic step: only positive steps are modelled")
        L = z3.Int(fresh_name("arange_len"))
        note_fact(L >= 0, z3.Implies(sp <= st, L == 0), z3.Implies(sp > st, z3.And(L >= 1, (L - 1) * stt < sp - st, sp - st <= L * stt)))
        dt = np.dtype(dtype) if dtype is not None else np.dtype("int64")
        return SArr(dt, (dim(L),), lambda idx: cast_term("int64", dt, st + idx[0] * stt))
    if stepc is None or stepc == 0:
        raise Unsupported("symbolic arange step")
    if stepc > 0:
        ln = z3.If(sp > st, (sp - st + stepc - 1) / stepc, z3.IntVal(0))
    else:
        ln = z3.If(sp < st, (st - sp - stepc - 1) / (-stepc), z3.IntVal(0))
    dt = np.dtype(dtype) if dtype is not None else np.dtype("int64")
    out = SArr(dt, (dim(ln),), lambda idx: cast_term("int64", dt, simp(st + idx[0] * stepc)))
    out.arange_of = (st, stepc)
    return out


def transpose(a, axes=None):
    a = as_sarr(a)
    nd = a.ndim
    if axes is None:
        axes = tuple(reversed(range(nd)))
    axes = tuple(int(x) % nd for x in axes)
    shape = tuple(a.shape[ax] for ax in axes)

    def fwd(idx):
        out = [None] * nd
        for k, ax in enumerate(axes):
            out[ax] = idx[k]
        return tuple(out)

    def inv(pidx):
        return z3.BoolVal(True), tuple(pidx[ax] for ax in axes)
    return SArr(a.dtype, shape, None, base=(a, fwd, inv))


def flip(a, axis=None):
    a = as_sarr(a)
    axes = range(a.ndim) if axis is None else [int(axis) % a.ndim] if not isinstance(axis, (tuple, list)) else [int(x) % a.ndim for x in axis]
    index = [slice(None)] * a.ndim
    for ax in axes:
        index[ax] = slice(None, None, -1)
    return _basic_view(a, index)


def roll(a, shift, axis=None):
    a = as_sarr(a)
    if axis is None:
        if a.ndim != 1:
            raise Unsupported("roll on flattened n-d array")
        axis = 0
    axis = int(axis) % a.ndim
    n = T(a.shape[axis])
    s = a.snapshot()
    sh = T(shift)
    from .core import py_mod

    def elem(idx):
        i = list(idx)
        i[axis] = simp(py_mod(idx[axis] - sh, n))
        return s(tuple(i))
    return SArr(a.dtype, a.shape, elem)


def concatenate(arrs, axis=0, dtype=None):
    arrs = [as_sarr(x) for x in arrs]
    if not arrs:
        raise ValueError("need at least one array to concatenate")
    nd = arrs[0].ndim
    if nd == 0:
        raise ValueError("zero-dimensional arrays cannot be concatenated")
    axis = int(axis) % nd
    dt = np.dtype(dtype) if dtype else result_dtype(*[(x, False) for x in arrs])
    for x in arrs[1:]:
        if x.ndim != nd:
            raise ValueError("all the input array dimensions except for the concatenation axis must match exactly")
        for k in range(nd):
            if k != axis and not same_dim(x.shape[k], arrs[0].shape[k]):
                if isinstance(x.shape[k], int) and isinstance(arrs[0].shape[k], int):
                    raise ValueError("all the input array dimensions except for the concatenation axis must match exactly")
                oblige("concat.shape", T(x.shape[k]) == T(arrs[0].shape[k]), f"concatenate dim {k}")
    offs = [z3.IntVal(0)]
    for x in arrs:
        offs.append(simp(offs[-1] + T(x.shape[axis])))
    snaps = [cast_fn(x.dtype, dt, x.snapshot()) for x in arrs]
    shape = list(arrs[0].shape)
    shape[axis] = dim(offs[-1])

    def elem(idx):
        def at(j):
            i = list(idx)
            i[axis] = simp(idx[axis] - offs[j])
            return snaps[j](tuple(i))
        t = at(len(arrs) - 1)
        for j in range(len(arrs) - 2, -1, -1):
            t = z3.If(idx[axis] < offs[j + 1], at(j), t)
        return t
    return SArr(dt, tuple(shape), elem)


def reshape(a, newshape):
    """C-order reshape (copy semantics; result flagged aliased so that writes are refused)"""
    a = as_sarr(a)
    if not isinstance(newshape, (tuple, list)):
        newshape = (newshape,)
    newshape = [dim(x) for x in newshape]
    total = z3.IntVal(1)
    for d in a.shape:
        total = total * T(d)
    total = simp(total)
    if any(isinstance(d, int) and d == -1 for d in newshape):
        k = [j for j, d in enumerate(newshape) if isinstance(d, int) and d == -1][0]
        rest = z3.IntVal(1)
        for j, d in enumerate(newshape):
            if j != k:
                rest = rest * T(d)
        rest = simp(rest)
        oblige("reshape.size", z3.And(rest != 0, total % rest == 0), "reshape -1")
        newshape[k] = dim(total / rest)
    else:
        prod = z3.IntVal(1)
        for d in newshape:
            prod = prod * T(d)
        oblige("reshape.size", simp(prod) == total, "reshape must preserve size")
    s = a.snapshot()
    oshape = a.shape
    nshape = tuple(newshape)
    # C-order strides of the source
    strides = []
    st = z3.IntVal(1)
    for d in reversed(oshape):
        strides.append(st)
        st = simp(st * T(d))
    strides = list(reversed(strides))

    if len(oshape) == 2 and len(nshape) == 1 and conc(T(oshape[1])) is None and conc(T(oshape[0])) is None:
        # flatten of an (N, M) array with both dims symbolic: f div M / f mod M are non linear.  Sound abstraction (A-NP-INDEX): uninterpreted
        # row(f), col(f), flat(r, c) constrained only by facts that f div M, f mod M and r*M + c satisfy (ranges, mutual inverses)
        rowf = z3.Function(fresh_name("flatrow"), z3.IntSort(), z3.IntSort())
        colf = z3.Function(fresh_name("flatcol"), z3.IntSort(), z3.IntSort())
        flatf = z3.Function(fresh_name("flatidx"), z3.IntSort(), z3.IntSort(), z3.IntSort())
        N_, M_, tot = T(oshape[0]), T(oshape[1]), T(nshape[0])
        f_, r_, c_ = z3.Int(fresh_name("f")), z3.Int(fresh_name("r")), z3.Int(fresh_name("c"))
        note_fact(z3.ForAll([f_], z3.Implies(z3.And(f_ >= 0, f_ < tot), z3.And(rowf(f_) >= 0, rowf(f_) < N_, colf(f_) >= 0, colf(f_) < M_, flatf(rowf(f_), colf(f_)) == f_)), patterns=[rowf(f_)]),
                  z3.ForAll([f_], z3.Implies(z3.And(f_ >= 0, f_ < tot), z3.And(rowf(f_) >= 0, rowf(f_) < N_, colf(f_) >= 0, colf(f_) < M_, flatf(rowf(f_), colf(f_)) == f_)), patterns=[colf(f_)]),
                  z3.ForAll([r_, c_], z3.Implies(z3.And(r_ >= 0, r_ < N_, c_ >= 0, c_ < M_), z3.And(flatf(r_, c_) >= 0, flatf(r_, c_) < tot, rowf(flatf(r_, c_)) == r_, colf(flatf(r_, c_)) == c_)), patterns=[flatf(r_, c_)]))
        r = SArr(a.dtype, nshape, lambda idx: s((rowf(idx[0]), colf(idx[0]))))
        r.aliased = True
        r.flat_of = {"row": rowf, "col": colf, "flat": flatf, "n": tot}
        cx = cur()
        if cx is not None:
            if not hasattr(cx, "flatten_log"):
                cx.flatten_log = []
            cx.flatten_log.append(r.flat_of)
        return r

    def elem(idx):
        flat = z3.IntVal(0)
        for i, d in zip(idx, nshape):
            flat = flat * T(d) + i
        flat = simp(flat)
        out = []
        for k, d in enumerate(oshape):
            sk = conc(strides[k])
            q = flat if len(oshape) == 1 else (idiv(flat, sk) if sk is not None else simp(flat / strides[k]))
            if k > 0:
                q = imod(q, d) if isinstance(d, int) else simp(q % T(d))
            out.append(simp(q))
        return s(tuple(out))
    r = SArr(a.dtype, nshape, elem)
    r.aliased = True
    return r


def take(a, indices, axis=None):
    a = as_sarr(a)
    if axis is None:
        if a.ndim != 1:
            raise Unsupported("take on flattened n-d array")
        axis = 0
    axis = int(axis) % a.ndim
    index = [slice(None)] * a.ndim
    index[axis] = indices if isinstance(indices, (SArr, list, np.ndarray)) else indices
    return getitem(a, tuple(index))


def diff(a, axis=-1):
    a = as_sarr(a)
    axis = int(axis) % a.ndim
    hi = [slice(None)] * a.ndim
    lo = [slice(None)] * a.ndim
    hi[axis] = slice(1, None)
    lo[axis] = slice(None, -1)
    from . import ops
    return ops.binop("Sub", getitem(a, tuple(hi)), getitem(a, tuple(lo)))


# ----------------------------------------------------------------------------- reductions
def forall_elems(a, pred):
    """z3 formula: pred(term) for every element"""
    a = as_sarr(a)
    ks = [z3.Int(fresh_name("i")) for _ in a.shape]
    s = a.snapshot()
    if not ks:
        return pred(s(()))
    rng = z3.And(*[z3.And(k >= 0, k < T(d)) for k, d in zip(ks, a.shape)])
    return forall(ks, lambda: z3.Implies(rng, pred(s(tuple(ks)))))


def exists_elem(a, pred):
    a = as_sarr(a)
    ks = [z3.Int(fresh_name("i")) for _ in a.shape]
    s = a.snapshot()
    if not ks:
        return pred(s(()))
    rng = z3.And(*[z3.And(k >= 0, k < T(d)) for k, d in zip(ks, a.shape)])
    return exists(ks, lambda: z3.And(rng, pred(s(tuple(ks)))))


_RED_UF = {}


def reduce_axis(a, axis, name, dtype, axioms=None):
    """opaque reduction along one axis: result[rest] = R_name(ident(a), rest) with optional axioms.
    The reduction of a *slice function* is represented by a fresh UF over the remaining indices;
    `axioms(read_along(k)->term, n, result_term) -> [facts]` are instantiated per read."""
    a = as_sarr(a)
    if axis is None:
        if a.ndim != 1:
            raise Unsupported(f"{name} over flattened n-d array")
        axis = 0
    axis = int(axis) % a.ndim
    rest_shape = a.shape[:axis] + a.shape[axis + 1:]
    srt = sort_of(dtype)
    f = z3.Function(fresh_name(name), *([z3.IntSort()] * len(rest_shape)), srt) if rest_shape else z3.Const(fresh_name(name), srt)
    s = a.snapshot()
    n = T(a.shape[axis])
    import inspect as _inspect
    wants_idx = axioms is not None and len(_inspect.signature(axioms).parameters) >= 4

    def along_at(idx):
        def along(k):
            full = list(idx[:axis]) + [k] + list(idx[axis:])
            return s(tuple(full))
        return along
    if axioms is not None:
        # specification axioms of the reduction, quantified over the remaining indices (pattern: the result term), so that
        # they are available wherever the result is mentioned - also under other quantifiers
        qs = [z3.Int(fresh_name("rq")) for _ in rest_shape]
        with capture_facts() as inner:
            r_ = f(*qs) if rest_shape else f
            fx = axioms(along_at(tuple(qs)), n, r_, tuple(qs)) if wants_idx else axioms(along_at(tuple(qs)), n, r_)
        body_ = z3.And(*fx) if fx else z3.BoolVal(True)
        if rest_shape:
            rng_ = z3.And(*[z3.And(q >= 0, q < T(d)) for q, d in zip(qs, rest_shape)])
            note_fact(z3.ForAll(qs, z3.Implies(rng_, body_), patterns=[f(*qs)]))
        else:
            note_fact(body_)

    def elem(idx):
        return f(*idx) if rest_shape else f
    out = SArr(dtype, rest_shape, elem)
    c = cur()
    if c is not None:
        if not hasattr(c, "reduce_log"):
            c.reduce_log = []
        c.reduce_log.append({"name": name, "input": s, "in_shape": a.shape, "in_dtype": a.dtype, "axis": axis, "out": (lambda *idx: f(*idx)) if rest_shape else (lambda: f), "result": out})
    return out
