"""Ghost file system (A-FS): paths as (dir, stem, suffix) terms, files with symbolic size / content.

`GhostFS` keeps exists / size / content per path key; primitive effects are recorded in an ordered
log so that "at every crash point" properties can be stated as invariants over log prefixes.
"""
import numpy as np
import z3

from .core import SV, Unsupported, term, wrap, fresh_name
from . import arrays as A
from .arrays import SArr
from . import models


class Stat:
    def __init__(self, size):
        self.st_size = size


class GhostFS:
    def __init__(self):
        self.exists = {}     # key -> bool | SV(Bool)
        self.size = {}       # key -> int | SV
        self.content = {}    # key -> opaque token (z3 Const of sort Bytes) or SArr
        self.log = []        # (op, key, extra)
        self.frozen = set()

    def ex(self, key, default=False):
        return self.exists.get(key, default)


class GhostPath:
    _pyvc_ok = True
    """pathlib.Path stand-in.  Concrete structure (parent parts, name), symbolic file state in `fs`."""

    def __init__(self, fs, parts, name):
        self.fs, self.parts_, self._name = fs, tuple(parts), name

    # --- pure path algebra (mirrors pathlib for simple names)
    @property
    def key(self):
        return "/".join(self.parts_ + (self._name,))

    @property
    def name(self):
        return self._name

    @property
    def suffix(self):
        i = self._name.rfind(".")
        return self._name[i:] if 0 < i < len(self._name) - 1 else ""

    @property
    def stem(self):
        i = self._name.rfind(".")
        return self._name[:i] if 0 < i < len(self._name) - 1 else self._name

    @property
    def parent(self):
        return GhostPath(self.fs, self.parts_[:-1], self.parts_[-1]) if self.parts_ else self

    @property
    def parts(self):
        return self.parts_ + (self._name,)

    def with_suffix(self, sfx):
        return GhostPath(self.fs, self.parts_, self.stem + sfx)

    def joinpath(self, *names):
        p = self
        for n in names:
            n = n.name if isinstance(n, GhostPath) else str(n)
            p = GhostPath(p.fs, p.parts_ + (p._name,), n)
        return p

    def __truediv__(self, n):
        return self.joinpath(n)

    def __eq__(self, o):
        return isinstance(o, GhostPath) and o.key == self.key

    def __ne__(self, o):
        return not self.__eq__(o)

    def __hash__(self):
        return hash(self.key)

    def __str__(self):
        return self.key

    def __repr__(self):
        return f"GhostPath({self.key})"

    def __fspath__(self):
        return self.key

    # --- file state
    def exists(self):
        return self.fs.ex(self.key)

    def stat(self):
        e = self.fs.ex(self.key)
        if e is False:
            from .interp import PyRaise
            raise PyRaise(FileNotFoundError(self.key))
        return Stat(self.fs.size.get(self.key))

    def unlink(self, missing_ok=False):
        e = self.fs.ex(self.key)
        if isinstance(e, bool):
            if not e:
                if missing_ok:
                    return
                from .interp import PyRaise
                raise PyRaise(FileNotFoundError(self.key))
        else:
            if not missing_ok:
                A.oblige("unlink.exists", term(e), f"unlink of {self.key} requires the file to exist")
        self.fs.log.append(("unlink", self.key, None))
        self.fs.exists[self.key] = False

    def rename(self, target):
        self.fs.log.append(("rename", self.key, target.key))
        self.fs.exists[target.key] = self.fs.ex(self.key)
        self.fs.size[target.key] = self.fs.size.get(self.key)
        self.fs.content[target.key] = self.fs.content.get(self.key)
        self.fs.exists[self.key] = False
        return target

    def mkdir(self, parents=False, exist_ok=False):
        self.fs.log.append(("mkdir", self.key, None))
        self.fs.exists[self.key] = True

    def touch(self, mode=0o666, exist_ok=True):
        """Path.touch(): creates an empty file if there is none; an existing file keeps its content and size"""
        e = self.fs.ex(self.key)
        self.fs.log.append(("touch", self.key, None))
        if e is False:
            self.fs.size[self.key] = 0
        elif e is not True:
            from .core import wrap
            self.fs.size[self.key] = wrap(z3.If(term(e), term(self.fs.size.get(self.key, z3.Int("size!" + self.key))), z3.IntVal(0)))
        self.fs.exists[self.key] = True


# np.memmap(file, dtype, mode, shape): element [n, c] is the item at flat offset n*nc + c of the file;
# raises ValueError when the mapped length exceeds the file size
@models.model(np.memmap)
def _memmap(I, a, k):
    f = a[0]
    dtype = np.dtype(k.get("dtype", a[1] if len(a) > 1 else np.uint8))
    shape = k.get("shape")
    fs = getattr(I.session, "ghost_fs", None)
    if fs is None or shape is None:
        return NotImplemented
    key = f.key if isinstance(f, GhostPath) else str(f)
    size = fs.size.get(key)
    if size is None:
        raise Unsupported("memmap of a file unknown to the ghost file system")
    n_items = z3.IntVal(1)
    for d in shape:
        n_items = n_items * A.T(d)
    nbytes = n_items * dtype.itemsize
    A.oblige("memmap.fits", z3.And(nbytes <= term(size), *[A.T(d) >= 0 for d in shape]),
             "np.memmap raises ValueError('mmap length is greater than file size') otherwise")
    content = fs.content.get(key)
    if content is None:
        content = z3.Function(fresh_name("filecontent"), z3.IntSort(), z3.IntSort())
        fs.content[key] = content
    dims = [A.T(d) for d in shape]

    def elem(idx):
        flat = z3.IntVal(0)
        for i, d in zip(idx, dims):
            flat = flat * d + i
        return content(z3.simplify(flat))
    arr = SArr(dtype, tuple(shape), elem, name="memmap")
    rng = A.int_range(dtype)
    if rng:
        arr.facts_on_read = lambda idx, t: [t >= rng[0], t <= rng[1]]
    arr.file_key = key
    return arr


class GhostFile:
    _pyvc_ok = True
    """file opened for writing: ndarray.tofile(f) writes at the current position and advances it; every write is recorded
    as (position before, array snapshot).  Positions are byte offsets (symbolic)."""

    def __init__(self, name="file", pos=0):
        self.name = name
        self.writes = []
        self.positions = []
        self.closed = False
        self.pos = pos

    def write_array(self, arr):
        if self.closed:
            from .interp import PyRaise
            raise PyRaise(ValueError("I/O operation on closed file"))
        arr = A.as_sarr(arr)
        self.positions.append(self.pos)
        self.writes.append(arr.copy())
        n = z3.IntVal(arr.dtype.itemsize)
        for d in arr.shape:
            n = n * A.T(d)
        from .core import wrap
        self.pos = wrap(term(self.pos) + n)

    def write(self, text):
        """text written to a file opened in text mode: recorded piece by piece (strings with symbolic parts are kept as their constructor terms)"""
        if self.closed:
            from .interp import PyRaise
            raise PyRaise(ValueError("I/O operation on closed file"))
        if not hasattr(self, "texts"):
            self.texts = []
        self.texts.append(text)

    def read(self, *a):
        """the bytes of the file as an opaque token (what is done with them is the business of a contract of the consumer)"""
        return ("BYTES", self.name)

    def truncate(self, size=None):
        """file.truncate(size): the file's size becomes `size` (default: the current position); the position does not move"""
        size = self.pos if size is None else size
        fs = getattr(self, "fs", None)
        if fs is not None:
            fs.log.append(("truncate", self.name, size))
            fs.size[self.name] = size
        return size

    def seek(self, pos, whence=0):
        if whence != 0:
            raise Unsupported("seek with whence != 0")
        self.pos = pos
        return pos

    def tell(self):
        return self.pos

    def close(self):
        self.closed = True

    def __enter__(self):
        return self

    def __exit__(self, *a):
        self.close()


import builtins as _builtins


@models.model(_builtins.open)
def _open(I, a, k):
    """open() of a ghost path: a fresh GhostFile registered with the session (A-FS)"""
    f = a[0]
    if not isinstance(f, GhostPath):
        return NotImplemented
    mode = a[1] if len(a) > 1 else k.get("mode", "r")
    gf = GhostFile(f.key)
    gf.mode = mode
    gf.fs = f.fs
    fs = f.fs
    if "w" in mode:
        fs.log.append(("open_w", f.key, None))
        fs.exists[f.key] = True
        fs.size[f.key] = 0
    elif "a" in mode:
        # append: the position is the current end of the file (0 for a file that does not exist yet); nothing is truncated
        fs.log.append(("open_a", f.key, None))
        known = fs.exists.get(f.key, False)
        if known is True and f.key in fs.size:
            gf.pos = fs.size[f.key]
        elif known is False:
            gf.pos = 0
            fs.size[f.key] = 0
        else:
            from .core import wrap
            ex = term(known)
            gf.pos = wrap(z3.If(ex, term(fs.size.get(f.key, z3.Int("size!" + f.key))), z3.IntVal(0)))
        fs.exists[f.key] = True
    reg = getattr(I.session, "ghost_files", None)
    if reg is None:
        reg = I.session.ghost_files = {}
    reg.setdefault(f.key, []).append(gf)
    return gf
