"""A-PANDAS: a DataFrame used as a dict of equal-length columns (what the functions under contract do with it):
df[col], len(df), df[col].iloc[-1], .to_numpy(), .values, .astype(int), series +/- scalar, pd.DataFrame({col: series})."""
import numpy as np
import z3

from .core import SV, Unsupported, term, wrap
from . import arrays as A, ops
from .arrays import SArr


class SSeries:
    _pyvc_ok = True
    _pyvc_series = True

    def __init__(self, arr):
        self.arr = A.as_sarr(arr)

    class _ILoc:
        _pyvc_ok = True

        def __init__(self, s):
            self.s = s

        def __getitem__(self, i):
            r = A.getitem(self.s.arr, i)
            if isinstance(r, SArr) and r.ndim == 0:
                return wrap(r.read(()))
            return SSeries(r) if isinstance(r, SArr) else r

    @property
    def iloc(self):
        return SSeries._ILoc(self)

    @property
    def values(self):
        return self.arr

    def to_numpy(self):
        return self.arr

    def astype(self, dt):
        return SSeries(A.astype(self.arr, dt))

    def __len__(self):
        raise Unsupported("len(series) outside the interpreter")

    def _bin(self, o, op, rev=False):
        o = o.arr if isinstance(o, SSeries) else o
        return SSeries(ops.binop(op, o, self.arr) if rev else ops.binop(op, self.arr, o))

    def __mul__(self, o): return self._bin(o, "Mult")
    def __rmul__(self, o): return self._bin(o, "Mult", True)
    def __truediv__(self, o): return self._bin(o, "Div")
    def __neg__(self): return SSeries(ops.unop("USub", self.arr))
    def __add__(self, o): return self._bin(o, "Add")
    def __radd__(self, o): return self._bin(o, "Add", True)
    def __sub__(self, o): return self._bin(o, "Sub")
    def __rsub__(self, o): return self._bin(o, "Sub", True)


class SFrame:
    _pyvc_ok = True

    def __init__(self, cols):
        self.cols = {k: (v if isinstance(v, SSeries) else SSeries(v)) for k, v in cols.items()}
        ns = [c.arr.shape[0] for c in self.cols.values()]
        self.n = ns[0]

    def __getitem__(self, k):
        if isinstance(k, str):
            return self.cols[k]
        raise Unsupported("DataFrame indexing other than by column name")

    def __setitem__(self, k, v):
        if not isinstance(k, str):
            raise Unsupported("DataFrame assignment other than a whole column")
        self.cols[k] = v if isinstance(v, SSeries) else SSeries(v)

    def length(self):
        return self.n if isinstance(self.n, int) else SV(self.n)

    @property
    def shape(self):
        return (self.length(), len(self.cols))

    class _Loc:
        """df.loc[rows, col] (= value) on a frame with the default RangeIndex (row label == row position: A-PANDAS)"""
        _pyvc_ok = True

        def __init__(self, f):
            self.f = f

        def __setitem__(self, key, v):
            if not (isinstance(key, tuple) and len(key) == 2 and isinstance(key[1], str)):
                raise Unsupported("df.loc[...] = v other than df.loc[rows, 'column'] = v")
            rows, col = key
            v = v.arr if isinstance(v, SSeries) else v
            A.setitem(self.f.cols[col].arr, rows.arr if isinstance(rows, SSeries) else rows, v)

        def __getitem__(self, key):
            if not (isinstance(key, tuple) and len(key) == 2 and isinstance(key[1], str)):
                raise Unsupported("df.loc[...] other than df.loc[rows, 'column']")
            rows, col = key
            return SSeries(A.getitem(self.f.cols[col].arr, rows.arr if isinstance(rows, SSeries) else rows))

    @property
    def loc(self):
        return SFrame._Loc(self)

    class _ILocF:
        _pyvc_ok = True

        def __init__(self, f):
            self.f = f

        def __getitem__(self, key):
            if not isinstance(key, slice):
                raise Unsupported("df.iloc[...] other than a row slice")
            return SFrame({c: SSeries(A.getitem(s.arr, key)) for c, s in self.f.cols.items()})

    @property
    def iloc(self):
        return SFrame._ILocF(self)


def dataframe_summary(it, a, k):
    d = a[0]
    if isinstance(d, dict):
        return SFrame(d)
    raise Unsupported("pd.DataFrame of a non dict")
