"""A-PANDAS: a DataFrame used as a dict of equal-length columns (what the functions under contract do with it):
df[col], len(df), df[col].iloc[-1], .to_numpy(), .values, .astype(int), series +/- scalar, pd.DataFrame({col: series})."""
import numpy as np
import z3

from .core import SV, Unsupported, term, wrap
from . import arrays as A, ops
from .arrays import SArr


def membership(x, values):
    """boolean array: x[i] in values (values: a 1-d array / list).  Specification: member(v) <-> exists j. values[j] == v, given as
    a witness function (member(v) -> values[wit(v)] == v) and the converse (forall j. member(values[j]))"""
    import z3 as _z3
    from .core import fresh_name
    xa = A.as_sarr(x)
    va = A.as_sarr(values)
    if va.ndim != 1:
        raise Unsupported("membership in an n-d array of values")
    vs = va.snapshot()
    m = A.T(va.shape[0])
    srt = A.sort_of(np.result_type(xa.dtype, va.dtype))
    cast_x = A.cast_fn(xa.dtype, np.result_type(xa.dtype, va.dtype), xa.snapshot())
    cast_v = A.cast_fn(va.dtype, np.result_type(xa.dtype, va.dtype), vs)
    member = _z3.Function(fresh_name("member"), srt, _z3.BoolSort())
    wit = _z3.Function(fresh_name("member_at"), srt, _z3.IntSort())
    j = _z3.Int(fresh_name("j"))
    v = _z3.Const(fresh_name("v"), srt)
    A.note_fact(_z3.ForAll([j], _z3.Implies(_z3.And(j >= 0, j < m), member(cast_v((j,)))), patterns=[cast_v((j,))]) if _has_uf(cast_v((j,))) else _z3.ForAll([j], _z3.Implies(_z3.And(j >= 0, j < m), member(cast_v((j,))))),
                _z3.ForAll([v], _z3.Implies(member(v), _z3.And(wit(v) >= 0, wit(v) < m, cast_v((wit(v),)) == v)), patterns=[member(v)]))
    out = SArr(np.dtype(bool), xa.shape, lambda idx: member(cast_x(idx)))
    out.membership_of = {"member": member, "witness": wit, "values": cast_v, "n": m}
    c = A.cur()
    if c is not None:
        if not hasattr(c, "member_log"):
            c.member_log = []
        c.member_log.append(out.membership_of)
    return out


def _has_uf(t):
    import z3 as _z3
    try:
        return _z3.is_app(t) and t.decl().kind() == _z3.Z3_OP_UNINTERPRETED and t.num_args() > 0
    except Exception:
        return False


class SSeries:
    _pyvc_ok = True
    _pyvc_series = True

    def __init__(self, arr):
        self.arr = A.as_sarr(arr)

    class _ILoc:
        _pyvc_ok = True

        def __init__(self, s):
            self.s = s

        def __getitem__(self, i):
            r = A.getitem(self.s.arr, i)
            if isinstance(r, SArr) and r.ndim == 0:
                return wrap(r.read(()))
            return SSeries(r) if isinstance(r, SArr) else r

    @property
    def iloc(self):
        return SSeries._ILoc(self)

    @property
    def values(self):
        return self.arr

    def to_numpy(self):
        return self.arr

    def astype(self, dt):
        return SSeries(A.astype(self.arr, dt))

    def __len__(self):
        raise Unsupported("len(series) outside the interpreter")

    def isna(self):
        from .core import NAN
        import z3 as _z3
        if self.arr.dtype.kind != "f":
            return SSeries(SArr(np.dtype(bool), self.arr.shape, lambda idx: _z3.BoolVal(False)))
        s_ = self.arr.snapshot()
        return SSeries(SArr(np.dtype(bool), self.arr.shape, lambda idx: s_(idx) == NAN))

    def isin(self, values):
        """A-PANDAS Series.isin(values): element-wise membership (specification shared with np.isin)"""
        return SSeries(membership(self.arr, values))

    def _bin(self, o, op, rev=False):
        o = o.arr if isinstance(o, SSeries) else o
        return SSeries(ops.binop(op, o, self.arr) if rev else ops.binop(op, self.arr, o))

    def __mul__(self, o): return self._bin(o, "Mult")
    def __rmul__(self, o): return self._bin(o, "Mult", True)
    def __truediv__(self, o): return self._bin(o, "Div")
    def __neg__(self): return SSeries(ops.unop("USub", self.arr))
    def __add__(self, o): return self._bin(o, "Add")
    def __radd__(self, o): return self._bin(o, "Add", True)
    def __sub__(self, o): return self._bin(o, "Sub")
    def __rsub__(self, o): return self._bin(o, "Sub", True)


class SFrame:
    _pyvc_ok = True

    def __init__(self, cols):
        self.cols = {k: (v if isinstance(v, SSeries) else SSeries(v)) for k, v in cols.items()}
        ns = [c.arr.shape[0] for c in self.cols.values()]
        self.n = ns[0]

    def __getitem__(self, k):
        if isinstance(k, str):
            return self.cols[k]
        raise Unsupported("DataFrame indexing other than by column name")

    def __setitem__(self, k, v):
        if not isinstance(k, str):
            raise Unsupported("DataFrame assignment other than a whole column")
        self.cols[k] = v if isinstance(v, SSeries) else SSeries(v)

    def length(self):
        return self.n if isinstance(self.n, int) else SV(self.n)

    def copy(self, *a, **k):
        return SFrame({c: SSeries(s_.arr.copy()) for c, s_ in self.cols.items()})

    def sort_values(self, by=None, inplace=False, **kw):
        """A-PANDAS DataFrame.sort_values(by=[c1, c2, ...]) on integer columns: the rows in lexicographic order of (c1, c2, ...), ties in table
        order (pandas sorts several keys with a stable lexsort; a single key with kind='quicksort' is NOT stable and is refused)"""
        from . import models as M
        by = [by] if isinstance(by, str) else list(by)
        if len(by) < 2 and kw.get("kind") not in ("stable", "mergesort"):
            raise Unsupported("sort_values by a single column without a stable kind")
        if kw.get("ascending", True) is not True or kw.get("na_position", "last") != "last" or kw.get("key") is not None:
            raise Unsupported("sort_values options other than the defaults")
        keys = [self.cols[c].arr for c in reversed(by)]                # np.lexsort: last key is the primary one
        perm = M._lexsort(None, [keys], {})
        new = {c: SSeries(A.getitem(s_.arr, perm)) for c, s_ in self.cols.items()}
        self.last_sort = {"perm": perm, "by": by}
        if inplace:
            self.cols = new
            return None
        out = SFrame(new)
        out.last_sort = self.last_sort
        return out

    @property
    def shape(self):
        return (self.length(), len(self.cols))

    class _Loc:
        """df.loc[rows, col] (= value) on a frame with the default RangeIndex (row label == row position: A-PANDAS)"""
        _pyvc_ok = True

        def __init__(self, f):
            self.f = f

        def __setitem__(self, key, v):
            if not (isinstance(key, tuple) and len(key) == 2 and isinstance(key[1], str)):
                raise Unsupported("df.loc[...] = v other than df.loc[rows, 'column'] = v")
            rows, col = key
            v = v.arr if isinstance(v, SSeries) else v
            A.setitem(self.f.cols[col].arr, rows.arr if isinstance(rows, SSeries) else rows, v)

        def __getitem__(self, key):
            if isinstance(key, tuple) and len(key) == 2 and isinstance(key[1], slice) and key[1] == slice(None):
                # df.loc[rows, :] : the same rows of every column (row labels == positions; boolean masks and position arrays alike)
                rows = key[0].arr if isinstance(key[0], SSeries) else key[0]
                return SFrame({c: SSeries(A.getitem(s_.arr, rows)) for c, s_ in self.f.cols.items()})
            if not (isinstance(key, tuple) and len(key) == 2 and isinstance(key[1], str)):
                raise Unsupported("df.loc[...] other than df.loc[rows, 'column'] / df.loc[rows, :]")
            rows, col = key
            return SSeries(A.getitem(self.f.cols[col].arr, rows.arr if isinstance(rows, SSeries) else rows))

    @property
    def loc(self):
        return SFrame._Loc(self)

    class _ILocF:
        _pyvc_ok = True

        def __init__(self, f):
            self.f = f

        def __getitem__(self, key):
            if not isinstance(key, slice):
                raise Unsupported("df.iloc[...] other than a row slice")
            return SFrame({c: SSeries(A.getitem(s.arr, key)) for c, s in self.f.cols.items()})

    @property
    def iloc(self):
        return SFrame._ILocF(self)


def dataframe_summary(it, a, k):
    d = a[0]
    if isinstance(d, dict):
        return SFrame(d)
    raise Unsupported("pd.DataFrame of a non dict")
