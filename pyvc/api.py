"""Harness / property registry, runner, evidence, known findings, replay files.

A *harness* puts one function of /repo (or a short chain of them) under contract: it builds symbolic
inputs, assumes the precondition, executes the real AST and states the postconditions as named
obligations.  `bounded` stand-ins are run-time contracts on the real function over an enumerated box.
"""
import hashlib
import importlib
import json
import multiprocessing as mp
import os
import subprocess
import sys
import time
import traceback

import z3

from .core import SV, Unsupported, PathEnd, term, wrap, is_z3, fresh_name
from . import vc, interp as I, arrays as A, models

VERIF = os.path.dirname(os.path.dirname(os.path.abspath(__file__)))
REPO = os.environ.get("PYVC_REPO", "/repo")


class Harness:
    def __init__(self, pid, name, fn, functions=(), replay=None, tier="quick", assumptions=(), clause=""):
        self.pid, self.name, self.fn = pid, name, fn
        self.functions = list(functions)
        self.replay = replay
        self.tier = tier
        self.assumptions = list(assumptions)
        self.clause = clause


class Bounded:
    def __init__(self, pid, name, fn, tier="quick", bound="", clause=""):
        self.pid, self.name, self.fn, self.tier, self.bound, self.clause = pid, name, fn, tier, bound, clause


REGISTRY = {}      # pid -> {"harness": [...], "bounded": [...]}


def _reg(pid):
    return REGISTRY.setdefault(pid, {"harness": [], "bounded": [], "meta": {}})


def harness(pid, name, **kw):
    def deco(fn):
        _reg(pid)["harness"].append(Harness(pid, name, fn, **kw))
        return fn
    return deco


def bounded(pid, name, **kw):
    def deco(fn):
        _reg(pid)["bounded"].append(Bounded(pid, name, fn, **kw))
        return fn
    return deco


_DEPENDS = []


def depends(pid, other_pid, names):
    """the claim for `pid` rests on contracts proved under another property (a callee's contract used modularly): the same harnesses are run
    again by `pid`'s check, so that a change which breaks the callee's contract fails the caller's check too (obligation ids are prefixed).
    Dependencies may be mutual (C03 <-> C04 <-> C12): they are recorded here and resolved once every contract module has been imported."""
    _DEPENDS.append((pid, other_pid, list(names)))


def resolve_depends():
    done = 0
    while done < len(_DEPENDS):             # importing a module may record further dependencies
        pid, other_pid, names = _DEPENDS[done]
        done += 1
        importlib.import_module(f"contracts.{other_pid}")
    for pid, other_pid, names in _DEPENDS:
        have = {h.name for h in _reg(pid)["harness"]}
        found = set()
        for hn in list(_reg(other_pid)["harness"]):
            if hn.name in names:
                found.add(hn.name)
                if f"{other_pid}.{hn.name}" not in have:
                    _reg(pid)["harness"].append(Harness(pid, f"{other_pid}.{hn.name}", hn.fn, functions=hn.functions, replay=hn.replay, tier=hn.tier,
                                                        assumptions=hn.assumptions, clause=f"[contract of a dependency, proved under {other_pid}] {hn.clause}"))
        missing = set(names) - found
        if missing:
            raise RuntimeError(f"depends({pid}, {other_pid}): no harness named {sorted(missing)}")


def property_meta(pid, **kw):
    _reg(pid)["meta"].update(kw)


# ----------------------------------------------------------------------------- harness context
class H:
    """what a harness function receives"""

    def __init__(self, harness, tier, seed):
        self.harness = harness
        self.tier = tier
        self.seed = seed
        self.sessions = []
        self.inputs = {}
        self.lemmas = []
        self.extra_obligations = []
        self.covers = []

    def session(self, name=None, **kw):
        s = vc.Session(name or self.harness.name, **kw)
        self.sessions.append(s)
        return s

    def input(self, **named):
        self.inputs.update(named)

    def lemma(self, oid, hyps, goal, detail=""):
        """free-standing obligation (a lemma over contracts, not tied to a path)"""
        ob = vc.Obligation(oid, "lemma", [term(h) for h in hyps], term(goal), detail, function="(lemma)")
        self.extra_obligations.append(ob)
        return ob

    def cover(self, cid, hyps):
        """reachability guard: hyps must be satisfiable (vacuity check)"""
        self.covers.append((cid, [term(h) for h in hyps]))


def run_function(it, fn, args, kwargs=None, self_obj=None, gen=None, keep_contract=False):
    """execute the real body of `fn` (bypassing any summary registered for fn itself; with keep_contract the summary stays
    installed for the *recursive* calls made by the body)"""
    node, filename = I.SOURCES.funcdef(fn)
    it.session.note_function(fn)
    q = fn.__qualname__.replace("<locals>.", "")
    env = I.Env(None, fn.__globals__, filename=filename)
    if fn.__closure__:
        for name, cell in zip(fn.__code__.co_freevars, fn.__closure__):
            env.vars[name] = cell.cell_contents
    if gen is not None:
        it.gen_stack.append(gen)
        try:
            e2 = I.Env(env, fn.__globals__, qualname=q, filename=filename)
            e2.funcnode = node
            it.bind_args(node, list(args), dict(kwargs or {}), list(fn.__defaults__ or ()), dict(fn.__kwdefaults__ or {}), e2)
            prev = it.ctx.func
            it.ctx.func = q
            try:
                it.exec_block(node.body, e2)
            except I.ReturnEx:
                pass
            finally:
                it.ctx.func = prev
        finally:
            it.gen_stack.pop()
        return gen
    saved = None if keep_contract else it.session.contracts.pop(fn, None)
    try:
        return it.call_ast(node, env, filename, q, list(args), dict(kwargs or {}), list(fn.__defaults__ or ()), dict(fn.__kwdefaults__ or {}))
    finally:
        if saved is not None:
            it.session.contracts[fn] = saved


# ----------------------------------------------------------------------------- known findings
def load_known_findings():
    p = os.path.join(VERIF, "known_findings.json")
    if not os.path.exists(p):
        return []
    with open(p) as f:
        return json.load(f).get("findings", [])


def _class_term(expr, inputs):
    ns = {"And": z3.And, "Or": z3.Or, "Not": z3.Not, "Implies": z3.Implies, "If": z3.If}
    ns.update({k: term(v) for k, v in inputs.items()})
    return eval(expr, {"__builtins__": {}}, ns)


def _class_concrete(expr, values):
    ns = {"And": lambda *a: all(a), "Or": lambda *a: any(a), "Not": lambda a: not a,
          "Implies": lambda a, b: (not a) or b, "If": lambda c, a, b: a if c else b}
    ns.update(values)
    return bool(eval(expr, {"__builtins__": {}}, ns))


# ----------------------------------------------------------------------------- running one harness (in a child)
def _src_state():
    try:
        head = subprocess.run(["git", "-C", REPO, "rev-parse", "HEAD"], capture_output=True, text=True).stdout.strip()
        dirty = bool(subprocess.run(["git", "-C", REPO, "status", "--porcelain", "--", "src"], capture_output=True, text=True).stdout.strip())
    except Exception:
        head, dirty = "?", True
    return head, dirty


def _run_harness(hn, tier, seed, findings):
    t0 = time.time()
    out = {"harness": hn.name, "pid": hn.pid, "obligations": [], "violations": [], "known": [], "undecided": [],
           "functions": {}, "dropped": {}, "models_used": [], "paths": 0, "error": None, "covers": [], "clause": hn.clause,
           "assumptions": list(hn.assumptions)}
    h = H(hn, tier, seed)
    models.USED.clear()
    try:
        hn.fn(h)
    except Unsupported as e:
        out["undecided"].append({"harness": hn.name, "reason": f"unsupported: {e}"})
    except I.PyRaise as e:
        out["undecided"].append({"harness": hn.name, "reason": f"program raised outside a path: {e.exc!r}"})
    except (KeyError, AttributeError, TypeError, IndexError, AssertionError, NameError) as e:
        # the sidecar harness reached for state (a column, a logged call, a local) that the code under contract does not produce (any more):
        # the harness does not apply to this code - undecided, never a verdict and not a crash of the checker
        tb = traceback.extract_tb(e.__traceback__)
        where = next((f"{os.path.basename(fr.filename)}:{fr.lineno}" for fr in reversed(tb) if "/contracts/" in fr.filename), f"{os.path.basename(tb[-1].filename)}:{tb[-1].lineno}" if tb else "?")
        out["undecided"].append({"harness": hn.name, "reason": f"harness not applicable to this code: {type(e).__name__}: {str(e)[:120]} ({where})"})
    except Exception as e:
        out["error"] = traceback.format_exc()
    if any("harness" in u for u in out["undecided"]) and hn.replay is not None \
            and not any(f.get("property") == hn.pid and str(f.get("obligation", "")).startswith(hn.name + ":") and not f.get("fixed") for f in findings):
        # the harness could not be applied to this code (it left the modelled subset, or no longer has the structure the contract refers to): nothing is
        # decided deductively, but the harness' native replay of its clause still runs on the real code; only a failure observed there is reported
        try:
            rr = hn.replay({}, "(harness not applicable)")
        except Exception as e:
            tb = traceback.extract_tb(e.__traceback__)
            src = os.path.realpath(os.path.join(REPO, "src"))
            rr = {"failed": True, "raised_by_the_library": repr(e)[:300]} if any(os.path.realpath(fr.filename).startswith(src) and "/tests/" not in fr.filename for fr in tb) else {"failed": False}
        if rr.get("failed"):
            out["violations"].append({"property": hn.pid, "obligation": f"{hn.name}:native_replay_of_the_clause", "inputs": {}, "solver_model": "",
                                      "function": "", "lineno": None, "kind": "post", "replayed": True, "observed": rr,
                                      "detail": "the harness does not apply to this code (undecided); its native replay of the clause fails on the real code"})
    obs = list(h.extra_obligations)
    for s in h.sessions:
        obs.extend(s.obligations)
        out["functions"].update(s.functions)
        for k, v in s.dropped.items():
            out["dropped"].setdefault(k, [])
            out["dropped"][k] = sorted(set(out["dropped"][k]) | v)
        out["paths"] += s.paths
    out["models_used"] = sorted(models.USED)
    if not obs and not out["undecided"] and not out["error"]:
        out["error"] = f"vacuous harness: {hn.name} generated zero obligations (every path raised or was cut before a post-condition)"
    timeout = vc.QUICK_TIMEOUT_MS if tier == "quick" else 180000
    # vacuity: covers
    for cid, hyps in h.covers:
        s = z3.Solver()
        s.set("timeout", 10000)
        s.add(*hyps)
        r = s.check()
        out["covers"].append({"id": cid, "result": str(r)})
        if r == z3.unsat:
            out["error"] = (out["error"] or "") + f"\nvacuous precondition: cover {cid} is unsatisfiable"
    # group by id
    byid = {}
    for ob in obs:
        byid.setdefault(ob.id, []).append(ob)
    for oid, group in byid.items():
        agg = {"id": f"{hn.name}:{oid}", "kind": group[0].kind, "function": group[0].function, "instances": len(group),
               "result": "proved", "backend": None, "solver_s": 0.0, "detail": group[0].detail}
        for ob in group:
            vc.discharge(ob, timeout)
            agg["solver_s"] += ob.solver_s
            agg["backend"] = ob.backend or agg["backend"]
            if ob.result == "failed":
                agg["result"] = "failed"
                _handle_failure(hn, h, ob, agg, out, findings, timeout)
                break
            if ob.result == "undecided" and agg["result"] == "proved":
                agg["result"] = "undecided"
                agg["reason"] = ob.reason
                if _candidate_confirmed(hn, h, ob, agg, out, findings):
                    break
        agg["solver_s"] = round(agg["solver_s"], 4)
        out["obligations"].append(agg)
        if agg["result"] == "undecided":
            out["undecided"].append({"obligation": agg["id"], "reason": agg.get("reason", "")})
    out.pop("_replay_cache", None)
    out["wall_s"] = round(time.time() - t0, 3)
    return out


def _candidate_confirmed(hn, h, ob, agg, out, findings):
    """An obligation neither solver decided is not a violation.  When quantifier instantiation saturated, the solver state is a candidate
    counter-model; it is replayed on the real code (the harness' native replay of the clause).  Only a failure observed natively turns the
    line into a VIOLATION (with the native failing input in the replay file); otherwise the obligation stays undecided."""
    if hn.replay is None:
        return False
    full_id = f"{hn.name}:{ob.id}"
    if any(f.get("property") == hn.pid and f.get("obligation") == full_id and not f.get("fixed") for f in findings):
        return False
    cand = getattr(ob, "candidate", None)
    values = {}
    if cand is not None:
        ob.model = cand
        values = model_values_safe(ob, h.inputs)
    # without a candidate (the solver ran out of time rather than out of instances) the harness' native check of the clause still runs, on its
    # own inputs: one run per obligation id prefix is enough
    cache = out.setdefault("_replay_cache", {})
    key = (ob.id if values else None, tuple(sorted((k, str(v)) for k, v in values.items())))
    try:
        rr = cache[key] if key in cache else hn.replay(dict(values), ob.id)
        cache[key] = rr
    except Exception as e:
        # the library itself raising while the clause is exercised natively is a failure of that run; an exception of the replay code is not
        tb = traceback.extract_tb(e.__traceback__)
        src = os.path.realpath(os.path.join(REPO, "src"))
        if not any(os.path.realpath(fr.filename).startswith(src) and "/tests/" not in fr.filename for fr in tb):
            return False
        rr = {"failed": True, "raised_by_the_library": repr(e)[:300], "where": [f"{os.path.relpath(fr.filename, src)}:{fr.lineno}" for fr in tb if os.path.realpath(fr.filename).startswith(src)][-2:]}
        cache[key] = rr
    if not rr.get("failed"):
        agg["candidate_replayed"] = "native replay of the candidate counter-model did not fail"
        return False
    agg["result"] = "failed"
    agg["model"] = values
    agg["note"] = ("solver undecided (quantifier instantiation incomplete); candidate counter-model confirmed by a failing native replay on the real code" if cand is not None
                   else "solver undecided (time limit); the native replay of this clause fails on the real code")
    out["violations"].append({"property": hn.pid, "obligation": full_id, "inputs": values, "solver_model": str(ob.model)[:4000],
                              "function": ob.function, "lineno": ob.lineno, "detail": ob.detail + " | " + agg["note"], "kind": ob.kind, "replayed": True, "observed": rr})
    return True


def model_values_safe(ob, inputs):
    try:
        return vc.model_values(ob, inputs)
    except Exception:
        return {}


def _handle_failure(hn, h, ob, agg, out, findings, timeout):
    full_id = f"{hn.name}:{ob.id}"
    mine = [f for f in findings if f.get("property") == hn.pid and f.get("obligation") == full_id and not f.get("fixed")]
    values = vc.model_values(ob, h.inputs)
    agg["model"] = values
    if mine:
        # (i) listed witnesses must still fail natively; (ii) is there a failure outside the listed classes?
        excl = []
        for f in mine:
            try:
                excl.append(z3.Not(_class_term(f["class"], h.inputs)))
            except Exception as e:
                out["error"] = (out["error"] or "") + f"\nknown finding class does not evaluate: {f['class']}: {e}"
                return
        s = z3.Solver()
        s.set("timeout", timeout)
        s.add(*ob.hyps)
        s.add(*excl)
        s.add(z3.Not(ob.goal))
        r = s.check()
        for f in mine:
            still = None
            if hn.replay is not None and f.get("witness") is not None:
                try:
                    rr = hn.replay(dict(f["witness"]), ob.id)
                    still = bool(rr.get("failed"))
                except Exception as e:
                    still = None
            out["known"].append({"property": hn.pid, "obligation": full_id, "what": f.get("what", ""), "id": f.get("id"), "witness_still_fails": still})
        if r == z3.unsat:
            agg["result"] = "known-finding"
            return
        if r == z3.sat:
            ob.model = s.model()
            values = vc.model_values(ob, h.inputs)
            agg["model"] = values
        else:
            agg["result"] = "known-finding"
            agg["note"] = "solver could not decide whether failures exist outside the listed classes"
            return
    viol = {"property": hn.pid, "obligation": full_id, "inputs": values, "solver_model": str(ob.model)[:4000],
            "function": ob.function, "lineno": ob.lineno, "detail": ob.detail, "kind": ob.kind, "replayed": False, "observed": None}
    if hn.replay is not None:
        try:
            rr = hn.replay(dict(values), ob.id)
            viol["observed"] = rr
            viol["replayed"] = bool(rr.get("failed"))
        except Exception as e:
            viol["observed"] = {"failed": False, "error": traceback.format_exc()[-1500:]}
    out["violations"].append(viol)


def _child(conn, modname, idx, kind, tier, seed, findings):
    try:
        sys.setrecursionlimit(10000)
        if not os.environ.get("PYVC_KEEP_STDERR"):
            # progress bars / warnings of the libraries under test go nowhere; errors come back through the result record
            dn = os.open(os.devnull, os.O_WRONLY)
            os.dup2(dn, 2)
        mod = importlib.import_module(modname)
        pid = mod.PROPERTY
        if kind == "harness":
            hn = REGISTRY[pid]["harness"][idx]
            r = _run_harness(hn, tier, seed, findings)
        else:
            b = REGISTRY[pid]["bounded"][idx]
            r = _run_bounded(b, tier, seed, findings)
        conn.send(r)
    except BaseException:
        conn.send({"error": traceback.format_exc(), "harness": f"{modname}[{idx}]", "obligations": [], "violations": [], "known": [],
                   "undecided": [], "functions": {}, "dropped": {}, "models_used": [], "paths": 0})
    finally:
        conn.close()


class BoundedCtx:
    def __init__(self, b, tier, seed, findings):
        import random
        self.tier, self.seed = tier, seed
        self.rng = random.Random(seed)
        self.evaluations = 0
        self.nontrivial = set()
        self.samples = []
        self.failures = []
        self.known = []
        self.findings = [f for f in findings if f.get("property") == b.pid and f.get("bounded") == b.name and not f.get("fixed")]
        self.b = b

    def case(self, key, ok, detail=None, nontrivial=True, inputs=None):
        """record one evaluated case; ok=False is a contract violation on the real function"""
        self.evaluations += 1
        if nontrivial:
            self.nontrivial.add(key if isinstance(key, (str, int, tuple)) else repr(key))
        if len(self.samples) < 5:
            self.samples.append({"case": repr(key)[:300], "ok": bool(ok)})
        if not ok:
            inputs = inputs if inputs is not None else {"case": repr(key)}
            for f in self.findings:
                try:
                    if _class_concrete(f["class"], inputs):
                        if not any(k["id"] == f.get("id") for k in self.known):
                            self.known.append({"property": self.b.pid, "obligation": f"bounded:{self.b.name}", "what": f.get("what", ""), "id": f.get("id"), "witness_still_fails": True})
                        return
                except Exception:
                    pass
            if len(self.failures) < 5:
                self.failures.append({"case": repr(key)[:1000], "inputs": inputs, "detail": detail})


def _run_bounded(b, tier, seed, findings):
    t0 = time.time()
    ctx = BoundedCtx(b, tier, seed, findings)
    out = {"harness": f"bounded:{b.name}", "pid": b.pid, "bounded": True, "bound": b.bound, "clause": b.clause, "obligations": [], "violations": [],
           "known": [], "undecided": [], "functions": {}, "dropped": {}, "models_used": [], "paths": 0, "error": None}
    try:
        b.fn(ctx)
    except Exception as e:
        tb = traceback.extract_tb(e.__traceback__)
        src = os.path.realpath(I.REPO_SRC)
        lib = [f for f in tb if os.path.realpath(f.filename).startswith(src) and "/tests/" not in f.filename]
        if lib and os.path.realpath(tb[-1].filename).startswith(src) or (lib and not tb[-1].filename.startswith(VERIF)):
            # the code under test raised while its precondition held: a contract violation, not a checker error
            ctx.evaluations += 1
            ctx.failures.append({"case": "exception in the code under test", "inputs": {"exception": repr(e), "where": f"{lib[-1].filename}:{lib[-1].lineno} in {lib[-1].name}"},
                                 "detail": traceback.format_exc()[-1500:]})
        else:
            out["error"] = traceback.format_exc()
    out["evaluations"] = ctx.evaluations
    out["distinct_nontrivial"] = len(ctx.nontrivial)
    out["samples"] = ctx.samples
    out["known"] = ctx.known
    for f in ctx.failures:
        out["violations"].append({"property": b.pid, "obligation": f"bounded:{b.name}", "inputs": f["inputs"], "detail": f["detail"],
                                  "replayed": True, "observed": f["detail"], "kind": "bounded", "function": "", "lineno": None, "solver_model": ""})
    out["wall_s"] = round(time.time() - t0, 3)
    return out


def _dead_child(name, exitcode):
    """a child killed by a signal while the library code ran natively (a stand-in that makes the real code touch an unmapped file, say) is not a
    crash of the checker and not a verdict either: that stand-in / harness is undecided for this tree; any other silent exit is a checker error"""
    base = {"harness": name, "obligations": [], "violations": [], "known": [], "undecided": [], "functions": {}, "dropped": {}, "models_used": [], "paths": 0, "error": None}
    if exitcode is not None and exitcode < 0:
        base["undecided"] = [{"harness": name, "reason": f"the process running it was killed by signal {-exitcode} inside native library code"}]
    else:
        base["error"] = f"child for {name} exited with {exitcode} without a result"
    return base


# ----------------------------------------------------------------------------- property runner
def run_property(pid, tier="quick", seed=0, only=None, jobs=None):
    t0 = time.time()
    modname = f"contracts.{pid}"
    sys.path.insert(0, VERIF)
    mod = importlib.import_module(modname)
    resolve_depends()
    reg = REGISTRY.get(pid, {"harness": [], "bounded": [], "meta": {}})
    findings = load_known_findings()
    tasks = []
    for i, hn in enumerate(reg["harness"]):
        if (hn.tier == "quick" or tier == "thorough") and (only is None or only in hn.name):
            tasks.append(("harness", i, hn.name))
    for i, b in enumerate(reg["bounded"]):
        if (b.tier == "quick" or tier == "thorough") and (only is None or only in b.name):
            tasks.append(("bounded", i, b.name))
    ctx = mp.get_context("fork")
    jobs = jobs or min(16, max(1, len(tasks)))
    results = []
    pending = list(tasks)
    running = []
    limit = 900 if tier == "quick" else 3600
    while pending or running:
        while pending and len(running) < jobs:
            kind, i, name = pending.pop(0)
            pc, cc = ctx.Pipe(False)
            p = ctx.Process(target=_child, args=(cc, modname, i, kind, tier, seed, findings))
            p.start()
            cc.close()
            running.append((p, pc, name, time.time()))
        still = []
        for p, pc, name, ts in running:
            if pc.poll(0.05):
                try:
                    results.append(pc.recv())
                except EOFError:
                    p.join()
                    results.append(_dead_child(name, p.exitcode))
                p.join()
            elif not p.is_alive():
                results.append(_dead_child(name, p.exitcode))
            elif time.time() - ts > limit:
                p.terminate()
                results.append({"error": None, "harness": name, "obligations": [], "violations": [], "known": [],
                                "undecided": [{"harness": name, "reason": f"time limit {limit}s"}], "functions": {}, "dropped": {}, "models_used": [], "paths": 0})
            else:
                still.append((p, pc, name, ts))
        running = still
    return _report(pid, tier, seed, results, reg, time.time() - t0)


def _report(pid, tier, seed, results, reg, wall):
    head, dirty = _src_state()
    obligations = [o for r in results for o in r.get("obligations", [])]
    violations = [v for r in results for v in r.get("violations", [])]
    known = [k for r in results for k in r.get("known", [])]
    undecided = [u for r in results for u in r.get("undecided", [])]
    errors = [(r.get("harness"), r["error"]) for r in results if r.get("error")]
    functions = {}
    dropped = {}
    models_used = set()
    for r in results:
        functions.update(r.get("functions", {}))
        for k, v in r.get("dropped", {}).items():
            dropped[k] = sorted(set(dropped.get(k, [])) | set(v))
        models_used |= set(r.get("models_used", []))
    n_ob = len(obligations)
    n_ok = sum(1 for o in obligations if o["result"] == "proved")
    n_known = sum(1 for o in obligations if o["result"] == "known-finding")
    bounded_res = [r for r in results if r.get("bounded")]
    EVDIR = os.environ.get("PYVC_EVIDENCE_DIR") or os.path.join(VERIF, "evidence")
    RPDIR = os.path.join(os.path.dirname(EVDIR), "replays") if os.environ.get("PYVC_EVIDENCE_DIR") else os.path.join(VERIF, "replays")
    os.makedirs(EVDIR, exist_ok=True)
    os.makedirs(RPDIR, exist_ok=True)
    lines = []
    # replay files
    for v in violations:
        hsh = hashlib.sha256(json.dumps(v, sort_keys=True, default=str).encode()).hexdigest()[:10]
        safe = v["obligation"].replace("/", "_").replace(":", "-").replace(" ", "_")[:80]
        rel = f"replays/{pid}-{safe}-{hsh}.json"
        v["repo_head"], v["repo_dirty"] = head, dirty
        v["command"] = f"./check {pid} --replay {rel}"
        with open(os.path.join(os.path.dirname(RPDIR), rel), "w") as f:
            json.dump(v, f, indent=1, default=str)
        tail = "" if v.get("replayed") else " no-failing-input-found"
        lines.append(f"VIOLATION property={pid} replay={rel}{tail}")
    seen = set()
    for k in known:
        key = (k.get("id"), k.get("obligation"))
        if key in seen:
            continue
        seen.add(key)
        lines.append(f"KNOWN-FINDING: property={pid} {k.get('id')}: {k.get('what')} [{k.get('obligation')}]")
    meta = reg.get("meta", {})
    proof_complete = (n_ob > 0 and n_ok == n_ob and not undecided and not errors and not bounded_res and not violations)
    level = "proof" if (meta.get("level") == "proof" and n_ob > 0 and (n_ok + n_known) == n_ob and not undecided and not errors) else "other"
    if meta.get("level") == "proof" and level != "proof":
        pass
    trusted = sorted(set(meta.get("trusted_base", [])) | {a for r in results for a in r.get("assumptions", [])})
    cov = {
        "obligations": n_ob,
        "discharged": n_ok,
        "known_finding_obligations": n_known,
        "checker_cmd": f"./check {pid} --tier {tier}",
        "trusted_base": trusted,
        "explanation": meta.get("explanation", "") + f" | this run: {n_ok}/{n_ob} obligations discharged, {n_known} fail only inside listed known-finding classes, "
                       f"{len(undecided)} undecided, {len(bounded_res)} bounded stand-ins (never counted as proved).",
        "obligation_list": obligations,
        "functions_under_contract": functions,
        "dropped_constructs": dropped,
        "models_used": sorted(models_used),
        "undecided": undecided,
        "bounded": [{"name": r["harness"], "bound": r.get("bound"), "clause": r.get("clause"), "evaluations": r.get("evaluations", 0),
                     "distinct_nontrivial": r.get("distinct_nontrivial", 0), "samples": r.get("samples", []), "wall_s": r.get("wall_s")} for r in bounded_res],
        "evaluations": sum(r.get("evaluations", 0) for r in bounded_res) + n_ob,
        "distinct_nontrivial": sum(r.get("distinct_nontrivial", 0) for r in bounded_res) + n_ob,
        "rule": "obligations: one per named contract clause per path group; bounded: cases enumerated by each stand-in, distinct by input key, "
                "non-trivial = the contract's precondition held and the real function was executed",
        "samples": [o["id"] for o in obligations[:5]] + [s for r in bounded_res for s in r.get("samples", [])[:2]],
        "solver_s": round(sum(o.get("solver_s", 0) for o in obligations), 3),
        "repo_head": head, "repo_dirty": dirty,
        "known_findings_hit": [k.get("id") for k in known],
        "errors": [f"{h}: {e[-600:]}" for h, e in errors],
        "harness_wall_s": {r.get("harness"): r.get("wall_s") for r in results},
    }
    ev = {"property_id": pid, "tier": tier, "seed": seed, "level": level, "coverage": cov,
          "assumptions": trusted + [f"model:{m}" for m in sorted(models_used)],
          "wall_s": round(wall, 2), "violations": len(violations)}
    with open(os.path.join(EVDIR, f"{pid}.json"), "w") as f:
        json.dump(ev, f, indent=1, default=str)
    return {"lines": lines, "violations": violations, "errors": errors, "undecided": undecided, "n_ob": n_ob, "n_ok": n_ok,
            "n_known": n_known, "obligations": obligations, "bounded": bounded_res, "level": level, "wall": wall}
