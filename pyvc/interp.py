"""Symbolic interpreter for the Python subset used by the functions under contract.

Concrete values are real Python / NumPy objects and are computed natively; symbolic values are
SV / SArr / SObj.  Paths are explored by re-execution with a decision prefix.  Loops with a
symbolic trip count are cut with sidecar invariants (Hoare rule), never unrolled "up to k".
"""
import ast
import pathlib as _pathlib
import builtins
import importlib
import inspect
import os
import sys
import types

import numpy as np
import z3

from .core import SV, Unsupported, PathEnd, term, wrap, is_z3, fresh_name, as_bool_term
from . import arrays as A
from .arrays import SArr
from . import ops

REPO_SRC = os.path.join(os.environ.get("PYVC_REPO", "/repo"), "src")


# ----------------------------------------------------------------------------- source access
class SourceIndex:
    """qualified name -> FunctionDef of the *current* working tree (re-read on every run)."""

    def __init__(self):
        self.files = {}

    def load(self, filename):
        filename = os.path.realpath(filename)
        if filename not in self.files:
            with open(filename) as f:
                src = f.read()
            tree = ast.parse(src, filename)
            index = {}

            def walk(node, prefix):
                for ch in ast.iter_child_nodes(node):
                    if isinstance(ch, (ast.FunctionDef, ast.AsyncFunctionDef)):
                        q = prefix + ch.name
                        # properties: getter registered under the plain name; setters ignored
                        if q not in index:
                            index[q] = ch
                        walk(ch, q + ".")
                    elif isinstance(ch, ast.ClassDef):
                        walk(ch, prefix + ch.name + ".")
                    else:
                        walk(ch, prefix)
            walk(tree, "")
            self.files[filename] = (src, tree, index)
        return self.files[filename]

    def funcdef(self, fn):
        code = fn.__code__
        src, tree, index = self.load(code.co_filename)
        q = fn.__qualname__.replace("<locals>.", "")
        node = index.get(q)
        if node is None:
            raise Unsupported(f"no source for {fn.__qualname__}")
        return node, code.co_filename

    def segment(self, fn):
        node, filename = self.funcdef(fn)
        return ast.get_source_segment(self.files[os.path.realpath(filename)][0], node)


SOURCES = SourceIndex()


def is_repo_function(f):
    return isinstance(f, types.FunctionType) and os.path.realpath(f.__code__.co_filename).startswith(os.path.realpath(REPO_SRC))


# ----------------------------------------------------------------------------- values
class SObj:
    """Object with symbolic attributes; methods / properties come from the real class `cls`."""

    def __init__(self, cls=None, **attrs):
        self.__dict__["cls"] = cls
        self.__dict__["attrs"] = dict(attrs)

    def __getattr__(self, k):
        try:
            return self.__dict__["attrs"][k]
        except KeyError:
            raise AttributeError(k)

    def __setattr__(self, k, v):
        self.__dict__["attrs"][k] = v

    def __repr__(self):
        return f"SObj<{getattr(self.cls, '__name__', None)}>"


class Closure:
    """function defined while interpreting (nested def / lambda); callable from native code too"""

    def __init__(self, interp, node, env, filename, qualname, defaults, kwdefaults):
        self.interp, self.node, self.env, self.filename = interp, node, env, filename
        self.qualname = qualname
        self.defaults, self.kwdefaults = defaults, kwdefaults
        self.__name__ = getattr(node, "name", "<lambda>")

    def __call__(self, *a, **k):
        return self.interp.call(self, list(a), dict(k))


class BoundMethod:
    def __init__(self, obj, fn):
        self.obj, self.fn = obj, fn


class GenObj:
    """call of a generator function, not yet iterated"""

    def __init__(self, fn, args, kwargs):
        self.fn, self.args, self.kwargs = fn, args, kwargs


class SIter:
    """iterable with symbolic length K and item(j)"""

    def __init__(self, length, item, on_iter=None):
        self.length = length      # z3 Int term or python int
        self.item = item          # j (z3 Int) -> value
        self.on_iter = on_iter    # optional side effect per iteration: on_iter(j)


class Env:
    def __init__(self, parent=None, globs=None, qualname="", filename=""):
        self.vars = {}
        self.parent = parent
        self.globs = globs if globs is not None else (parent.globs if parent else {})
        self.qualname = qualname
        self.filename = filename
        self.nonlocals = set()
        self.globals_decl = set()
        self.loop_ordinal = 0

    def lookup(self, name):
        e = self
        while e is not None:
            if name in e.vars:
                return e.vars[name]
            e = e.parent
        if name in self.globs:
            return self.globs[name]
        if hasattr(builtins, name):
            return getattr(builtins, name)
        raise NameError(name)

    def assign(self, name, v):
        if name in self.nonlocals:
            e = self.parent
            while e is not None:
                if name in e.vars:
                    e.vars[name] = v
                    return
                e = e.parent
        if name in self.globals_decl:
            raise Unsupported("assignment to a global")
        self.vars[name] = v


_NO_DEFAULT = object()


def _init_constant(cls, name):
    """the literal `self.<name> = <literal>` assigned in cls.__init__ (or a base's), when there is exactly one such assignment there"""
    for k in cls.__mro__:
        init = k.__dict__.get("__init__")
        if not isinstance(init, types.FunctionType):
            continue
        try:
            node, _ = SOURCES.funcdef(init)
        except Exception:
            continue
        found = []
        for st in ast.walk(node):
            if isinstance(st, ast.Assign) and len(st.targets) == 1 and isinstance(st.targets[0], ast.Attribute) and isinstance(st.targets[0].value, ast.Name) \
                    and st.targets[0].value.id == "self" and st.targets[0].attr == name:
                found.append(st.value)
        if len(found) == 1 and isinstance(found[0], ast.Constant):
            return found[0].value
        if found:
            return _NO_DEFAULT
    return _NO_DEFAULT


class ReturnEx(Exception):
    def __init__(self, v):
        self.v = v


class BreakEx(Exception):
    pass


class ContinueEx(Exception):
    pass


class PyRaise(Exception):
    """a Python exception raised by the interpreted program"""

    def __init__(self, exc, lineno=None):
        self.exc = exc
        self.lineno = lineno


class GenState:
    def __init__(self, name="Y"):
        self.name = name
        self.k = z3.IntVal(0)
        self.comps = None       # list of UFs
        self.k0 = None

    def ensure(self, values):
        if self.comps is None:
            self.comps = []
            for c, v in enumerate(values):
                t = term(v)
                self.comps.append(z3.Function(fresh_name(f"{self.name}{c}"), z3.IntSort(), t.sort()))

    def __getitem__(self, c):
        f = self.comps[c]
        return lambda j: f(term(j))


class LoopSpec:
    """sidecar loop contract, keyed by (function qualname, loop ordinal)"""

    def __init__(self, invariant=None, decreases=None, havoc_extra=(), fingerprint=None):
        self.invariant = invariant    # (V: view) -> z3 Bool / list
        self.decreases = decreases    # (V) -> Int term
        self.havoc_extra = havoc_extra
        self.fingerprint = fingerprint


def _unwrap(v):
    if isinstance(v, SV):
        return v.t
    if isinstance(v, SObj):
        return ObjView(v)
    return v


class ObjView:
    """read-only proxy of an SObj for contracts: scalar attributes come back as z3 terms"""

    def __init__(self, obj):
        self.__dict__["_obj"] = obj

    def __getattr__(self, k):
        return _unwrap(self.__dict__["_obj"].attrs[k])


class View:
    """what a loop invariant may talk about: locals (as z3 terms), ghost sequence Y, count k, loop index j"""

    def __init__(self, env, gen, j=None, extra=None):
        self._env, self.Y, self.j = env, gen, j
        self.k = gen.k if gen is not None else None
        self._extra = extra or {}

    def __getattr__(self, name):
        if name in self._extra:
            return self._extra[name]
        return _unwrap(self._env.lookup(name))

    def raw(self, name):
        return self._env.lookup(name)

    def has(self, name):
        try:
            self._env.lookup(name)
            return True
        except NameError:
            return False


_SKIP_CALL_ROOTS = {"_logger", "logging", "print", "warnings"}


# ----------------------------------------------------------------------------- interpreter
class Interp:
    def __init__(self, ctx):
        self.ctx = ctx
        self.session = ctx.session
        self.gen_stack = []
        self.call_depth = 0

    # ---------------- calls
    def call(self, fn, args, kwargs):
        from . import models
        try:
            summary = self.session.contracts.get(fn)
        except TypeError:
            summary = None
        if summary is not None and not is_repo_function(fn):
            return summary(self, args, kwargs)
        m = models.lookup(fn)
        if m is not None:
            r = m(self, args, kwargs)
            if r is not NotImplemented:
                return r
        if isinstance(fn, models.SymCallable):
            try:
                return fn.f(*args, **kwargs)
            except (ValueError, IndexError, TypeError) as e:
                raise PyRaise(e)
        if isinstance(fn, BoundMethod):
            return self.call(fn.fn, [fn.obj] + list(args), kwargs)
        if isinstance(fn, Closure):
            return self.call_ast(fn.node, fn.env, fn.filename, fn.qualname, args, kwargs, fn.defaults, fn.kwdefaults)
        if isinstance(fn, types.MethodType) and is_repo_function(fn.__func__):
            return self.call(fn.__func__, [fn.__self__] + list(args), kwargs)
        if is_repo_function(fn):
            summary = self.session.contract_for(fn)
            if summary is not None:
                return summary(self, args, kwargs)
            if not has_symbolic(args) and not has_symbolic(kwargs) and self.session.native_ok(fn):
                return self.native(fn, args, kwargs)
            node, filename = SOURCES.funcdef(fn)
            self.session.note_function(fn)
            env = Env(None, fn.__globals__, filename=filename)
            # closure cells of a real function
            if fn.__closure__:
                for name, cell in zip(fn.__code__.co_freevars, fn.__closure__):
                    env.vars[name] = cell.cell_contents
            defaults = list(fn.__defaults__ or ())
            r = self.call_ast(node, env, filename, fn.__qualname__.replace("<locals>.", ""), args, kwargs, defaults, dict(fn.__kwdefaults__ or {}))
            if isinstance(r, SV) and _term_size(r.t, 25) >= 25:
                r = SV(self.ctx.bind(r.t, fn.__name__))
            return r
        if isinstance(fn, type) and getattr(fn, "__module__", "") and self.session.is_repo_class(fn) and (has_symbolic(args) or has_symbolic(kwargs) or self.session.force_symbolic_class(fn)):
            obj = SObj(fn)
            init = getattr(fn, "__init__", None)
            if is_repo_function(init):
                self.call(init, [obj] + list(args), kwargs)
            return obj
        return self.native(fn, args, kwargs)

    def native(self, fn, args, kwargs):
        if fn is _pathlib.Path and len(args) == 1 and not kwargs and type(args[0]).__name__ == "GhostPath":
            return args[0]          # Path(p) of a path is that path (the ghost file system's paths stand for pathlib.Path objects)
        if getattr(getattr(fn, "__self__", None), "_pyvc_ok", False) or getattr(fn, "_pyvc_ok", False):
            # ghost objects of the engine (files, paths, stubs) take symbolic arguments
            try:
                return fn(*args, **kwargs)
            except (ValueError, IndexError, TypeError) as e:
                raise PyRaise(e)
        recv0 = getattr(fn, "__self__", None)
        if isinstance(recv0, str) and getattr(fn, "__name__", "") == "join" and len(args) == 1 and not kwargs:
            from .models import SymStr as _SymStr
            items = self.to_list(args[0])
            if any(isinstance(x, _SymStr) for x in items) and all(isinstance(x, (str, _SymStr)) for x in items):
                parts = []
                for q, x in enumerate(items):
                    if q and recv0:
                        parts.append(recv0)
                    parts.extend(x.parts if isinstance(x, _SymStr) else [x])
                return _SymStr(parts)
        if isinstance(recv0, slice) and has_symbolic(recv0) or (isinstance(recv0, slice) and has_symbolic(args)):
            if fn.__name__ == "indices" and len(args) == 1:
                # slice.indices(n) = CPython's PySlice_GetIndicesEx: (start, stop, step) with start + length * step consistent with the clamped bounds
                from . import arrays as A_
                start, step, length = A_.adjust_slice(recv0, args[0])
                n_ = A_.T(args[0])
                if step > 0:
                    stop = z3.IntVal(0) if False else (n_ if recv0.stop is None else z3.If(A_.T(recv0.stop) < 0, A_.Max(A_.T(recv0.stop) + n_, 0), A_.Min(A_.T(recv0.stop), n_)))
                else:
                    stop = z3.IntVal(-1) if recv0.stop is None else z3.If(A_.T(recv0.stop) < 0, A_.Max(A_.T(recv0.stop) + n_, -1), A_.Min(A_.T(recv0.stop), n_ - 1))
                return (wrap(start), wrap(stop), step)
            raise Unsupported(f"method {fn.__name__} of a slice with symbolic members")
        if recv0 is not None and not isinstance(recv0, (dict, list, tuple, type)) and not callable(recv0) and has_symbolic(recv0) and not getattr(recv0, "_pyvc_ok", False):
            raise Unsupported(f"native method {getattr(fn, '__qualname__', fn)} of an object with symbolic members")
        if has_symbolic(args) or has_symbolic(kwargs):
            recv = getattr(fn, "__self__", None)
            if not (recv is not None and isinstance(recv, (dict, list)) and fn.__name__ in _CONTAINER_METHODS and not has_symbolic_shallow(args)):
                if not (getattr(fn, "__name__", "") in _CONTAINER_METHODS and recv is not None and isinstance(recv, (dict, list, tuple))):
                    raise Unsupported(f"native call {getattr(fn, '__qualname__', fn)} with symbolic arguments")
        try:
            return fn(*args, **kwargs)
        except (Unsupported, PathEnd, PyRaise):
            raise
        except Exception as e:     # a real Python exception of the program under analysis
            raise PyRaise(e)

    def bind_args(self, node, args, kwargs, defaults, kwdefaults, env):
        a = node.args
        params = [p.arg for p in a.posonlyargs + a.args]
        args = list(args)
        kwargs = dict(kwargs)
        n_def = len(defaults)
        for i, p in enumerate(params):
            if i < len(args):
                if p in kwargs:
                    raise PyRaise(TypeError(f"multiple values for argument {p}"))
                env.vars[p] = args[i]
            elif p in kwargs:
                env.vars[p] = kwargs.pop(p)
            else:
                di = i - (len(params) - n_def)
                if di < 0:
                    raise PyRaise(TypeError(f"missing argument {p}"))
                env.vars[p] = defaults[di]
        if len(args) > len(params):
            if a.vararg:
                env.vars[a.vararg.arg] = tuple(args[len(params):])
            else:
                raise PyRaise(TypeError("too many positional arguments"))
        elif a.vararg:
            env.vars[a.vararg.arg] = ()
        for p in a.kwonlyargs:
            if p.arg in kwargs:
                env.vars[p.arg] = kwargs.pop(p.arg)
            elif p.arg in kwdefaults:
                env.vars[p.arg] = kwdefaults[p.arg]
            else:
                raise PyRaise(TypeError(f"missing keyword argument {p.arg}"))
        if a.kwarg:
            env.vars[a.kwarg.arg] = kwargs
        elif kwargs:
            raise PyRaise(TypeError(f"unexpected keyword arguments {list(kwargs)}"))

    def call_ast(self, node, parent_env, filename, qualname, args, kwargs, defaults, kwdefaults):
        env = Env(parent_env, parent_env.globs, qualname=qualname, filename=filename)
        env.funcnode = node
        self.bind_args(node, args, kwargs, defaults, kwdefaults, env)
        prev_func = self.ctx.func
        self.ctx.func = qualname
        try:
            return self._call_body(node, env)
        finally:
            self.ctx.func = prev_func

    def _call_body(self, node, env):
        if isinstance(node, ast.Lambda):
            return self.eval(node.body, env)
        for n in ast.walk(node):
            if isinstance(n, ast.Nonlocal):
                env.nonlocals.update(n.names)
            elif isinstance(n, ast.Global):
                env.globals_decl.update(n.names)
        if _is_generator(node):
            return self.run_generator_call(node, env)
        self.call_depth += 1
        if self.call_depth > 40:
            raise Unsupported("call depth > 40")
        try:
            self.exec_block(node.body, env)
        except ReturnEx as r:
            return r.v
        finally:
            self.call_depth -= 1
        return None

    # ---------------- generators
    def run_generator_call(self, node, env):
        """generator function called from interpreted code with no summary: run eagerly if it terminates
        concretely; the yielded values are collected into a list (side effects on shared objects between
        yields would be reordered, so attribute stores in the body are refused)."""
        for n in ast.walk(node):
            if isinstance(n, (ast.Assign, ast.AugAssign)):
                tg = n.targets if isinstance(n, ast.Assign) else [n.target]
                for t in tg:
                    if isinstance(t, ast.Attribute):
                        raise Unsupported(f"generator {env.qualname} with attribute side effects needs a summary")
        gen = GenState()
        gen.values = []
        self.gen_stack.append(gen)
        try:
            self.exec_block(node.body, env)
        except ReturnEx:
            pass
        finally:
            self.gen_stack.pop()
        return gen.values

    # ---------------- statements
    def exec_block(self, stmts, env):
        for s in stmts:
            self.exec_stmt(s, env)

    def exec_stmt(self, s, env):
        self.ctx.lineno = getattr(s, "lineno", None)
        self.ctx.stmt_tag = _stmt_tag(s)
        m = getattr(self, "st_" + type(s).__name__, None)
        if m is None:
            raise Unsupported(f"statement {type(s).__name__} at {env.qualname}:{s.lineno}")
        return m(s, env)

    def st_Expr(self, s, env):
        v = s.value
        if isinstance(v, ast.Constant):
            return                                    # docstring
        if isinstance(v, ast.Call) and _call_root(v.func) in _SKIP_CALL_ROOTS:
            self.session.note_dropped(env.qualname, f"{_call_root(v.func)} call")
            self._eval_dropped_args(v, env)
            return
        self.eval(v, env)

    def st_Pass(self, s, env):
        pass

    def st_Assign(self, s, env):
        v = self.eval(s.value, env)
        for t in s.targets:
            self.assign(t, v, env)

    def st_AnnAssign(self, s, env):
        if s.value is not None:
            self.assign(s.target, self.eval(s.value, env), env)

    def st_AugAssign(self, s, env):
        opn = type(s.op).__name__
        t = s.target
        if isinstance(t, ast.Name):
            cur = env.lookup(t.id)
            v = self.eval(s.value, env)
            if isinstance(cur, SArr):
                # in place: result cast back to the array's dtype (same_kind casting enforced)
                r = ops.binop(opn, cur, v)
                _check_same_kind(r.dtype, cur.dtype)
                A.setitem(cur, tuple([slice(None)] * cur.ndim) if cur.ndim else (), r) if cur.ndim else env.assign(t.id, A.astype(r, cur.dtype))
            elif isinstance(cur, list) and opn == "Add":
                cur.extend(v)
            else:
                env.assign(t.id, ops.binop(opn, cur, v))
        elif isinstance(t, ast.Attribute):
            obj = self.eval(t.value, env)
            cur = self.getattr(obj, t.attr)
            v = self.eval(s.value, env)
            self.setattr(obj, t.attr, ops.binop(opn, cur, v))
        elif isinstance(t, ast.Subscript):
            obj = self.eval(t.value, env)
            idx = self.eval_index(t.slice, env)
            cur = self.subscript(obj, idx)
            v = self.eval(s.value, env)
            r = ops.binop(opn, cur, v)
            if isinstance(obj, SArr) and isinstance(r, SArr):
                _check_same_kind(r.dtype, obj.dtype)
            self.store_subscript(obj, idx, r)
        else:
            raise Unsupported("augmented assignment target")

    def st_Return(self, s, env):
        raise ReturnEx(self.eval(s.value, env) if s.value is not None else None)

    def st_Break(self, s, env):
        raise BreakEx()

    def st_Continue(self, s, env):
        raise ContinueEx()

    def st_Delete(self, s, env):
        for t in s.targets:
            if isinstance(t, ast.Name):
                env.vars.pop(t.id, None)
            else:
                raise Unsupported("del of non name")

    def st_Global(self, s, env):
        pass

    def st_Nonlocal(self, s, env):
        pass

    def st_Import(self, s, env):
        for a in s.names:
            try:
                mod = importlib.import_module(a.name)
                top = mod if a.asname else importlib.import_module(a.name.split(".")[0])
            except ImportError:
                top = OpaqueModule(a.name)
            env.assign(a.asname or a.name.split(".")[0], top)

    def st_ImportFrom(self, s, env):
        try:
            mod = importlib.import_module(("." * s.level) + (s.module or ""), package=env.globs.get("__package__"))
        except ImportError:
            mod = OpaqueModule(s.module)
        for a in s.names:
            env.assign(a.asname or a.name, getattr(mod, a.name))

    def st_FunctionDef(self, s, env):
        defaults = [self.eval(d, env) for d in s.args.defaults]
        kwd = {a.arg: self.eval(d, env) for a, d in zip(s.args.kwonlyargs, s.args.kw_defaults) if d is not None}
        if s.decorator_list:
            raise Unsupported("decorated nested function")
        env.assign(s.name, Closure(self, s, env, env.filename, (env.qualname + "." if env.qualname else "") + s.name, defaults, kwd))

    def st_If(self, s, env):
        if self.truth(self.eval(s.test, env)):
            self.exec_block(s.body, env)
        else:
            self.exec_block(s.orelse, env)

    def st_Assert(self, s, env):
        v = self.eval(s.test, env)
        if is_z3(v) or isinstance(v, SV):
            log = getattr(self.ctx, "assert_log", None)
            if log is not None:
                log.append((env.qualname, s.lineno, as_bool_term(v)))
            if getattr(self.session, "assert_mode", "safety") == "branch":
                # the assertion is part of the function's behaviour (a verification step that may fail)
                if self.truth(v):
                    return
                raise PyRaise(AssertionError(ast.unparse(s.test)), s.lineno)
            self.ctx.safety("assert", as_bool_term(v), f"assert at {env.qualname}:{s.lineno}")
            return
        if isinstance(v, SArr):
            raise Unsupported("assert on array")
        if not v:
            raise PyRaise(AssertionError(ast.unparse(s.test)), s.lineno)

    def st_Raise(self, s, env):
        if s.exc is None:
            cur = getattr(env, "handling", None)
            if cur is None:
                raise Unsupported("bare raise outside a handler of the same function")
            raise PyRaise(cur.exc, s.lineno)
        e = self.eval(s.exc, env)
        if isinstance(e, type):
            e = e()
        raise PyRaise(e, s.lineno)

    def st_With(self, s, env):
        mgrs = []
        for item in s.items:
            cm = self.eval(item.context_expr, env)
            enter = self.getattr(cm, "__enter__")
            v = self.call(enter, [], {})
            mgrs.append(cm)
            if item.optional_vars is not None:
                self.assign(item.optional_vars, v, env)
        try:
            self.exec_block(s.body, env)
        finally:
            for cm in reversed(mgrs):
                ex = self.getattr(cm, "__exit__")
                self.call(ex, [None, None, None], {})

    def st_Try(self, s, env):
        """try / except / else / finally over the exceptions the interpreted program raises (PyRaise).  Conditions the engine turns into safety
        obligations instead of raising (index in bounds, shapes, ...) cannot be caught by a handler here: a try body that generates such an
        obligation under a handler is outside the modelled subset."""
        def guarded():
            n0 = sum(1 for ob in self.session.obligations if ob.kind == "safety")
            try:
                self.exec_block(s.body, env)
            except PyRaise as e:
                if sum(1 for ob in self.session.obligations if ob.kind == "safety") != n0:
                    raise Unsupported(f"try/except at {env.qualname}:{s.lineno} around operations whose failure the engine states as obligations")
                for h in s.handlers:
                    if h.type is None:
                        match = True
                    else:
                        t = self.eval(h.type, env)
                        ts = t if isinstance(t, tuple) else (t,)
                        if not all(isinstance(x, type) for x in ts):
                            raise Unsupported(f"except clause with a non class at {env.qualname}:{h.lineno}")
                        match = isinstance(e.exc, ts)
                    if match:
                        if h.name:
                            env.vars[h.name] = e.exc
                        prev = getattr(env, "handling", None)
                        env.handling = e
                        try:
                            self.exec_block(h.body, env)
                        finally:
                            env.handling = prev
                        return
                raise
            else:
                if s.handlers and sum(1 for ob in self.session.obligations if ob.kind == "safety") != n0:
                    raise Unsupported(f"try/except at {env.qualname}:{s.lineno} around operations whose failure the engine states as obligations")
                self.exec_block(s.orelse, env)
        if s.finalbody:
            try:
                guarded()
            finally:
                self.exec_block(s.finalbody, env)
        else:
            guarded()

    # ---------------- loops
    def loop_spec(self, env, s):
        """ordinal = index of this loop among the loops of the enclosing function (same scope, source order)"""
        root = getattr(env, "funcnode", None)
        ordinal = None
        if root is not None:
            loops = [n for n in _walk_same_scope(root) if isinstance(n, (ast.While, ast.For))]
            loops.sort(key=lambda n: (n.lineno, n.col_offset))
            for i, n in enumerate(loops):
                if n is s or (n.lineno == s.lineno and n.col_offset == s.col_offset):
                    ordinal = i
        return self.session.loops.get((env.qualname, ordinal)), ordinal

    def st_While(self, s, env):
        spec, ordinal = self.loop_spec(env, s)
        if spec is None:
            # no invariant: only loops that terminate concretely may be executed by unrolling
            n = 0
            while True:
                c = self.eval(s.test, env)
                if is_z3(c) or isinstance(c, (SV, SArr)):
                    c2 = wrap(as_bool_term(c)) if not isinstance(c, SArr) else c
                    if not isinstance(c2, bool):
                        raise Unsupported(f"while loop without invariant at {env.qualname}:{s.lineno} (loop {ordinal})")
                    c = c2
                if not c:
                    self.exec_block(s.orelse, env)
                    return
                try:
                    self.exec_block(s.body, env)
                except BreakEx:
                    return
                except ContinueEx:
                    pass
                n += 1
                if n > 100000:
                    raise Unsupported("concrete while loop did not terminate within 100000 iterations")
        gen = self.gen_stack[-1] if self.gen_stack else None
        lid = f"{env.qualname}.loop{ordinal}"
        mods = _modified(s.body) | set(spec.havoc_extra)
        self._check_inv(spec, env, gen, None, lid + ".inv_init", "inv_init")
        self._havoc(env, mods, gen)
        self._assume_inv(spec, env, gen, None)
        v0 = term(spec.decreases(View(env, gen))) if spec.decreases else None
        c = self.eval(s.test, env)
        if self.truth(c):
            try:
                self.exec_block(s.body, env)
            except BreakEx:
                return
            except ContinueEx:
                pass
            self._check_inv(spec, env, gen, None, lid + ".inv_step", "inv_step")
            if v0 is not None:
                v1 = term(spec.decreases(View(env, gen)))
                self.ctx.oblige(lid + ".variant", z3.And(v0 > v1, v0 >= 0) if True else None, "variant")
            raise PathEnd()
        else:
            self.exec_block(s.orelse, env)

    def st_For(self, s, env):
        it = self.eval(s.iter, env)
        it = self.to_iterable(it, env)
        if not isinstance(it, SIter):
            broke = False
            for v in it:
                self.assign(s.target, v, env)
                try:
                    self.exec_block(s.body, env)
                except BreakEx:
                    broke = True
                    break
                except ContinueEx:
                    continue
            if not broke:
                self.exec_block(s.orelse, env)
            return
        spec, ordinal = self.loop_spec(env, s)
        no_spec = spec is None
        if spec is None:
            spec = LoopSpec()
        gen = self.gen_stack[-1] if self.gen_stack else None
        lid = f"{env.qualname}.loop{ordinal}"
        K = A.T(it.length)
        mods = _modified(s.body) | set(spec.havoc_extra) | _target_names(s.target)
        if no_spec and (mods - _target_names(s.target)):
            self._lossy_after = f"loop {ordinal} of {env.qualname} (line {s.lineno}) has no sidecar invariant: what it assigns ({', '.join(sorted(mods - _target_names(s.target))[:4])}) is unknown after it"
        else:
            self._lossy_after = None
        self._check_inv(spec, env, gen, z3.IntVal(0), lid + ".inv_init", "inv_init")
        self._havoc(env, mods, gen)
        j = z3.Int(fresh_name("j"))
        self.ctx.assume(z3.And(j >= 0, j <= K))
        self._assume_inv(spec, env, gen, j)
        if self.ctx.branch(j < K):
            if it.on_iter:
                it.on_iter(j)
            self.assign(s.target, it.item(j), env)
            try:
                self.exec_block(s.body, env)
            except BreakEx:
                return
            except ContinueEx:
                pass
            self._check_inv(spec, env, gen, j + 1, lid + ".inv_step", "inv_step")
            raise PathEnd()
        else:
            self.ctx.assume(j == K)
            env.vars["__loop_exit_j"] = j
            if getattr(self, "_lossy_after", None) and not self.ctx.lossy:
                self.ctx.lossy = self._lossy_after
            self.exec_block(s.orelse, env)

    def _inv_terms(self, spec, env, gen, j):
        if spec.invariant is None:
            return []
        try:
            r = spec.invariant(View(env, gen, j))
        except (NameError, AttributeError, KeyError) as e:
            # the sidecar invariant speaks about a local / attribute the (rewritten) code no longer has: nothing can be decided with it
            raise Unsupported(f"loop invariant of {env.qualname} refers to state the code does not have: {type(e).__name__} {e}")
        if r is None:
            return []
        if isinstance(r, (list, tuple)):
            return [term(x) for x in r]
        return [term(r)]

    def _check_inv(self, spec, env, gen, j, oid, kind):
        for i, t in enumerate(self._inv_terms(spec, env, gen, j)):
            self.ctx.oblige(f"{oid}.{i}", t, kind)

    def _assume_inv(self, spec, env, gen, j):
        for t in self._inv_terms(spec, env, gen, j):
            self.ctx.assume(t)

    def _havoc(self, env, mods, gen):
        for name in sorted(mods):
            if name.startswith("@gen"):
                continue
            if "." in name:
                base, attr = name.split(".", 1)
                try:
                    obj = env.lookup(base)
                except NameError:
                    continue
                if isinstance(obj, SObj) and attr in obj.attrs:
                    obj.attrs[attr] = havoc_value(obj.attrs[attr], name)
                elif isinstance(obj, SObj):
                    continue
                else:
                    raise Unsupported(f"loop modifies attribute {name} of a concrete object")
                continue
            if name.endswith("[]"):
                nm = name[:-2]
                try:
                    v = env.lookup(nm)
                except NameError:
                    continue
                if isinstance(v, SArr):
                    fresh = A.fresh_array(nm, v.dtype, v.shape)
                    if v.base is not None:
                        raise Unsupported("loop writes into a view")
                    v._elem = fresh._elem
                    v.facts_on_read = fresh.facts_on_read
                elif isinstance(v, (dict, list)):
                    raise Unsupported(f"loop mutates container {nm} (needs unrolling)")
                continue
            if name in env.vars:
                env.vars[name] = havoc_value(env.vars[name], name)
        if gen is not None:
            gen.k = z3.Int(fresh_name("k"))
            self.ctx.assume(gen.k >= 0)

    # ---------------- iteration protocol
    def to_iterable(self, it, env):
        if isinstance(it, SIter):
            return it
        if isinstance(it, GenObj):
            raise Unsupported("un-summarised generator object")
        if isinstance(it, SArr):
            n = it.shape[0]
            if isinstance(n, int) and n <= 64:
                return [self.subscript(it, k) for k in range(n)]
            return SIter(A.T(n), lambda j: self.subscript(it, SV(j)))
        if isinstance(it, SV):
            raise PyRaise(TypeError("symbolic scalar is not iterable"))
        return it

    # ---------------- assignment helpers
    def assign(self, t, v, env):
        if isinstance(t, ast.Name):
            env.assign(t.id, v)
        elif isinstance(t, (ast.Tuple, ast.List)):
            vals = self.unpack(v, len(t.elts))
            for e, x in zip(t.elts, vals):
                self.assign(e, x, env)
        elif isinstance(t, ast.Attribute):
            self.setattr(self.eval(t.value, env), t.attr, v)
        elif isinstance(t, ast.Subscript):
            obj = self.eval(t.value, env)
            self.store_subscript(obj, self.eval_index(t.slice, env), v)
        elif isinstance(t, ast.Starred):
            raise Unsupported("starred assignment")
        else:
            raise Unsupported(f"assignment target {type(t).__name__}")

    def unpack(self, v, n):
        if isinstance(v, SArr):
            if not isinstance(v.shape[0], int):
                raise Unsupported("unpacking an array of symbolic length")
            v = [self.subscript(v, k) for k in range(v.shape[0])]
        if isinstance(v, SV):
            raise PyRaise(TypeError("cannot unpack non-iterable scalar"))
        v = list(v)
        if len(v) != n:
            raise PyRaise(ValueError(f"expected {n} values to unpack, got {len(v)}"))
        return v

    def setattr(self, obj, name, v):
        if isinstance(obj, SObj):
            obj.attrs[name] = v
        elif isinstance(obj, SArr):
            raise Unsupported(f"setting attribute {name} on array")
        else:
            try:
                setattr(obj, name, v)
            except Exception as e:
                raise PyRaise(e)

    def store_subscript(self, obj, idx, v):
        if isinstance(obj, SArr):
            try:
                A.setitem(obj, idx, v)
            except (ValueError, IndexError, TypeError) as e:
                raise PyRaise(e)
            return
        if isinstance(obj, np.ndarray) and (has_symbolic(idx) or has_symbolic(v)):
            raise Unsupported("symbolic store into a concrete ndarray (lift it first)")
        if has_symbolic(idx) and isinstance(obj, (list, dict)):
            raise Unsupported("symbolic index store into list/dict")
        try:
            obj[idx] = v
        except (Unsupported, PathEnd):
            raise
        except Exception as e:
            raise PyRaise(e)

    # ---------------- attribute access
    def getattr(self, obj, name):
        from . import models
        if isinstance(obj, SObj):
            if name in obj.attrs:
                return obj.attrs[name]
            cls = obj.cls
            if cls is None:
                raise PyRaise(AttributeError(name))
            for k in cls.__mro__:
                if name in k.__dict__:
                    d = k.__dict__[name]
                    if isinstance(d, property):
                        return self.call(d.fget, [obj], {})
                    if isinstance(d, types.FunctionType):
                        return BoundMethod(obj, d)
                    if isinstance(d, (classmethod, staticmethod)):
                        raise Unsupported("classmethod/staticmethod on symbolic object")
                    return d
            dflt = _init_constant(cls, name)
            if dflt is not _NO_DEFAULT:
                # an attribute the harness object was not given but the class' own __init__ sets to a literal (a cache slot, a flag):
                # the object is taken in that initial state (a reachable state: what is derived from it holds for fresh objects)
                obj.attrs[name] = dflt
                return dflt
            raise PyRaise(AttributeError(f"{cls.__name__} object has no attribute {name}"))
        if isinstance(obj, (SArr, SV)):
            return models.sym_attr(self, obj, name)
        if isinstance(obj, OpaqueModule):
            return getattr(obj, name)
        try:
            return getattr(obj, name)
        except AttributeError as e:
            raise PyRaise(e)

    # ---------------- subscripts
    def eval_index(self, node, env):
        if isinstance(node, ast.Tuple):
            return tuple(self.eval_index(e, env) for e in node.elts)
        if isinstance(node, ast.Slice):
            return slice(self.eval(node.lower, env) if node.lower else None,
                         self.eval(node.upper, env) if node.upper else None,
                         self.eval(node.step, env) if node.step else None)
        return self.eval(node, env)

    def subscript(self, obj, idx):
        from . import models
        h = models.subscript_hook(obj)
        if h is not None:
            return h(self, obj, idx)
        if isinstance(obj, SArr):
            try:
                r = A.getitem(obj, idx)
            except (ValueError, IndexError, TypeError) as e:
                raise PyRaise(e)
            return _unbox0(r)
        if isinstance(obj, SObj):
            gi = self.getattr(obj, "__getitem__")
            return self.call(gi, [idx], {})
        if getattr(obj, "_pyvc_ok", False) and hasattr(obj, "__getitem__"):
            return obj[idx]
        if isinstance(obj, np.ndarray) and has_symbolic(idx):
            return _unbox0(A.getitem(A.as_sarr(obj), idx))
        if isinstance(obj, (list, tuple)) and has_symbolic(idx):
            return self.seq_index(obj, idx)
        if has_symbolic(idx):
            raise Unsupported(f"symbolic subscript into {type(obj).__name__}")
        try:
            return obj[idx]
        except (Unsupported, PathEnd):
            raise
        except Exception as e:
            raise PyRaise(e)

    def seq_index(self, seq, idx):
        n = len(seq)
        if isinstance(idx, slice):
            raise Unsupported("symbolic slice of a python sequence")
        i = term(idx)
        i = z3.If(i < 0, i + n, i)
        self.ctx.safety("index.in_bounds", z3.And(i >= 0, i < n), "sequence index")
        # case split (n is concrete and small)
        for k in range(n - 1):
            if self.ctx.branch(i == k):
                return seq[k]
        return seq[n - 1]

    # ---------------- truth
    def truth(self, v):
        if isinstance(v, SV) or is_z3(v):
            return self.ctx.branch(as_bool_term(v))
        if isinstance(v, SArr):
            if v.ndim == 0:
                return self.ctx.branch(as_bool_term(SV(A.cast_term(v.dtype, bool, v.read(())))))
            sz = v.size
            if isinstance(sz, int):
                if sz == 1:
                    return self.ctx.branch(A.cast_term(v.dtype, bool, v.read(tuple(z3.IntVal(0) for _ in v.shape))))
                raise PyRaise(ValueError("The truth value of an array with more than one element is ambiguous"))
            raise Unsupported("truth value of an array of symbolic size")
        if isinstance(v, SObj):
            return True
        try:
            return bool(v)
        except Exception as e:
            raise PyRaise(e)

    # ---------------- expressions
    def eval(self, e, env):
        m = getattr(self, "ex_" + type(e).__name__, None)
        if m is None:
            raise Unsupported(f"expression {type(e).__name__} at {env.qualname}:{getattr(e, 'lineno', '?')}")
        return m(e, env)

    def ex_Constant(self, e, env):
        return e.value

    def ex_Name(self, e, env):
        try:
            return env.lookup(e.id)
        except NameError as ex:
            raise PyRaise(ex)

    def ex_Attribute(self, e, env):
        return self.getattr(self.eval(e.value, env), e.attr)

    def ex_Subscript(self, e, env):
        return self.subscript(self.eval(e.value, env), self.eval_index(e.slice, env))

    def ex_Slice(self, e, env):
        return self.eval_index(e, env)

    def ex_Tuple(self, e, env):
        return tuple(self._elts(e.elts, env))

    def ex_List(self, e, env):
        return list(self._elts(e.elts, env))

    def ex_Set(self, e, env):
        return set(self._elts(e.elts, env))

    def _elts(self, elts, env):
        out = []
        for x in elts:
            if isinstance(x, ast.Starred):
                out.extend(list(self.to_list(self.eval(x.value, env))))
            else:
                out.append(self.eval(x, env))
        return out

    def to_list(self, v):
        if isinstance(v, SArr):
            if not isinstance(v.shape[0], int):
                raise Unsupported("expanding an array of symbolic length")
            return [self.subscript(v, k) for k in range(v.shape[0])]
        if isinstance(v, SIter):
            raise Unsupported("expanding a symbolic iterable")
        return list(v)

    def ex_Dict(self, e, env):
        d = {}
        for k, v in zip(e.keys, e.values):
            if k is None:
                d.update(self.eval(v, env))
            else:
                d[self.eval(k, env)] = self.eval(v, env)
        return d

    def ex_BinOp(self, e, env):
        a = self.eval(e.left, env)
        b = self.eval(e.right, env)
        return self.binop(type(e.op).__name__, a, b)

    def binop(self, opn, a, b):
        try:
            return ops.binop(opn, a, b)
        except (ValueError, TypeError, ZeroDivisionError) as ex:
            raise PyRaise(ex)

    def ex_UnaryOp(self, e, env):
        v = self.eval(e.operand, env)
        if isinstance(e.op, ast.Not):
            if isinstance(v, (SV, SArr)) or is_z3(v):
                if isinstance(v, SArr):
                    return not self.truth(v)
                return wrap(z3.Not(as_bool_term(v)))
            return not v
        try:
            return ops.unop(type(e.op).__name__, v)
        except (ValueError, TypeError) as ex:
            raise PyRaise(ex)

    def ex_BoolOp(self, e, env):
        is_and = isinstance(e.op, ast.And)
        v = None
        for i, x in enumerate(e.values):
            v = self.eval(x, env)
            if i == len(e.values) - 1:
                return v
            t = self.truth(v)
            if is_and and not t:
                return v
            if not is_and and t:
                return v
        return v

    def ex_Compare(self, e, env):
        left = self.eval(e.left, env)
        result = True
        for op, c in zip(e.ops, e.comparators):
            right = self.eval(c, env)
            try:
                r = ops.compare(type(op).__name__, left, right)
            except (ValueError, TypeError) as ex:
                raise PyRaise(ex)
            if len(e.ops) == 1:
                return r
            if not self.truth(r):
                return False
            left = right
        return result

    def ex_IfExp(self, e, env):
        if self.truth(self.eval(e.test, env)):
            return self.eval(e.body, env)
        return self.eval(e.orelse, env)

    def ex_Lambda(self, e, env):
        defaults = [self.eval(d, env) for d in e.args.defaults]
        kwd = {a.arg: self.eval(d, env) for a, d in zip(e.args.kwonlyargs, e.args.kw_defaults) if d is not None}
        return Closure(self, e, env, env.filename, env.qualname + ".<lambda>", defaults, kwd)

    def ex_JoinedStr(self, e, env):
        parts = []
        symbolic = False
        for v in e.values:
            if isinstance(v, ast.Constant):
                parts.append(v.value)
            else:
                x = self.eval(v.value, env)
                from .models import SymStr as _SymStr
                if isinstance(x, _SymStr) and v.format_spec is None and v.conversion in (-1, 115):
                    symbolic = True
                    parts.extend(x.parts)
                    continue
                if isinstance(x, (SV, _SymStr)) and v.format_spec is not None:
                    symbolic = True
                    parts.append(("format", self.eval(v.format_spec, env), x))      # a value under a format specification: another text than str(value)
                    continue
                if isinstance(x, (SV, SArr, SObj)):
                    # constructor term of the string (A-STR-FREE): literal pieces and the symbolic values formatted into it, in order
                    symbolic = True
                    parts.append(x if (isinstance(x, SV) and v.format_spec is None and v.conversion == -1) else "<sym>")
                    continue
                spec = ""
                if v.format_spec is not None:
                    spec = self.eval(v.format_spec, env)
                if v.conversion == 114:
                    x = repr(x)
                elif v.conversion == 115:
                    x = str(x)
                parts.append(format(x, spec))
        if symbolic:
            from .models import SymStr
            return SymStr(parts)
        return "".join(parts)

    def ex_FormattedValue(self, e, env):
        return self.ex_JoinedStr(ast.JoinedStr(values=[e]), env)

    def _eval_dropped_args(self, call, env):
        """the call itself (logging / print) is dropped, but Python evaluates its arguments first and they can raise (a missing
        metadata key inside an f-string): they are evaluated for that effect; whatever the interpreter cannot evaluate is skipped"""
        for a in list(call.args) + [k.value for k in call.keywords]:
            try:
                self.eval(a.value if isinstance(a, ast.Starred) else a, env)
            except Unsupported:
                pass

    def ex_Starred(self, e, env):
        raise Unsupported("starred expression")

    def ex_Call(self, e, env):
        root = _call_root(e.func)
        if root in _SKIP_CALL_ROOTS:
            self.session.note_dropped(env.qualname, f"{root} call")
            self._eval_dropped_args(e, env)
            return None
        fn = self.eval(e.func, env)
        if fn is builtins.eval and len(e.args) == 1 and not e.keywords:
            # eval of a concrete expression string: parsed and evaluated in the current scope by this interpreter
            src = self.eval(e.args[0], env)
            if not isinstance(src, str):
                raise Unsupported("eval of a non constant string")
            return self.eval(ast.parse(src, mode="eval").body, env)
        args = []
        for a in e.args:
            if isinstance(a, ast.Starred):
                args.extend(self.to_list(self.eval(a.value, env)))
            else:
                args.append(self.eval(a, env))
        kwargs = {}
        for k in e.keywords:
            if k.arg is None:
                kwargs.update(self.eval(k.value, env))
            else:
                kwargs[k.arg] = self.eval(k.value, env)
        self.ctx.lineno = e.lineno
        return self.call(fn, args, kwargs)

    def ex_Yield(self, e, env):
        if not self.gen_stack:
            raise Unsupported("yield outside generator mode")
        gen = self.gen_stack[-1]
        v = self.eval(e.value, env) if e.value is not None else None
        if hasattr(gen, "values"):
            gen.values.append(v)
            return None
        self.session.on_yield(self, gen, v, env)
        return None

    def _comp(self, e, env, kind):
        out = [] if kind != "dict" else {}
        cenv = Env(env, env.globs, qualname=env.qualname, filename=env.filename)

        def rec(gi):
            if gi == len(e.generators):
                if kind == "dict":
                    out[self.eval(e.key, cenv)] = self.eval(e.value, cenv)
                else:
                    out.append(self.eval(e.elt, cenv))
                return
            g = e.generators[gi]
            it = self.to_iterable(self.eval(g.iter, cenv), cenv)
            if isinstance(it, SIter):
                raise _SymComp(it, g)
            for v in it:
                self.assign(g.target, v, cenv)
                if all(self.truth(self.eval(c, cenv)) for c in g.ifs):
                    rec(gi + 1)
        try:
            rec(0)
        except _SymComp as sc:
            if len(e.generators) != 1 or sc.gen.ifs or kind == "dict":
                raise Unsupported("comprehension over a symbolic iterable with filters / nesting")
            it = sc.it
            j = z3.Int(fresh_name("cj"))
            npaths = len(self.ctx.decisions_taken())
            self.ctx.assume(z3.And(j >= 0, j < A.T(it.length))) if False else None
            self.assign(sc.gen.target, it.item(j), cenv)
            before = self.ctx.n_branches
            v = self.eval(e.elt, cenv)
            if self.ctx.n_branches != before:
                raise Unsupported("branching inside a comprehension over a symbolic iterable")
            t = term(v)
            dt = np.dtype(bool) if z3.is_bool(t) else np.dtype("int64") if z3.is_int(t) else np.dtype("float64")
            return SArr(dt, (A.dim(it.length),), lambda idx: z3.substitute(t, (j, idx[0])))
        return out

    def ex_ListComp(self, e, env):
        return self._comp(e, env, "list")

    def ex_GeneratorExp(self, e, env):
        return self._comp(e, env, "list")

    def ex_SetComp(self, e, env):
        return set(self._comp(e, env, "list"))

    def ex_DictComp(self, e, env):
        return self._comp(e, env, "dict")

    def ex_NamedExpr(self, e, env):
        v = self.eval(e.value, env)
        self.assign(e.target, v, env)
        return v


class _SymComp(Exception):
    def __init__(self, it, gen):
        self.it, self.gen = it, gen


class OpaqueModule:
    """module that is not installed (pyfftw, cupy): attribute access yields opaque callables"""

    def __init__(self, name):
        self._name = name

    def __getattr__(self, k):
        return OpaqueCallable(f"{self._name}.{k}")


class OpaqueCallable:
    def __init__(self, name):
        self.name = name

    def __call__(self, *a, **k):
        raise Unsupported(f"call of {self.name} (module not available, no model)")


# ----------------------------------------------------------------------------- helpers
_CONTAINER_METHODS = {"get", "keys", "values", "items", "pop", "append", "extend", "copy", "update", "setdefault", "insert", "clear"}


_TAGS = {}


def _stmt_tag(s):
    """stable identifier of a statement for obligation ids: a short hash of its own source text (headers only for compound
    statements), so that ids survive line shifts and edits elsewhere in the file"""
    k = id(s)
    t = _TAGS.get(k)
    if t is None:
        import hashlib
        if isinstance(s, (ast.If, ast.While)):
            text = type(s).__name__ + " " + ast.unparse(s.test)
        elif isinstance(s, ast.For):
            text = "For " + ast.unparse(s.target) + " in " + ast.unparse(s.iter)
        elif isinstance(s, ast.With):
            text = "With " + ", ".join(ast.unparse(i) for i in s.items)
        elif isinstance(s, (ast.FunctionDef, ast.ClassDef)):
            text = type(s).__name__ + " " + s.name
        else:
            text = ast.unparse(s)
        t = _TAGS[k] = (s, hashlib.sha1(text.encode()).hexdigest()[:6])
    return t[1]


def _term_size(t, cap):
    n = 0
    todo = [t]
    while todo and n < cap:
        x = todo.pop()
        n += 1
        todo.extend(x.children())
    return n


def _unbox0(r):
    if isinstance(r, SArr) and r.ndim == 0:
        t = r.read(())
        return wrap(t)
    return r


def _check_same_kind(src, dst):
    if not np.can_cast(src, dst, casting="same_kind"):
        raise PyRaise(TypeError(f"Cannot cast ufunc output from {src} to {dst} with casting rule 'same_kind'"))


def _call_root(f):
    while isinstance(f, ast.Attribute):
        f = f.value
    if isinstance(f, ast.Name):
        return f.id
    if isinstance(f, ast.Call):
        return _call_root(f.func)
    return None


def _is_generator(node):
    for n in _walk_same_scope(node):
        if isinstance(n, (ast.Yield, ast.YieldFrom)):
            return True
    return False


def _walk_same_scope(node):
    todo = list(ast.iter_child_nodes(node))
    while todo:
        n = todo.pop()
        yield n
        if isinstance(n, (ast.FunctionDef, ast.Lambda, ast.ClassDef, ast.AsyncFunctionDef)):
            continue
        todo.extend(ast.iter_child_nodes(n))


def _target_names(t):
    out = set()
    for n in ast.walk(t):
        if isinstance(n, ast.Name):
            out.add(n.id)
    return out


def _modified(stmts):
    """names / self-attributes / arrays written by a block (syntactic over-approximation)"""
    out = set()
    for s in stmts:
        for n in ast.walk(s):
            tg = []
            if isinstance(n, ast.Assign):
                tg = n.targets
            elif isinstance(n, (ast.AugAssign, ast.AnnAssign)):
                tg = [n.target]
            elif isinstance(n, (ast.For, ast.comprehension)):
                tg = [n.target]
            elif isinstance(n, ast.NamedExpr):
                tg = [n.target]
            elif isinstance(n, (ast.With,)):
                tg = [i.optional_vars for i in n.items if i.optional_vars is not None]
            elif isinstance(n, ast.FunctionDef):
                out.add(n.name)
            for t in tg:
                for m in ast.walk(t):
                    if isinstance(m, ast.Name) and isinstance(m.ctx, ast.Store):
                        out.add(m.id)
                    elif isinstance(m, ast.Attribute) and isinstance(m.ctx, ast.Store) and isinstance(m.value, ast.Name):
                        out.add(f"{m.value.id}.{m.attr}")
                    elif isinstance(m, ast.Subscript) and isinstance(m.ctx, ast.Store):
                        b = m.value
                        if isinstance(b, ast.Name):
                            out.add(b.id + "[]")
                        elif isinstance(b, ast.Attribute) and isinstance(b.value, ast.Name):
                            out.add(f"{b.value.id}.{b.attr}")
    return out


class Poison:
    """value of a non numeric local after a loop that reassigns it (unknown)"""

    def __init__(self, name, tname):
        self.name, self.tname = name, tname

    def __repr__(self):
        return f"<unknown {self.tname} {self.name} after a loop>"

    __hash__ = None


def havoc_value(v, name):
    if isinstance(v, bool):
        return SV(z3.Bool(fresh_name(name)))
    if isinstance(v, (int, np.integer)):
        return SV(z3.Int(fresh_name(name)))
    if isinstance(v, (float, np.floating)):
        return SV(z3.Real(fresh_name(name)))
    if isinstance(v, SV):
        return SV(z3.Const(fresh_name(name), v.t.sort()))
    if isinstance(v, SArr):
        return A.fresh_array(name, v.dtype, v.shape)
    if v is None:
        return None
    if isinstance(v, (str, slice, tuple)) and not has_symbolic(v):
        # its value after the loop is unknown: a poison object - harmless when the code assigns the name again before reading it,
        # and any use of it ends the harness as undecided (TypeError / KeyError on a harness object), never as a verdict
        return Poison(name, type(v).__name__)
    raise Unsupported(f"no havoc rule for {name}: {type(v).__name__}")


def has_symbolic(x, depth=0):
    if isinstance(x, (SV, SArr, SObj, SIter, GenObj)) or is_z3(x):
        return True
    if getattr(x, "_pyvc_ok", False) and not isinstance(x, type):
        return True       # ghost objects of the engine: code handling them must be interpreted, not run natively
    if depth > 4:
        return False
    if isinstance(x, (list, tuple, set, frozenset)):
        return any(has_symbolic(e, depth + 1) for e in x)
    if isinstance(x, dict):
        return any(has_symbolic(e, depth + 1) for e in x.values())
    if isinstance(x, slice):
        return has_symbolic((x.start, x.stop, x.step), depth + 1)
    if isinstance(x, Closure):
        return False
    return False


def has_symbolic_shallow(x):
    return any(isinstance(e, (SV, SArr)) or is_z3(e) for e in x)
