"""check Cxx [--tier quick|thorough] [--only NAME] [--replay FILE] [-v]"""
import argparse
import json
import os
import sys

VERIF = os.path.dirname(os.path.dirname(os.path.abspath(__file__)))


def main(argv=None):
    ap = argparse.ArgumentParser()
    ap.add_argument("pid")
    ap.add_argument("--tier", default=os.environ.get("VERIF_TIER", "quick"))
    ap.add_argument("--only", default=None)
    ap.add_argument("--replay", default=None)
    ap.add_argument("-v", "--verbose", action="store_true")
    ap.add_argument("--jobs", type=int, default=None)
    a = ap.parse_args(argv)
    os.environ.setdefault("TQDM_DISABLE", "1")
    import logging
    logging.disable(logging.WARNING)       # the library logs expected warnings (corrupt metadata, defaults) while being exercised
    import warnings
    warnings.filterwarnings("ignore")
    seed = int(os.environ.get("VERIF_SEED", "0") or 0)
    tier = a.tier if a.tier in ("quick", "thorough") else "quick"
    sys.path.insert(0, VERIF)
    sys.path.insert(0, os.path.join(os.environ.get("PYVC_REPO", "/repo"), "src"))
    sys.path.insert(0, os.path.join(VERIF, "shim"))
    from pyvc import api
    if a.replay:
        return replay(api, a.pid, a.replay)
    try:
        r = api.run_property(a.pid, tier, seed, a.only, a.jobs)
    except Exception:
        import traceback
        traceback.print_exc()
        print(f"CHECKER-ERROR property={a.pid}")
        return 3
    for o in r["obligations"]:
        if a.verbose or o["result"] not in ("proved",):
            print(f"  [{o['result']:13s}] {o['id']}  ({o.get('backend')}, {o.get('solver_s')}s, x{o.get('instances')})" + (f" model={o.get('model')}" if o.get("model") else ""))
    for b in r["bounded"]:
        print(f"  [bounded      ] {b['harness']}: {b.get('evaluations')} cases, {b.get('distinct_nontrivial')} distinct non-trivial, {len(b.get('violations', []))} failures, {b.get('wall_s')}s")
    for u in r["undecided"]:
        print(f"  UNDECIDED {u}")
    for h, e in r["errors"]:
        print(f"  ERROR in {h}:\n{e}")
    for line in r["lines"]:
        print(line)
    print(f"{a.pid}: {r['n_ok']}/{r['n_ob']} obligations discharged, {r['n_known']} known-finding, {len(r['undecided'])} undecided, "
          f"{len(r['violations'])} violations, level={r['level']}, {r['wall']:.1f}s")
    if r["violations"]:
        return 1
    if r["errors"]:
        return 3
    if r["n_ob"] == 0 and not r["bounded"] and not r["undecided"]:
        print("CHECKER-ERROR: zero obligations generated")
        return 3
    return 0


def replay(api, pid, path):
    import importlib
    with open(os.path.join(VERIF, path) if not os.path.isabs(path) else path) as f:
        v = json.load(f)
    importlib.import_module(f"contracts.{pid}")
    api.resolve_depends()
    name = v["obligation"].split(":")[0]
    for hn in api.REGISTRY[pid]["harness"]:
        if hn.name == name and hn.replay is not None:
            rr = hn.replay(dict(v["inputs"]), v["obligation"].split(":", 1)[1])
            print(json.dumps(rr, indent=1, default=str))
            return 1 if rr.get("failed") else 0
    print("no native replay available for this obligation; verifier output:")
    print(v.get("solver_model"))
    return 1


if __name__ == "__main__":
    sys.exit(main())
