"""Python / NumPy operators over concrete values, SV scalars and SArr arrays (real arithmetic for floats)."""
import operator

import numpy as np
import z3

from .core import SV, Unsupported, term, wrap, to_real, py_floordiv, py_mod, is_z3
from . import arrays as A
from .arrays import SArr

_PYOPS = {
    "Add": operator.add, "Sub": operator.sub, "Mult": operator.mul, "Div": operator.truediv,
    "FloorDiv": operator.floordiv, "Mod": operator.mod, "Pow": operator.pow,
    "BitAnd": operator.and_, "BitOr": operator.or_, "BitXor": operator.xor,
    "LShift": operator.lshift, "RShift": operator.rshift, "MatMult": operator.matmul,
}
_CMPOPS = {
    "Eq": operator.eq, "NotEq": operator.ne, "Lt": operator.lt, "LtE": operator.le,
    "Gt": operator.gt, "GtE": operator.ge,
}


def _sym(x, depth=0):
    if isinstance(x, (SV, SArr)) or is_z3(x):
        return True
    if depth < 3 and isinstance(x, (list, tuple)):
        return any(_sym(e, depth + 1) for e in x)
    return False


def scalar_binop(op, a, b):
    """a, b z3 terms (Int/Real/Bool)."""
    if z3.is_bool(a) and op in ("BitAnd", "BitOr", "BitXor") and z3.is_bool(b):
        return {"BitAnd": z3.And, "BitOr": z3.Or, "BitXor": z3.Xor}[op](a, b)
    if z3.is_bool(a):
        a = z3.If(a, z3.IntVal(1), z3.IntVal(0))
    if z3.is_bool(b):
        b = z3.If(b, z3.IntVal(1), z3.IntVal(0))
    both_int = z3.is_int(a) and z3.is_int(b)
    if op == "Div":
        a, b = to_real(a), z3.simplify(to_real(b))
        r = a / b
        if not z3.is_rational_value(b):
            # valid in the reals; spelled out because the solver does not cancel (a/b)*b by itself
            A.note_fact(z3.Implies(b != 0, r * b == a))
        return r
    if not both_int:
        a, b = to_real(a), to_real(b)
    if op == "Add":
        return a + b
    if op == "Sub":
        return a - b
    if op == "Mult":
        # (x / d) * d  ->  x   (exact in the reals; d != 0 or the division already raised)
        for p, q in ((a, b), (b, a)):
            if z3.is_app_of(p, z3.Z3_OP_DIV) and p.num_args() == 2 and z3.eq(p.arg(1), q):
                return p.arg(0)
        return a * b
    if op == "FloorDiv":
        if both_int:
            A.oblige("div.nonzero", b != 0, "integer division by zero")
            q = py_floordiv(a, b)
            if not z3.is_int_value(b):
                # definition of floor division for a symbolic divisor (the solver only knows it for literals)
                A.note_fact(z3.Implies(b > 0, z3.And(b * q <= a, a < b * q + b)), z3.Implies(b < 0, z3.And(b * q >= a, a > b * q + b)))
            return q
        return z3.ToReal(z3.ToInt(a / b))
    if op == "Mod":
        if both_int:
            A.oblige("div.nonzero", b != 0, "integer modulo by zero")
            return py_mod(a, b)
        q = z3.ToReal(z3.ToInt(a / b))
        return a - q * b
    if op == "Pow":
        if z3.is_int_value(b) or z3.is_rational_value(b):
            bv = b.as_long() if z3.is_int_value(b) else (b.numerator_as_long() if b.denominator_as_long() == 1 else None)
            if bv is not None and 0 <= bv <= 8:
                r = z3.IntVal(1) if both_int else z3.RealVal(1)
                for _ in range(bv):
                    r = r * a
                return r
        # general power: opaque (A-MATH): only congruence is used
        pw = z3.Function("pow!uf", z3.RealSort(), z3.RealSort(), z3.RealSort())
        return pw(to_real(a), to_real(b))
    if op in ("RShift", "LShift") and both_int:
        # x >> k == floor(x / 2^k), x << k == x * 2^k (Python / two's complement arithmetic shift); symbolic k in 0..63 by case split
        A.oblige("shift.non_negative", b >= 0, "negative shift count")

        def sh(k):
            return py_floordiv(a, z3.IntVal(2 ** k)) if op == "RShift" else a * z3.IntVal(2 ** k)
        bs = z3.simplify(b)
        if z3.is_int_value(bs):
            return sh(bs.as_long())
        r = sh(63)
        for k in range(62, -1, -1):
            r = z3.If(b == k, sh(k), r)
        return r
    if op in ("BitAnd", "BitOr", "BitXor") and both_int:
        for p, q in ((a, b), (b, a)):
            qs = z3.simplify(q)
            if op == "BitAnd" and z3.is_int_value(qs):
                m = qs.as_long()
                if m >= 0 and (m + 1) & m == 0:            # mask 2^k - 1: the low k bits = x mod 2^k (also for negative x, infinite two's complement)
                    return py_mod(p, z3.IntVal(m + 1))
                if m > 0 and m & (m - 1) == 0:             # a single bit
                    return py_mod(py_floordiv(p, z3.IntVal(m)), z3.IntVal(2)) * z3.IntVal(m)
        # general case: bit-blast 64 bits of the two's complement patterns is too heavy for the arithmetic solver
        raise Unsupported(f"bitwise {op} of two symbolic integers")
    raise Unsupported(f"scalar operator {op}")


class ComplexUnit:
    """the python literal 1j when it meets symbolic operands: arithmetic with it is opaque (complex sort)"""


def binop(op, a, b):
    if isinstance(a, complex) or isinstance(b, complex):
        other = b if isinstance(a, complex) else a
        if _sym(other):
            x = A.as_sarr(other)
            cdt = np.dtype("complex64") if x.dtype in (np.dtype("float32"), np.dtype("complex64")) else np.dtype("complex128")
            CS = A.sort_of(cdt)
            cst = z3.Const(f"c_lit_{complex(a if isinstance(a, complex) else b)}".replace(" ", ""), CS)
            lit = SArr(cdt, (), lambda idx: cst)
            return array_binop(op, lit, x) if isinstance(a, complex) else array_binop(op, x, lit)
    if getattr(a, "_pyvc_series", False):
        return a._bin(b, op)
    if getattr(b, "_pyvc_series", False):
        return b._bin(a, op, True)
    if not _sym(a) and not _sym(b):
        return _PYOPS[op](a, b)
    if isinstance(a, SArr) or isinstance(b, SArr) or isinstance(a, np.ndarray) or isinstance(b, np.ndarray) \
            or ((isinstance(a, list) or isinstance(b, list)) and False):
        return array_binop(op, a, b)
    if isinstance(a, (list, tuple)) or isinstance(b, (list, tuple)):
        if op == "Add" and isinstance(a, (list, tuple)) and type(a) is type(b):
            return a + b
        if op == "Mult":
            raise Unsupported("sequence repetition with symbolic count")
        raise Unsupported(f"operator {op} on sequence and symbolic value")
    return wrap(scalar_binop(op, term(a), term(b)))


def _weak(x):
    return isinstance(x, (bool, int, float, SV)) or is_z3(x)


def array_binop(op, a, b):
    if op == "MatMult":
        from . import models          # a @ b is np.matmul(a, b)
        r = models._matmul(None, [a, b], {})
        if r is NotImplemented:
            raise Unsupported("matmul with symbolic operands")
        models.USED.add("matmul")
        return r
    aa, bb = A.as_sarr(a), A.as_sarr(b)
    wa, wb = _weak(a), _weak(b)
    # NEP 50: python scalars are weak
    if wa and not wb:
        dt = np.result_type(bb.dtype, _pytype(a))
    elif wb and not wa:
        dt = np.result_type(aa.dtype, _pytype(b))
    else:
        dt = np.result_type(aa.dtype, bb.dtype)
    if op == "Div":
        dt = np.result_type(dt, np.float32) if dt.kind in "f" else np.dtype("float64")
    if dt.kind == "b" and op in ("Add", "Mult"):
        # bool + bool -> logical or / and
        fn = (lambda x, y: z3.Or(x, y)) if op == "Add" else (lambda x, y: z3.And(x, y))
        return A.ewise(fn, dt, aa, bb)
    if dt.kind == "c":
        # complex arithmetic is opaque: uninterpreted operations over an uninterpreted sort (congruence only)
        CS = A.sort_of(dt)
        opf = z3.Function(f"c{op}!uf", CS, CS, CS)

        def lift(src, t):
            if np.dtype(src).kind == "c":
                return t
            return z3.Function("c_of_real!uf", z3.RealSort(), CS)(to_real(A.cast_term(src, "float64", t)))
        return A.ewise(lambda x, y: opf(lift(aa.dtype, x), lift(bb.dtype, y)), dt, aa, bb)
    # rounding-error model (A-FPSTD) keyed per operation instance: one error function per call site execution
    errf = {}

    def fn(idx, x, y):
        x = A.cast_term(aa.dtype, dt, x) if op not in ("BitAnd", "BitOr", "BitXor") or dt.kind != "b" else x
        y = A.cast_term(bb.dtype, dt, y) if op not in ("BitAnd", "BitOr", "BitXor") or dt.kind != "b" else y
        r = scalar_binop(op, x, y)
        if op == "Div" and dt.kind == "f" and not z3.is_rational_value(z3.simplify(y)):
            # array division does not raise: 0 / 0 is NaN (x / 0 for x != 0 is an infinity: not modelled, left unconstrained = any real)
            from .core import NAN
            r = z3.If(z3.And(y == 0, x == 0), NAN, r)
        if dt.kind in "iu" and (dt.itemsize < 8 or dt.kind == "u") and op in ("Add", "Sub", "Mult"):
            # signed 64-bit integers are treated as mathematical integers (A-INT64: indices / counts never reach 2^63);
            # unsigned 64-bit arithmetic wraps at 0 (a - b with a < b), which ordinary sample counts do reach: modelled exactly
            lo, hi = A.int_range(dt)
            m = hi - lo + 1
            r = ((r - lo) % m) + lo
        if A.FP_ERR[0] and dt == np.dtype("float32") and op in ("Add", "Sub", "Mult", "Div"):
            one = z3.RealVal(1)
            exact = (op in ("Mult", "Div") and (z3.eq(z3.simplify(y), one) or (op == "Mult" and z3.eq(z3.simplify(x), one))))
            if not exact:
                if "f" not in errf:
                    errf["f"] = z3.Function(A.fresh_name("fl32err"), *([z3.IntSort()] * len(idx)), z3.RealSort()) if idx else z3.Const(A.fresh_name("fl32err"), z3.RealSort())
                d = errf["f"](*idx) if idx else errf["f"]
                A.note_fact(d >= -A.U32, d <= A.U32)
                # a factor that is exactly 1 makes the operation exact
                r = z3.If(z3.Or(y == 1, x == 1) if op == "Mult" else (y == 1 if op == "Div" else z3.BoolVal(False)), r, r * (1 + d))
        return r
    return A.ewise(fn, dt, aa, bb, with_idx=True)


def _pytype(x):
    """a representative python scalar (NEP 50 weak promotion needs the value, not the type)"""
    if isinstance(x, SV):
        return False if x.is_bool else 0 if x.is_int else 0.0
    if is_z3(x):
        return False if z3.is_bool(x) else 0 if z3.is_int(x) else 0.0
    return type(x)(0) if isinstance(x, (bool, int, float)) else x


def unop(op, a):
    if not _sym(a):
        return {"USub": operator.neg, "UAdd": operator.pos, "Not": operator.not_, "Invert": operator.invert}[op](a)
    if isinstance(a, SArr):
        if op == "USub":
            if a.dtype.kind == "b":
                raise TypeError("The numpy boolean negative, the `-` operator, is not supported")
            def neg(x):
                r = -x
                if a.dtype.kind in "iu" and (a.dtype.itemsize < 8 or a.dtype.kind == "u"):
                    lo, hi = A.int_range(a.dtype)
                    r = ((r - lo) % (hi - lo + 1)) + lo
                return r
            return A.ewise(neg, a.dtype, a)
        if op == "UAdd":
            return a.copy()
        if op == "Invert":
            if a.dtype.kind == "b":
                return A.ewise(lambda x: z3.Not(x), a.dtype, a)
            return A.ewise(lambda x: -x - 1, a.dtype, a)
        raise Unsupported(f"unary {op} on array")
    t = term(a)
    if op == "USub":
        if z3.is_bool(t):
            t = z3.If(t, z3.IntVal(1), z3.IntVal(0))
        return wrap(-t)
    if op == "UAdd":
        return wrap(t)
    if op == "Invert":
        if z3.is_bool(t):
            t = z3.If(t, z3.IntVal(1), z3.IntVal(0))
        if z3.is_int(t):
            return wrap(-t - 1)
        raise TypeError("bad operand type for unary ~")
    raise Unsupported(f"unary {op}")


def scalar_compare(op, a, b):
    if z3.is_bool(a) != z3.is_bool(b):
        if z3.is_bool(a):
            a = z3.If(a, z3.IntVal(1), z3.IntVal(0))
        else:
            b = z3.If(b, z3.IntVal(1), z3.IntVal(0))
    if z3.is_bool(a) and op in ("Eq", "NotEq"):
        return a == b if op == "Eq" else a != b
    if z3.is_bool(a):
        a = z3.If(a, z3.IntVal(1), z3.IntVal(0))
        b = z3.If(b, z3.IntVal(1), z3.IntVal(0))
    if z3.is_int(a) != z3.is_int(b):
        a, b = to_real(a), to_real(b)
    if a.sort() != b.sort():
        raise Unsupported("comparison of values of different sorts")
    return {"Eq": lambda: a == b, "NotEq": lambda: a != b, "Lt": lambda: a < b, "LtE": lambda: a <= b,
            "Gt": lambda: a > b, "GtE": lambda: a >= b}[op]()


def struct_isnan(t):
    """NaN-ness of a term as far as its If-structure shows it (the NaN token itself, or a branch that is)"""
    from .core import NAN
    if z3.eq(t, NAN):
        return z3.BoolVal(True)
    if z3.is_app_of(t, z3.Z3_OP_ITE):
        a, b = struct_isnan(t.arg(1)), struct_isnan(t.arg(2))
        if z3.is_false(a) and z3.is_false(b):
            return a
        return z3.If(t.arg(0), a, b)
    return z3.BoolVal(False)


def compare(op, a, b):
    if op in ("Is", "IsNot"):
        if _sym(a) or _sym(b):
            r = a is b
            if (a is None or b is None):
                r = False
            return r if op == "Is" else not r
        return (a is b) if op == "Is" else (a is not b)
    if op in ("In", "NotIn"):
        return contains(op, a, b)
    if not _sym(a) and not _sym(b):
        return _CMPOPS[op](a, b)
    if isinstance(a, (SArr, np.ndarray)) or isinstance(b, (SArr, np.ndarray)):
        aa, bb = A.as_sarr(a), A.as_sarr(b)
        dt = np.result_type(aa.dtype if not _weak(a) else bb.dtype, bb.dtype if not _weak(b) else aa.dtype)
        if _weak(a) and not _weak(b):
            dt = np.result_type(bb.dtype, _pytype(a))
        elif _weak(b) and not _weak(a):
            dt = np.result_type(aa.dtype, _pytype(b))
        # NumPy 2: an integer array compared with a Python int compares by value, also when the int is outside the array dtype's range
        wa = _weak(a) and not _weak(b) and dt.kind in "iu" and aa.dtype.kind in "iu"
        wb = _weak(b) and not _weak(a) and dt.kind in "iu" and bb.dtype.kind in "iu"

        def cmp(x, y):
            x = x if wa else A.cast_term(aa.dtype, dt, x)
            y = y if wb else A.cast_term(bb.dtype, dt, y)
            r = scalar_compare(op, x, y)
            n = z3.simplify(z3.Or(struct_isnan(x), struct_isnan(y)))
            if z3.is_false(n):
                return r
            # comparisons with NaN are False (True for !=)
            return z3.If(n, z3.BoolVal(op == "NotEq"), r)
        return A.ewise(cmp, np.dtype(bool), aa, bb)
    if a is None or b is None or isinstance(a, str) or isinstance(b, str):
        return op == "NotEq"
    if isinstance(a, (list, tuple)) or isinstance(b, (list, tuple)):
        if type(a) is not type(b) and not (isinstance(a, (list, tuple)) and isinstance(b, (list, tuple))):
            return op == "NotEq"
        if type(a) is not type(b):
            return op == "NotEq"
        if op not in ("Eq", "NotEq"):
            raise Unsupported("ordering of sequences with symbolic members")
        if len(a) != len(b):
            return op == "NotEq"
        conj = [term(compare("Eq", x, y)) if _sym(x) or _sym(y) else z3.BoolVal(bool(x == y)) for x, y in zip(a, b)]
        t = z3.And(*conj) if conj else z3.BoolVal(True)
        return wrap(t if op == "Eq" else z3.Not(t))
    return wrap(scalar_compare(op, term(a), term(b)))


def contains(op, a, b):
    neg = op == "NotIn"
    if isinstance(b, (dict, set, frozenset, str)) or (isinstance(b, (list, tuple)) and not _sym(a) and not any(_sym(x) for x in b)):
        if _sym(a):
            if isinstance(b, (list, tuple, set, frozenset)):
                t = z3.Or(*[term(compare("Eq", a, x)) for x in b if isinstance(x, (int, float, bool))]) if b else z3.BoolVal(False)
                return wrap(z3.Not(t) if neg else t)
            raise Unsupported("symbolic key membership")
        r = a in b
        return (not r) if neg else r
    if isinstance(b, (list, tuple)):
        t = z3.Or(*[term(compare("Eq", a, x)) for x in b]) if b else z3.BoolVal(False)
        return wrap(z3.Not(t) if neg else t)
    if hasattr(b, "__contains__") and not _sym(a) and not _sym(b):
        r = a in b
        return (not r) if neg else r
    raise Unsupported(f"membership test in {type(b).__name__}")
