#!/usr/bin/env python3
"""Regenerates MANIFEST.json from the table below (kept valid against /root/.vp/MANIFEST.schema.json)."""
import json, os, sys
HERE = os.path.dirname(os.path.dirname(os.path.abspath(__file__)))
TRUST = "engine semantics A-PY/A-NP-INDEX (kept honest by the CPython differential + seeded mutants), model axioms listed per evidence file"
CLAIMED = {
 "C17": dict(cat="proof", ref="DESIGN.md 4/C17",
   text="Every clause is a discharged obligation over the real AST of WindowGenerator: loop invariant with ghost yield sequence (cover, overlap, count, termination), "
        "generator contract used modularly by the valid/splicing/slice/tscale consumers, relational two-iteration obligation for splicing amplitudes; all (ns, nswin, overlap), no bound.",
   note="Float division/ceil in __init__ and tscale read as real arithmetic (A-REAL, sound below 2^52); Hann complement identity assumed (A-SCIPY; the code asserts it itself). "
        "A native box (bounded, not counted) cross-checks the engine against CPython.",
   tech="AST->z3 VC generation, Hoare loop invariants, generator contracts (deductive)"),
 "C11": dict(cat="proof", ref="DESIGN.md 4/C11",
   text="Reader.open (flat + compressed branch), ns, rl, shape and OnlineReader.ns executed symbolically for every file size, channel count, item size, rate and announced duration: "
        "memmap fits (no raise), ns == floor(bytes/frame), values are the file prefix, duration matches; the cached size of an online reader may be stale.",
   note="A-FS (np.memmap semantics), A-REAL (the binary64 round trip ns->fileTimeSecs->ns is only checked natively, bounded), A-MTSCOMP for the stream length.",
   tech="AST->z3 VC generation with a ghost file system (deductive)"),
 "C10": dict(cat="proof", ref="DESIGN.md 4/C10",
   text="split_sync proved for a word array of any length: line k == bit k of the word for k=0..15 (integer div/mod arithmetic, complete over all 65536 words), 1-D and (n,1) inputs; "
        "fronts/rises/falls: soundness, polarity, order and completeness of the returned indices for 1-D and 2-D inputs along either axis; read_sync digital layout through the reader.",
   note="A-ENDIAN (asserted natively), A-NP-SPEC for unpackbits / where / diff, A-REAL for analog thresholds. Re-writes of split_sync outside the modelled NumPy subset degrade to the exhaustive native check of all 65536 words (bounded tier).",
   tech="AST->z3 VC generation, index-function arrays, where() specification axioms (deductive)"),
 "C01": dict(cat="other", ref="DESIGN.md 4/C01",
   text="Reader.__getitem__/read/read_samples proved equal to NumPy indexing of the whole calibrated, geometry-ordered array for every selector shape (int, any slice incl. negative steps and out-of-range bounds, "
        "integer arrays) x every file size; raw_channel_order construction in __init__ against geometry_from_meta's contract; sync unscaled; file untouched. Level other: cbin path and dtype of 0-d results rest on the bounded native stand-in over all shipped metas.",
   note="A-NP-INDEX, A-REAL (which sample meets which gain; not float32 rounding), A-MTSCOMP. array x array selectors are outside the claim (outer vs point-wise not fixed by the statement). Known finding F-C01-1 (bare list index).",
   tech="AST->z3 VC generation with abstract selector index functions (deductive) + bounded native stand-in"),
 "C09": dict(cat="other", ref="DESIGN.md 4/C09",
   text="Derived quantities proved for every probe generation/stream with symbolic numeric fields and an abstract IMRO table of symbolic length: s2v*gain*maxint == range, 1 on sync, length == nSavedChans; nidq segments; type/fs/counts/sync indices. "
        "The textual read->write->read round trip is a bounded stand-in over a grammar-generated corpus + shipped files (string theories do not decide float()/repr()).",
   note="A-STR-FREE/A-SGLX (regex on imroTbl yields entries; split fields are the numbers). Known finding F-C09-1 (scalars < 1e-4).",
   tech="AST->z3 VC generation over a symbolic metadata record (deductive) + bounded round-trip stand-in"),
 "C08": dict(cat="other", ref="DESIGN.md 4/C08",
   text="geometry_from_meta proved for site tables of any length in both encodings: the sort is a bijection moving every key together, ordered by (shank,row,-col); rc<->xy inverse on the three grids; the two encodings agree; split shank == restriction of the parent. "
        "ADC tables and canonical layouts: exhaustive native enumeration of the finite configuration space.",
   note="A-NP-SPEC (lexsort, where), A-SGLX, map-string parsing summarised by contract. Known finding F-C08-1 (ADC delays for non-prefix channel subsets). History effects (caching across calls) only in the bounded stand-in (derives twice).",
   tech="AST->z3 VC generation with permutation/where specification axioms (deductive) + exhaustive enumeration of tables"),
}
NA = {
 "C19": "statistical recovery statement about a heuristic (cross-correlation + greedy matching); no contract over sync_timestamps decides it for all inputs - see DESIGN.md section 5",
}
PENDING = "contracts for this property are not yet committed in this revision of /verif (work in progress; see DESIGN.md section 4 for the plan)"
ALL = [f"C{i:02d}" for i in range(1, 21)]

def main():
    checks = []
    for pid in ALL:
        if pid in CLAIMED:
            c = CLAIMED[pid]
            checks.append({
                "property_id": pid,
                "quick_cmd": f"./check {pid} --tier quick",
                "thorough_cmd": f"./check {pid} --tier thorough",
                "evidence_file": f"evidence/{pid}.json",
                "replay_cmd_template": f"./check {pid} --replay {{path}}",
                "engine": "pyvc",
                "level_claimed": {"category": c["cat"], "text": c["text"], "design_ref": c["ref"]},
                "level_note": c["note"] + " Trusted base: " + TRUST,
                "technique": c["tech"],
            })
    na = [{"property_id": p, "reason": NA.get(p, PENDING)} for p in ALL if p not in CLAIMED]
    m = {
        "version": 1,
        "setup_cmd": "./setup.sh",
        "hooks": {"guard": "IBL_NEUROPIXEL_VERIF", "enable": "no source hooks: contracts are sidecar files under /verif/contracts and the engine reads /repo/src as text; the guard variable is exported by ./check but nothing in /repo reads it",
                  "baseline_off_cmd": "cd /repo && /venv/bin/python -m pytest -ra -q -p no:cacheprovider --timeout=900 --continue-on-collection-errors",
                  "source_commits": [], "add_only": True},
        "engines": [{"name": "pyvc", "path": "pyvc/", "serves_properties": sorted(CLAIMED),
                     "kind_free_text": "contract-based deductive verifier written for this task: symbolic execution of the real Python AST (re-read from /repo/src on every run), NumPy arrays as index functions, sidecar contracts/loop invariants, obligations discharged by z3 5.1 (cvc5 on unknown); bounded run-time-contract stand-ins are labelled and never counted as proved"}],
        "checks": checks,
        "not_applicable": na,
        "notes": "exit 0 held / 1 VIOLATION / 3 checker error; known findings in known_findings.json; fix: commits in /repo are listed there as fixed entries.",
    }
    with open(os.path.join(HERE, "MANIFEST.json"), "w") as f:
        json.dump(m, f, indent=1)
    try:
        import jsonschema
        jsonschema.validate(m, json.load(open("/root/.vp/MANIFEST.schema.json")))
        print("MANIFEST.json valid;", len(checks), "checks,", len(na), "not_applicable")
    except ImportError:
        print("written (jsonschema not available to validate)")

if __name__ == "__main__":
    main()
