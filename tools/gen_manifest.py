#!/usr/bin/env python3
"""Regenerates MANIFEST.json from the table below (kept valid against /root/.vp/MANIFEST.schema.json)."""
import json, os, sys
HERE = os.path.dirname(os.path.dirname(os.path.abspath(__file__)))
TRUST = "engine semantics A-PY/A-NP-INDEX (kept honest by the CPython differential + seeded mutants), model axioms listed per evidence file"
CLAIMED = {
 "C17": dict(cat="proof", ref="DESIGN.md 4/C17",
   text="Every clause is a discharged obligation over the real AST of WindowGenerator: loop invariant with ghost yield sequence (cover, overlap, count, termination), "
        "generator contract used modularly by the valid/splicing/slice/tscale consumers, relational two-iteration obligation for splicing amplitudes; all (ns, nswin, overlap), no bound.",
   note="Float division/ceil in __init__ and tscale read as real arithmetic (A-REAL, sound below 2^52); Hann complement identity assumed (A-SCIPY; the code asserts it itself). "
        "A native box (bounded, not counted) cross-checks the engine against CPython.",
   tech="AST->z3 VC generation, Hoare loop invariants, generator contracts (deductive)"),
}
NA = {
 "C19": "statistical recovery statement about a heuristic (cross-correlation + greedy matching); no contract over sync_timestamps decides it for all inputs - see DESIGN.md section 5",
}
PENDING = "contracts for this property are not yet committed in this revision of /verif (work in progress; see DESIGN.md section 4 for the plan)"
ALL = [f"C{i:02d}" for i in range(1, 21)]

def main():
    checks = []
    for pid in ALL:
        if pid in CLAIMED:
            c = CLAIMED[pid]
            checks.append({
                "property_id": pid,
                "quick_cmd": f"./check {pid} --tier quick",
                "thorough_cmd": f"./check {pid} --tier thorough",
                "evidence_file": f"evidence/{pid}.json",
                "replay_cmd_template": f"./check {pid} --replay {{path}}",
                "engine": "pyvc",
                "level_claimed": {"category": c["cat"], "text": c["text"], "design_ref": c["ref"]},
                "level_note": c["note"] + " Trusted base: " + TRUST,
                "technique": c["tech"],
            })
    na = [{"property_id": p, "reason": NA.get(p, PENDING)} for p in ALL if p not in CLAIMED]
    m = {
        "version": 1,
        "setup_cmd": "./setup.sh",
        "hooks": {"guard": "IBL_NEUROPIXEL_VERIF", "enable": "no source hooks: contracts are sidecar files under /verif/contracts and the engine reads /repo/src as text; the guard variable is exported by ./check but nothing in /repo reads it",
                  "baseline_off_cmd": "cd /repo && /venv/bin/python -m pytest -ra -q -p no:cacheprovider --timeout=900 --continue-on-collection-errors",
                  "source_commits": [], "add_only": True},
        "engines": [{"name": "pyvc", "path": "pyvc/", "serves_properties": sorted(CLAIMED),
                     "kind_free_text": "contract-based deductive verifier written for this task: symbolic execution of the real Python AST (re-read from /repo/src on every run), NumPy arrays as index functions, sidecar contracts/loop invariants, obligations discharged by z3 5.1 (cvc5 on unknown); bounded run-time-contract stand-ins are labelled and never counted as proved"}],
        "checks": checks,
        "not_applicable": na,
        "notes": "exit 0 held / 1 VIOLATION / 3 checker error; known findings in known_findings.json; fix: commits in /repo are listed there as fixed entries.",
    }
    with open(os.path.join(HERE, "MANIFEST.json"), "w") as f:
        json.dump(m, f, indent=1)
    try:
        import jsonschema
        jsonschema.validate(m, json.load(open("/root/.vp/MANIFEST.schema.json")))
        print("MANIFEST.json valid;", len(checks), "checks,", len(na), "not_applicable")
    except ImportError:
        print("written (jsonschema not available to validate)")

if __name__ == "__main__":
    main()
