#!/usr/bin/env python3
"""Regenerates MANIFEST.json from the table below (kept valid against /root/.vp/MANIFEST.schema.json)."""
import json, os, sys
HERE = os.path.dirname(os.path.dirname(os.path.abspath(__file__)))
TRUST = "engine semantics A-PY/A-NP-INDEX (kept honest by the CPython differential + seeded mutants), model axioms listed per evidence file"
CLAIMED = {
 "C17": dict(cat="proof", ref="DESIGN.md 4/C17",
   text="Every clause is a discharged obligation over the real AST of WindowGenerator: loop invariant with ghost yield sequence (cover, overlap, count, termination), "
        "generator contract used modularly by the valid/splicing/slice/tscale consumers, relational two-iteration obligation for splicing amplitudes; the same windows when another iteration over the same object runs between two yields (window counter havocked at every yield); all (ns, nswin, overlap), no bound.",
   note="Float division/ceil in __init__ and tscale read as real arithmetic (A-REAL, sound below 2^52); Hann complement identity assumed (A-SCIPY; the code asserts it itself). "
        "A native box (bounded, not counted) cross-checks the engine against CPython. F-C17-3 (nwin from the raw unsigned NumPy arguments) was repaired; number types other than python ints are exercised by the bounded stand-in.",
   tech="AST->z3 VC generation, Hoare loop invariants, generator contracts (deductive)"),
 "C11": dict(cat="proof", ref="DESIGN.md 4/C11",
   text="Reader.open (flat + compressed branch), ns, rl, shape and OnlineReader.ns executed symbolically for every file size, channel count, item size, rate and announced duration: "
        "memmap fits (no raise), ns == floor(bytes/frame), values are the file prefix, duration matches; the cached size of an online reader may be stale; both branches for both settings of ignore_warnings and any rate in the .ch header; the compressed stream is opened once, on the reader's own file, with the header handed to the constructor; a recording still being acquired (metadata without size / duration fields) opens (arguments of the dropped logging calls are evaluated: F-C11-2 found this way and repaired).",
   note="A-FS (np.memmap semantics), A-REAL (the binary64 round trip ns->fileTimeSecs->ns is only checked natively, bounded), A-MTSCOMP for the stream length.",
   tech="AST->z3 VC generation with a ghost file system (deductive)"),
 "C10": dict(cat="proof", ref="DESIGN.md 4/C10",
   text="split_sync proved for a word array of any length: line k == bit k of the word for k=0..15 (integer div/mod arithmetic, complete over all 65536 words), 1-D and (n,1) inputs; "
        "fronts/rises/falls: soundness, polarity, order and completeness of the returned indices for 1-D and 2-D inputs along either axis; read_sync through the reader: digital layout (imec, nidq) and "
        "analog lines thresholded per channel after removing that channel's own floor (1 and 2 analog sync channels, with 0..2 auxiliary analog channels saved before them), and thresholded as they are when the floor removal is switched off (floor_percentile 0 / False / None); re-checks C09's channel-index / nidq calibration contracts it rests on.",
   note="A-ENDIAN (asserted natively), A-NP-SPEC for unpackbits / where / diff, A-REAL for analog thresholds. Re-writes of split_sync outside the modelled NumPy subset degrade to the exhaustive native check of all 65536 words (bounded tier). F-C10-1 (0/1 lines held as boolean / unsigned arrays lost their polarity) was repaired; those containers are exercised by the bounded stand-in.",
   tech="AST->z3 VC generation, index-function arrays, where() specification axioms (deductive)"),
 "C01": dict(cat="other", ref="DESIGN.md 4/C01",
   text="Reader.__getitem__/read/read_samples proved equal to NumPy indexing of the whole calibrated, geometry-ordered array for every selector shape (int, any slice incl. negative steps and out-of-range bounds, "
        "integer arrays) x every file size; raw_channel_order construction in __init__ against geometry_from_meta's contract; sync unscaled; file untouched. The contracts it rests on are re-checked by this check: C09's per-channel volts-per-bit vector (imec and nidq, every MN/MA/XA/DW composition), C08's geometry order and C11's contracts of Reader.open (the rows indexed are the complete frames of the file, whatever the metadata announce and whatever the warning option). Level other: cbin path and dtype of 0-d results rest on the bounded native stand-in over all shipped metas. The index returned for recordings without a site map (C08 default_layout) is re-checked.",
   note="A-NP-INDEX, A-REAL (which sample meets which gain; not float32 rounding), A-MTSCOMP. array x array selectors are outside the claim (outer vs point-wise not fixed by the statement). F-C01-1 (bare list index) was repaired.",
   tech="AST->z3 VC generation with abstract selector index functions (deductive) + bounded native stand-in"),
 "C09": dict(cat="other", ref="DESIGN.md 4/C09",
   text="Derived quantities proved for every probe generation/stream with symbolic numeric fields and an abstract IMRO table of symbolic length: s2v*gain*maxint == range, 1 on sync, length == nSavedChans; nidq segments; type/fs/counts/sync indices. "
        "write_meta_data writes an integer list as the plain decimal digits of its entries separated by commas, for every value (structured strings); the rest of the textual read->write->read round trip is a bounded stand-in over a grammar-generated corpus + shipped files (string theories do not decide float()/repr()). Every derived-quantity reader leaves the parsed dictionary as parsed (frame obligations reads_only.*), and range_volts asked again after the caller edited its copy is again the range. The gains of channel 0 that recent headers carry next to the IMRO table never stand in for a channel's own gain.",
   note="A-STR-FREE/A-SGLX (regex on imroTbl yields entries; split fields are the numbers). F-C09-1 (scalars < 1e-4) was repaired.",
   tech="AST->z3 VC generation over a symbolic metadata record (deductive) + bounded round-trip stand-in"),
 "C08": dict(cat="other", ref="DESIGN.md 4/C08",
   text="geometry_from_meta proved for site tables of any length in both encodings: the sort is a bijection moving every key together, ordered by (shank,row,-col); rc<->xy inverse on the three grids; the two encodings agree; split shank == restriction of the parent. "
        "ADC tables: decided by exhaustive evaluation of adc_shifts over its whole finite domain (5 versions x nc 1..384) against the per-channel formula, stated as obligations (complete, no solver); canonical layouts: exhaustive native enumeration (every version x shank count against a per-channel description). The branch of geometry_from_meta without a site map (canonical layout x sort flag) and the independence of the ADC tables from what an earlier caller did to its copy are decided by exhaustive evaluation as well. The ADC-table domain includes the generation number held in NumPy scalars (int32 / int64 / float32 / float64).",
   note="A-NP-SPEC (lexsort, where), A-SGLX, map-string parsing summarised by contract. Known finding F-C08-1 (ADC delays for non-prefix channel subsets). History effects (caching across calls) only in the bounded stand-in (derives twice).",
   tech="AST->z3 VC generation with permutation/where specification axioms (deductive) + exhaustive enumeration of tables"),
 "C16": dict(cat="other", ref="DESIGN.md 4/C16",
   text="saturation() proved for any (nc, ns), scalar or per-channel range, proportion, slew limit, rate and taper width: which mask is averaged over which axis, OR-combination with '>' thresholds, trailing zero of the slew term, "
        "mute == max(0, 1 - flags * window) and 0 on the flags as a real number: in [0,1], 1 beyond the half-width, computed from the flags only, input untouched; C09's range_volts contract re-checked (with and without saved sync channels).",
   note="np.mean of a boolean column = fraction of channels (A-NP-SPEC), convolve('same') with a non negative kernel and cosine(M) centre tap (A-SCIPY) are assumed contracts exercised natively by the bounded stand-in; A-REAL (float32 traces against double ranges at the 98 % boundary are decided in exact rationals by the bounded stand-in, as are slew events at block boundaries of long arrays). F-C16-1 (even widths) was repaired.",
   tech="AST->z3 VC generation with reduction/convolution specification axioms (deductive) + bounded native stand-in"),
 "C03": dict(cat="other", ref="DESIGN.md 4/C03",
   text="One symbolic iteration of the real window loop of _process_NP24 (read -> _ind2save -> _split2shanks): the block appended to each shank's AP file is exactly the original int16 samples [a_j,b_j) of that shank's columns + sync, "
        "for every window index/size, recording length, processed length (init_params(nsamples) <= file length) and shank map; ranges tile [0,ns) (lemma over C17's contract); value exactness under the binary32 rounding model for every volts-per-bit factor; reconstruction loop body scatters every column back; init_params: by default the whole recording, and the window / overlap / taper / ratio the window harnesses assume (a window that is not a multiple of 12 is refused; for every calibrated sampling rate of the probe); integer lists of the metadata written back as plain digits (C09 contract re-checked); output preparation for every shank map, ids not 0..n-1 included (C04 contract re-checked). NP2Reconstructor._reconstruct executed whole over a ghost file system in which the output may already exist with any size: the binary is started empty, written over windows that tile [0, nsamples) and closed; init_params called again on the same object gives the documented defaults again.",
   note="Channel lists (where(shank==s)+sync, partition) are a precondition; metadata, channel-subset strings and end-to-end bytes (all 65536 values x catalogued gains, non-contiguous / interleaved shank maps, nsamples < file length, channel-subset strings through a metadata file) are a bounded stand-in on real files. Re-checks C17's generator contract. A-FPSTD for the value obligation.",
   tech="AST->z3 VC generation, generator contract reuse, standard floating-point error model (deductive) + bounded end-to-end"),
 "C12": dict(cat="other", ref="DESIGN.md 4/C12",
   text="LF half of the same loop iteration: per-window row counts tile [0, ceil(ns/12)), sync column == every 12th AP sync word, data columns == decimated filter output of the cosine-tapered calibrated window (data-flow, filter opaque); "
        "_writemetadata_lf: 2500 Hz, per-shank channel counts, size, provenance keys, source metadata untouched; the LF output of a first or forced run starts empty (NP2.1 and NP2.4 prepare-files contracts, shared with C04); C17's generator contract re-checked. Rests also on C04's contract of compress_NP21 (the kept reader reads channels in acquisition order) and on the outputs holding nothing when the extraction starts.",
   note="Numeric equality with whole-trace low-pass + decimation and window independence (<= 1 LSB) and forced re-runs over existing LF files / re-used converter objects are a bounded stand-in on real files (sosfiltfilt is opaque: A-SCIPY shape only).",
   tech="AST->z3 VC generation with an opaque-filter summary (deductive) + bounded numeric stand-in"),
 "C06": dict(cat="other", ref="DESIGN.md 4/C06",
   text="One symbolic batch of the real per-worker loop (nested my_function located by name, free variables symbolic): file position before each write, rows == kept range with the documented taper margins, sync columns bit-identical, "
        "saturation slice (flags computed on the calibrated samples as read, before tapering), RMS/timestamp positions, loop invariant position == f(batch index), padding; the same for float32 output with the byte sizes computed by executing the set-up statements (positions in bytes of the output type); the set-up statements that create / size the files under the ghost file system: a fresh run truncates output, RMS and timestamp files, an appending run starts each at its current end, the per-sample saturation file is created with or without the rms (F-C06-2, repaired) and, when appending, keeps the entries of the runs already in the output and adds this run's after them (F-C06-3, repaired); the worker's start batch and boundary formulas; lemmas: batches tile [0,ns), consecutive workers leave no gap, writes are position-determined. The statements after the workers have finished run under contract too: RMS rows (batches x channels), timestamps and the per-sample saturation vector are published under the quality folder asked for, and the per-sample file stays next to the output for the next appending run. The data flow of the opaque steps of a batch is stated as well: the last batch is re-aligned with the delays of the header resolved for the run, dead / noisy channels are repaired from the whole batch with the labels and coordinates of the run before the rows outside the brain are set aside.",
   note="All filtering is opaque (shapes only); saturation() through C16's contract; joblib schedules are not modelled (position-determinism is what is proved); byte identity across worker counts (incl. more workers than batches) / QC lengths via the bounded stand-in with a NumPy/SciPy shim for pyfftw. F-C06-1 (phantom batch) was repaired: a worker whose first batch is not real returns at once, proved to touch nothing and to lose nothing. Known finding F-C06-4: with append and padding together the saturation entries of later runs are shifted by the accumulated padding against the output samples.",
   tech="AST->z3 VC generation on a nested closure with ghost file positions + arithmetic lemmas (deductive) + bounded native stand-in"),
 "C02": dict(cat="other", ref="DESIGN.md 4/C02",
   text="Ghost-file-system contracts: companion resolution for data / compressed / metadata paths under every combination of existing files; compress_file, decompress_file, decompress_to_scratch with a normal and an exceptional outcome of mtscomp: "
        "final names only ever carry complete files (also after an earlier failed attempt), sources removed only after their replacement is complete, a failed re-compression does not remove the header of a pair published earlier, lossless by D(C(b))=b; same shape through .bin and .cbin rests on C11's contracts of both branches of Reader.open (re-checked here). decompress_file(out=<another folder>, keep_original both ways) removes its own source and header only and leaves the files of another recording next to the output untouched; the metadata next to a scratch copy is the recording's own whatever the scratch folder held.",
   note="mtscomp is external: assumed contract (A-MTSCOMP) validated natively: reader on .bin vs .cbin around chunk boundaries, byte round trip, failures injected at each chunk, fail-then-retry histories, UUID-named companions with both bands of a probe in one folder (bounded). Known finding F-C02-1 (negative steps on .cbin). Known finding F-C02-4: several sample indices at once (list / integer array / boolean mask / range) on a .cbin raise or return an empty array (no gather in mtscomp); the single NumPy-integer index was repaired (F-C02-3).",
   tech="AST->z3 VC generation over a ghost file system with exceptional post-conditions (deductive) + bounded native stand-in"),
 "C04": dict(cat="other", ref="DESIGN.md 4/C04",
   text="Contracts of every step of NP2Converter.process over the ghost file system: _prepare_files_NP24 (no-op on repeat, outputs never alias the input, channel lists = where(shank==s)+sync), check_NP24 (every window compared, flag only after the loop; the whole function through the interpreter: every exceptional way out leaves check_completed unset), _prepare_files_NP21 (forced / first run starts the LF output empty), "
        "epilogue order (original unlinked only after check_NP24 returned normally with both flags, and only when the whole recording - not just the first nsamples samples - was split and verified: F-C04-2, repaired), delete_NP24 guard, compress_NP24/NP21 through C02's compress_file incl. failures, early exits (an already split input is refused before any output is prepared, with or without overwrite; probes that are neither NP2.1 nor NP2.4 - NP1 generations, NP Ultra - are refused untouched), a flag left by an earlier call on the same converter object does not decide the next one, init_params reset; rests on C03's init_params contract (every sample is split and verified before the original goes). The LF output of a single-shank probe is never the original whatever the file is called; the deletion guard is stated against a (possibly compressed) original whose size on disk is unrelated to its sample count; output files hold nothing when the extraction starts; the reader kept after compress_NP21 reads as the one __init__ opened (F-C04-3 found this way and repaired).",
   note="Histories are handled inductively (one guarded unlink of the original); interruptions = exceptions of external calls; real run histories on files (first/repeat/overwrite/corrupted split/failed verification then delete_NP24()/NP2.1/NP1) are a bounded stand-in. F-C04-1 (retry after partial folder creation) was repaired. F-C04-3 (NP2.1 reader re-opened sorted after compression) was repaired.",
   tech="AST->z3 VC generation over a ghost file system, effect-log ordering obligations (deductive) + bounded histories"),
 "C13": dict(cat="other", ref="DESIGN.md 4/C13",
   text="extract_wfs_array proved with a loop invariant over the output stack for any number of spikes / channels / samples: wfs[i,c,t] == traces[neighbours[peak_i,c], sample_i - trough + t], padding neighbours read the NaN row, every read in bounds; "
        "write_wfs_chunk: chunk-local offsets for chunk 0 and later chunks address samples [sample-trough, sample-trough+length) of the recording and rows land at waveform_index, with the caller's trough offset and length; _make_wfs_table (loop iteration + tail, signed and unsigned spike times): each unit gets min(max_wf, #valid) distinct valid spikes, table rows are in bijection with the selected spikes in ascending order, waveform_index is a bijection grouped by unit; make_channel_index: row c = ascending channels within the radius, padded with the default or with any caller-supplied value (symbolic pad_val); extract_wfs_cbin: the table is requested with the caller's spikes, count, seed and window offset / length; chunks cover every valid spike once, each job gets its own chunk, rows and the caller's window parameters; the per-unit running index counts 0, 1, 2, ... within each unit (cumulative-sum induction; pandas groupby under an assumed contract).",
   note="Agreement of table / traces / channels / templates after the final re-sort, chunk- and worker-count independence end to end and the loader are a bounded stand-in on generated recordings (joblib threading back end). A-PANDAS; NaN is a token; A-NP-SPEC for sort / argsort(stable) / unique / Generator.choice(replace=False) / flatten; squareform(pdist) = symmetric matrix (A-SCIPY). F-C13-1 (spike index 0 dropped) was repaired.",
   tech="AST->z3 VC generation with a stack loop invariant and index-function arrays (deductive) + bounded native stand-in"),
 "C14": dict(cat="other", ref="DESIGN.md 4/C14",
   text="pick_maximum: reported peak == global absolute extremum, first on ties; find_trough at/after the peak and find_tip strictly before it; recovery_point in bounds with last-sample fall-back; arr_pre_post proved (running-sum induction lemma); half_peak_point: the reported points are the nearest samples on either side of the peak that are back within half of it; "
        "lemmas: positive scaling and channel permutation leave the arg-max rule invariant - all for symbolic (n, C, T); compute_spike_features data flow for 2-D and 3-D input: the documented chain of steps on the table of the step before, recovery offset round(ms * fs / 1000) whatever the input's shape, inversion on a copy of the picked traces, caller's sampling rate.",
   note="A-NP-SPEC argmax / nanargmax / max; The weak-positive swap (pandas row surgery), scale equivariance end to end (incl. exact power-of-two scaling), batch independence and slopes: bounded stand-in on generated bi/tri-phasic spikes. Known finding F-C14-2.",
   tech="AST->z3 VC generation with order-statistics specification axioms (deductive) + bounded native stand-in"),
 "C18": dict(cat="other", ref="DESIGN.md 4/C18",
   text="fourier.convolve: inverse transform asked for the padded length, 'same' = centred crop for both parities, 'full' length; ns_optim_fft: look-up proved over an abstract strictly increasing table, the table's entries and completeness enumerated; freduce/fexpand mutually inverse on Hermitian spectra for both parities and any axis; "
        "fscale == DFT bin frequencies; lp + hp == 1, bp == hp*lp on the filter vectors; cosine taper monotone in [0,1]; filters keep the shape and every output sample comes from the transforms of the input line through the same position along the requested axis (stated on the data flow, not on which axis the implementation transforms along); the public lp / hp / bp hand series, interval, corners, axis and type on to the filter. freduce / fexpand also along the last axis counted from the end.",
   note="A-FFT (shapes, linearity; contents opaque), A-MATH (three facts about cos). Equality with direct convolution / FFT on the impulse basis is a bounded stand-in. F-C18-1 (ns_optim_fft above its table) and F-C18-3 (3-D, axis 0) were repaired.",
   tech="AST->z3 VC generation with FFT shape/Hermitian specification axioms (deductive) + bounded impulse-basis stand-in"),
 "C05": dict(cat="other", ref="DESIGN.md 4/C05",
   text="car: exactly one channel-axis reduction with the requested operator is subtracted, per-collection == per-group; kfilt/fk recursion over collections forwards every setting, hands each group over as its own channels in order and puts the result back on its rows; kfilt body: gain control only when a window is given, mirrored padding, padding rows dropped and gain multiplied back; destripe data-flow: high-pass -> fshift by +sample_shift along time -> interpolation -> "
        "spatial filter on rows with label != 3, sync untouched; destripe called twice with the same settings dictionaries: the spatial step and the high-pass get exactly the caller's settings both times and the dictionaries are left as given; agc: out*gain == in wherever the returned gain is not zero, data untouched where it is zero, gain >= 0 (stated on the returned values only); the ADC delay tables destripe re-aligns with: C08's exhaustive table contract and C15's interpolation contract (only good / outside-brain channels are sources) re-checked. The header of one shank of a multi-shank probe carries each channel's own delay (C08 split_restriction re-checked). car with a grouping in which some labels are carried by a single trace: one call per group, every group referenced.",
   note="median/mean are opaque reductions with translation equivariance (A-NP-SPEC); butter/sosfiltfilt/fshift/convolve opaque with shapes (A-SCIPY/A-FFT). 40 dB stripe attenuation / 90 % spike retention are numeric: bounded stand-in on synthetic stripes.",
   tech="AST->z3 VC generation with call-log data-flow obligations and modular recursion contracts (deductive) + bounded numeric stand-in"),
 "C07": dict(cat="other", ref="DESIGN.md 4/C07",
   text="fshift structure for 1-D / 2-D inputs along either axis with scalar and per-trace shifts: output shape and dtype, real input untouched, unit-delay ramp along the shift axis, inverse transform to the original length along the same axis, per-trace shifts vary along the other axis only; "
        "wave_shift_corrmax measures the shift from the zero lag n // 2 for every parity and moves the copy back by exactly the estimate; parabolic_max (whole function, 1-D): a maximum on samples 1 .. ns-2 is interpolated to the vertex of the parabola through its neighbours, a maximum on the first / last sample returned as it is; the interpolated peak is the same for x and a*x (a > 0) and within one sample of the maximum.",
   note="The shift theorem cannot be proved over an opaque transform: integer shift == roll, composition, band-limited fractional delay, call-history independence and delay estimation (wave_shift_corrmax, parabolic_max) are a bounded stand-in on the full impulse basis (linearity lifts it to all signals of a length).",
   tech="AST->z3 VC generation with an FFT call log (deductive, structure) + bounded impulse-basis stand-in (numerics)"),
 "C20": dict(cat="other", ref="DESIGN.md 4/C20",
   text="rolling_window (odd and even window lengths) and smooth.lp keep the input length for every length / window / padding (Python's half-to-even round modelled; lp rests on C18's filter contracts, re-checked); traj_matrix_indices addresses existing traces only, each on one anti-diagonal, for every n; Venn peeling lemma: per bin, sorter j is counted in exactly c_j levels, so every spike is attributed once; "
        "stack: row k aggregates exactly the traces carrying the k-th distinct label, with all their samples, only row k is written (one symbolic iteration, np.unique by specification); svd_denoise_npx: each collection is decomposed on its own rows at a rank >= its size whenever rank >= nc (and at the requested rank without collections), written back row for row; _svd_denoise cuts nothing off at full rank.",
   note="Cadzow rank reduction, the SVD identities themselves (A-LINALG: U diag(s) Vh == X), Savitzky-Golay and the spike-count conservation on real calls are numerics: bounded stand-in (exact frequency-domain plane waves, boundary spikes).",
   tech="AST->z3 VC generation with integer rounding lemmas (deductive) + bounded native stand-in"),
 "C15": dict(cat="other", ref="DESIGN.md 4/C15",
   text="One symbolic iteration of interpolate_bad_channels' loop for an arbitrary dead/noisy channel on any geometry: only that row is written; weights are zeroed exactly on dead/noisy channels and below 0.005; sources are good or outside-brain channels with positive weight; "
        "coefficients == weight / sum over the sources (convex); zeros when there is no source (a channel the loop skips was zeroed first). detect_bad_channels_cbin: one detection per requested batch and their per-channel mode, also on a 1.2 s snippet shorter than the batches side by side. detect_bad_channels recommendation tail: noisy iff, dead iff (unless noisy), outside-brain only within the low-coherence set reaching the last channel (induction lemma on the gap counter).",
   note="Distance-decay values are opaque positive numbers (A-MATH); matmul opaque with exact operands. Detection of injected faults over the whole probe (both ends, gaps), the per-file mode, numeric range of the replacement: bounded stand-in. Known finding F-C15-2 (silent channel 0 never labelled).",
   tech="AST->z3 VC generation, piecewise loop-body execution, hand-stated induction lemma (deductive) + bounded detection stand-in"),
}
NA = {
 "C19": "statistical recovery statement about a heuristic (cross-correlation + greedy matching); no contract over sync_timestamps decides it for all inputs - see DESIGN.md section 5",
}
PENDING = "contracts for this property are not yet committed in this revision of /verif (work in progress; see DESIGN.md section 4 for the plan)"
ALL = [f"C{i:02d}" for i in range(1, 21)]

def main():
    checks = []
    for pid in ALL:
        if pid in CLAIMED:
            c = CLAIMED[pid]
            checks.append({
                "property_id": pid,
                "quick_cmd": f"./check {pid} --tier quick",
                "thorough_cmd": f"./check {pid} --tier thorough",
                "evidence_file": f"evidence/{pid}.json",
                "replay_cmd_template": f"./check {pid} --replay {{path}}",
                "engine": "pyvc",
                "level_claimed": {"category": c["cat"], "text": c["text"], "design_ref": c["ref"]},
                "level_note": c["note"] + " Trusted base: " + TRUST,
                "technique": c["tech"],
            })
    na = [{"property_id": p, "reason": NA.get(p, PENDING)} for p in ALL if p not in CLAIMED]
    m = {
        "version": 1,
        "setup_cmd": "./setup.sh",
        "hooks": {"guard": "IBL_NEUROPIXEL_VERIF", "enable": "no source hooks: contracts are sidecar files under /verif/contracts and the engine reads /repo/src as text; the guard variable is exported by ./check but nothing in /repo reads it",
                  "baseline_off_cmd": "cd /repo && /venv/bin/python -m pytest -ra -q -p no:cacheprovider --timeout=900 --continue-on-collection-errors",
                  "source_commits": [], "add_only": True},
        "engines": [{"name": "pyvc", "path": "pyvc/", "serves_properties": sorted(CLAIMED),
                     "kind_free_text": "contract-based deductive verifier written for this task: symbolic execution of the real Python AST (re-read from /repo/src on every run), NumPy arrays as index functions, sidecar contracts/loop invariants, obligations discharged by z3 5.1 (cvc5 on unknown); bounded run-time-contract stand-ins are labelled and never counted as proved"}],
        "checks": checks,
        "not_applicable": na,
        "notes": "exit 0 held / 1 VIOLATION / 3 checker error; known findings in known_findings.json; fix: commits in /repo are listed there as fixed entries.",
    }
    with open(os.path.join(HERE, "MANIFEST.json"), "w") as f:
        json.dump(m, f, indent=1)
    try:
        import jsonschema
        jsonschema.validate(m, json.load(open("/root/.vp/MANIFEST.schema.json")))
        print("MANIFEST.json valid;", len(checks), "checks,", len(na), "not_applicable")
    except ImportError:
        print("written (jsonschema not available to validate)")

if __name__ == "__main__":
    main()
