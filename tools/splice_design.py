#!/usr/bin/env python3
"""tools/splice_design.py : refresh the seeded-change table of DESIGN.md (between the SEEDED_TABLE markers) from seeded/RESULTS.tsv + seeded/*/meta.json"""
import json, os, re
HERE = os.path.dirname(os.path.dirname(os.path.abspath(__file__)))
rows = []
for ln in open(os.path.join(HERE, "seeded", "RESULTS.tsv")):
    f = ln.rstrip("\n").split("\t")
    while len(f) < 5:
        f.append("")
    name, verdict, ded, bnd, und = f[:5]
    if name.startswith("self-"):
        summ = "hand-made mutant " + name[5:]
    else:
        try:
            summ = re.sub(r"\s+", " ", json.load(open(os.path.join(HERE, "seeded", name, "meta.json"))).get("summary", ""))
        except Exception:
            summ = ""
    summ = summ[:150].replace("|", "/")
    d = sorted({re.sub(r"^[a-z_0-9A-Z]+-", "", x).split(".")[0] + "." + ".".join(re.sub(r"^[a-z_0-9A-Z]+-", "", x).split(".")[1:3]) for x in ded.split()})
    how = ("D" if ded.strip() else "") + ("B" if bnd.strip() else "") + ("+U" if und.strip() not in ("", "undecided=0") and not ded.strip() else "")
    rows.append(f"| {name} | {verdict} | {how} | {', '.join(d[:3])}{' ...' if len(d) > 3 else ''} | {bnd.strip()} | {summ} |")
tab = "| change | verdict | by | deductive obligations (first 3) | bounded stand-in | what the change does |\n|---|---|---|---|---|---|\n" + "\n".join(rows)
p = os.path.join(HERE, "DESIGN.md")
s = open(p).read()
b, e = "<!-- SEEDED_TABLE_BEGIN -->", "<!-- SEEDED_TABLE_END -->"
if b in s:
    s = s[:s.index(b) + len(b)] + "\n" + tab + "\n" + s[s.index(e):]
else:
    s = s.replace("SEEDED_TABLE", b + "\n" + tab + "\n" + e)
# per-property status table from MANIFEST.json + the last evidence files
man = json.load(open(os.path.join(HERE, "MANIFEST.json")))
prow = []
for c in man["checks"]:
    pid = c["property_id"]
    try:
        ev = json.load(open(os.path.join(HERE, "evidence", pid + ".json")))
        cov = ev["coverage"]
        nfun = len(cov.get("functions_under_contract", {}))
        st = f"{cov['discharged']}/{cov['obligations']} obligations, {nfun} functions, solver {cov.get('solver_s', 0):.1f} s, {len(cov.get('bounded', []))} bounded stand-in(s)"
    except Exception:
        st = "no evidence file"
    prow.append(f"| {pid} | {c['level_claimed']['category']} | {st} | {c['level_claimed']['text'].replace('|', '/')} | {c['level_note'].split(' Trusted base:')[0].replace('|', '/')} |")
for n in man.get("not_applicable", []):
    prow.append(f"| {n['property_id']} | not applicable | - | - | {n['reason']} |")
ptab = "| property | level | last quick run | decided deductively (all inputs) | bounded / assumed / findings |\n|---|---|---|---|---|\n" + "\n".join(prow)
b2, e2 = "<!-- PROPERTY_TABLE_BEGIN -->", "<!-- PROPERTY_TABLE_END -->"
if b2 in s:
    s = s[:s.index(b2) + len(b2)] + "\n" + ptab + "\n" + s[s.index(e2):]
open(p, "w").write(s)
print(len(rows), "rows;", len(prow), "properties")
