#!/usr/bin/env python3
"""tools/splice_design.py : refresh the seeded-change table of DESIGN.md (between the SEEDED_TABLE markers) from seeded/RESULTS.tsv + seeded/*/meta.json"""
import json, os, re
HERE = os.path.dirname(os.path.dirname(os.path.abspath(__file__)))
rows = []
for ln in open(os.path.join(HERE, "seeded", "RESULTS.tsv")):
    f = ln.rstrip("\n").split("\t")
    while len(f) < 5:
        f.append("")
    name, verdict, ded, bnd, und = f[:5]
    if name.startswith("self-"):
        summ = "hand-made mutant " + name[5:]
    else:
        try:
            summ = re.sub(r"\s+", " ", json.load(open(os.path.join(HERE, "seeded", name, "meta.json"))).get("summary", ""))
        except Exception:
            summ = ""
    summ = summ[:150].replace("|", "/")
    d = sorted({re.sub(r"^[a-z_0-9A-Z]+-", "", x).split(".")[0] + "." + ".".join(re.sub(r"^[a-z_0-9A-Z]+-", "", x).split(".")[1:3]) for x in ded.split()})
    how = ("D" if ded.strip() else "") + ("B" if bnd.strip() else "") + ("+U" if und.strip() not in ("", "undecided=0") and not ded.strip() else "")
    rows.append(f"| {name} | {verdict} | {how} | {', '.join(d[:3])}{' ...' if len(d) > 3 else ''} | {bnd.strip()} | {summ} |")
tab = "| change | verdict | by | deductive obligations (first 3) | bounded stand-in | what the change does |\n|---|---|---|---|---|---|\n" + "\n".join(rows)
p = os.path.join(HERE, "DESIGN.md")
s = open(p).read()
b, e = "<!-- SEEDED_TABLE_BEGIN -->", "<!-- SEEDED_TABLE_END -->"
if b in s:
    s = s[:s.index(b) + len(b)] + "\n" + tab + "\n" + s[s.index(e):]
else:
    s = s.replace("SEEDED_TABLE", b + "\n" + tab + "\n" + e)
open(p, "w").write(s)
print(len(rows), "rows")
