#!/bin/bash
# tools/seed_why.sh <seeded-id> [check args]: run the check on a stored seeded change and show undecided / violation lines
set -u
HERE="$(cd "$(dirname "${BASH_SOURCE[0]}")/.." && pwd)"; cd "$HERE"
N="$1"; shift; PID="${N%%-*}"
W="$(mktemp -d /tmp/swhy.XXXXXX)"; trap 'git -C /repo worktree remove --force "$W" >/dev/null 2>&1; rm -rf "$W"' EXIT
git -C /repo worktree add --detach "$W" HEAD >/dev/null 2>&1
git -C "$W" apply "$HERE/seeded/$N/patch.diff" || exit 3
PYVC_REPO="$W" PYVC_EVIDENCE_DIR="$W/.evidence" ./check "$PID" "$@" 2>&1 | grep -E "UNDECIDED|VIOLATION|^C[0-9]+:|Traceback|Error" | cut -c1-400
