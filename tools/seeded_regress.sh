#!/bin/bash
# tools/seeded_regress.sh [ids...] : re-run every stored seeded change (seeded/<id>/patch.diff) and self-made mutant (selftest/mutants/Cxx_*.patch)
# against the current checks, each in its own scratch worktree of /repo HEAD (outside /repo and /verif, removed afterwards).
# Writes seeded/RESULTS.tsv: id, verdict (caught/missed/checker-error/no-apply), deductive obligations that failed, bounded stand-ins that failed.
set -u
HERE="$(cd "$(dirname "${BASH_SOURCE[0]}")/.." && pwd)"
cd "$HERE"
one() {
  P="$(realpath "$1")"; NAME="$2"; PID="$3"
  W="$(mktemp -d /tmp/sreg.XXXXXX)"
  git -C /repo worktree add --detach "$W" HEAD >/dev/null 2>&1
  if ! git -C "$W" apply "$P" 2>/dev/null; then echo -e "$NAME\tno-apply\t\t"; else
    OUT="$(PYVC_REPO="$W" PYVC_EVIDENCE_DIR="$W/.evidence" PYVC_REPLAY_DIR="$W/.replays" ./check "$PID" 2>&1)"; RC=$?
    V=missed; [ $RC -eq 1 ] && V=caught; [ $RC -ge 2 ] && V=checker-error
    DED="$(echo "$OUT" | grep -E '^VIOLATION' | grep -v 'bounded-' | sed -E 's/.*replay=[^ ]*\/[A-Z0-9]+-//; s/-[0-9a-f]{10}\.json.*//' | sort -u | tr '\n' ' ')"
    BND="$(echo "$OUT" | grep -E '^VIOLATION' | grep 'bounded-' | sed -E 's/.*replay=[^ ]*\/[A-Z0-9]+-bounded-//; s/-[0-9a-f]{10}\.json.*//' | sort -u | tr '\n' ' ')"
    UND="$(echo "$OUT" | grep -c 'UNDECIDED')"
    ERR="$(echo "$OUT" | grep -c 'ERROR in')"
    echo -e "$NAME\t$V\t$DED\t$BND\tundecided=$UND errors=$ERR"
  fi
  git -C /repo worktree remove --force "$W" >/dev/null 2>&1; rm -rf "$W"
}
export -f one
LIST=()
for d in seeded/C*/; do n="$(basename "$d")"; LIST+=("$d/patch.diff $n ${n%%-*}"); done
for p in selftest/mutants/C*.patch; do n="$(basename "$p" .patch)"; LIST+=("$p self-$n ${n%%_*}"); done
if [ $# -gt 0 ]; then SEL=(); for x in "${LIST[@]}"; do for a in "$@"; do [[ "$x" == *" $a"* || "$x" == *"$a "* ]] && SEL+=("$x"); done; done; LIST=("${SEL[@]}"); fi
OUTF=seeded/RESULTS.tsv; [ $# -gt 0 ] && OUTF=scratch/RESULTS.partial.tsv      # a filtered run never overwrites the full table
printf '%s\n' "${LIST[@]}" | xargs -P 5 -L 1 bash -c 'one $0 $1 $2' | sort > "$OUTF"
cat "$OUTF"
