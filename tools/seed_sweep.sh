#!/bin/bash
# tools/seed_sweep.sh [seeds...] : run every claimed check (quick tier) under several VERIF_SEED values, evidence to a scratch dir; prints non-zero exits
HERE="$(cd "$(dirname "${BASH_SOURCE[0]}")/.." && pwd)"; cd "$HERE"
OUT="$(mktemp -d /tmp/sweep.XXXXXX)"; trap 'rm -rf "$OUT"' EXIT
for s in "${@:-2 3 4 5 6}"; do for p in C01 C02 C03 C04 C05 C06 C07 C08 C09 C10 C11 C12 C13 C14 C15 C16 C17 C18 C20; do
  echo "$s $p"; done; done | xargs -P 4 -L 1 bash -c 'r=$(VERIF_SEED=$0 PYVC_EVIDENCE_DIR='"$OUT"'/$0 ./check $1 2>&1); rc=$?; echo "seed=$0 $1 rc=$rc $(echo "$r" | tail -1 | cut -c1-150)"; [ $rc -ne 0 ] && echo "$r" | grep -E "VIOLATION|UNDECIDED|ERROR" | head -5' | tee scratch/seed_sweep.out | grep -v "rc=0" 
echo "sweep done: $(grep -c 'rc=0' scratch/seed_sweep.out) ok, $(grep -c 'rc=[1-9]' scratch/seed_sweep.out) not ok; undecided lines: $(grep -c 'undecided, ' scratch/seed_sweep.out)"
