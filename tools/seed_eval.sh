#!/bin/bash
# tools/seed_eval.sh Cxx mN [tests...] : confirm a sub-agent's seeded change in a scratch worktree and run the check against it.
#  - demo passes on clean HEAD, fails with the patch;  - given test files pass with the patch (same failures as clean);
#  - ./check Cxx against the patched tree -> caught / missed.  Keeps confirmed ones under /verif/seeded/Cxx-mN/.
set -u
PID="$1"; M="$2"; shift 2
SRC="${SEED_ROOT:-/tmp/seed3}/$PID/out/$M"; TAG="${SEED_TAG:-r3}"
HERE="$(cd "$(dirname "${BASH_SOURCE[0]}")/.." && pwd)"
[ -f "$SRC/patch.diff" ] || { echo "no patch in $SRC"; exit 3; }
W="$(mktemp -d /tmp/seval.XXXXXX)"
trap 'git -C /repo worktree remove --force "$W" >/dev/null 2>&1; rm -rf "$W"' EXIT
git -C /repo worktree add --detach "$W" HEAD >/dev/null 2>&1
export TMPDIR="$W/.tmp"; mkdir -p "$TMPDIR"
LOG="$HERE/scratch/seed_$PID-$TAG$M.log"; mkdir -p "$HERE/scratch"; : > "$LOG"
( cd /tmp && PYTHONPATH="$W/src" timeout 900 /venv/bin/python "$SRC/demo.py" ) >>"$LOG" 2>&1; D0=$?
T0=""; T1=""
if [ $# -gt 0 ]; then
  T0="$(cd "$W" && PYTHONPATH="$W/src" timeout 1500 /venv/bin/python -m pytest -q -p no:cacheprovider "$@" 2>&1 | tail -1)"
fi
git -C "$W" apply "$SRC/patch.diff" || { echo "$PID $M: patch does not apply"; exit 3; }
( cd /tmp && PYTHONPATH="$W/src" timeout 900 /venv/bin/python "$SRC/demo.py" ) >>"$LOG" 2>&1; D1=$?
if [ $# -gt 0 ]; then
  T1="$(cd "$W" && PYTHONPATH="$W/src" timeout 1500 /venv/bin/python -m pytest -q -p no:cacheprovider "$@" 2>&1 | tail -1)"
fi
cd "$HERE"
OUT="$(PYVC_REPO="$W" PYVC_EVIDENCE_DIR="$W/.evidence" ./check "$PID" 2>&1)"; RC=$?
echo "$OUT" >> "$LOG"
CAUGHT=missed; [ $RC -eq 1 ] && CAUGHT=caught; [ $RC -eq 3 ] && CAUGHT=checker-error
BY="$(echo "$OUT" | grep -E '^VIOLATION' | sed -E 's/.*replay=replays\/[A-Z0-9]+-//; s/-[0-9a-f]{10}\.json.*//' | sort -u | head -6 | tr '\n' ' ')"
CONF=no; [ $D0 -eq 0 ] && [ $D1 -ne 0 ] && CONF=yes
echo "$PID $M: demo clean=$D0 patched=$D1 confirmed=$CONF | tests clean: [$T0] patched: [$T1] | check: $CAUGHT ($BY)"
if [ "$CONF" = yes ]; then
  mkdir -p "$HERE/seeded/$PID-$TAG$M"
  cp "$SRC/patch.diff" "$SRC/demo.py" "$HERE/seeded/$PID-$TAG$M/"
  python3 - "$SRC/meta.json" "$HERE/seeded/$PID-$TAG$M/meta.json" "$PID" "$CAUGHT" "$BY" "$T0" "$T1" "$D0" "$D1" <<'PY'
import json, sys
src, dst, pid, caught, by, t0, t1, d0, d1 = sys.argv[1:10]
try: m = json.load(open(src))
except Exception: m = {}
m.update({"property": pid, "confirmed_by_me": {"demo_exit_clean": int(d0), "demo_exit_patched": int(d1), "tests_clean": t0, "tests_patched": t1,
          "ran": "tools/seed_eval.sh (scratch worktree of /repo HEAD, demo + listed unit test files with PYTHONPATH=<worktree>/src, then ./check with PYVC_REPO=<worktree>)"},
          "check_result": caught, "caught_by": by.split()})
json.dump(m, open(dst, "w"), indent=1)
PY
fi
