import json, sys
import os
pid = sys.argv[1]
ROOT = os.environ.get("SEED_ROOT", "/tmp/seed3")
tests = {"C17":"test_ibldsp.py","C10":"test_ibldsp.py test_spikeglx.py","C18":"test_ibldsp.py","C07":"test_ibldsp.py test_waveforms.py","C20":"test_ibldsp.py","C05":"test_ibldsp.py","C16":"test_ibldsp.py","C15":"test_ibldsp.py",
 "C01":"test_spikeglx.py test_neuropixel.py","C02":"test_spikeglx.py","C09":"test_spikeglx.py","C11":"test_spikeglx.py","C08":"test_spikeglx.py test_neuropixel.py",
 "C03":"test_ephys_np2.py test_spikeglx.py","C04":"test_ephys_np2.py","C12":"test_ephys_np2.py","C13":"test_waveforms.py","C14":"test_waveforms.py","C06":"test_ibldsp.py test_spikeglx.py"}[pid]
prev = json.load(open(ROOT + "/prev.json")).get(pid, [])
HINT = (os.environ.get("SEED_HINT", "").strip() + " ") if os.environ.get("SEED_HINT") else ""
prop = open(f"{ROOT}/{pid}.property.json").read()
W = f"{ROOT}/{pid}"
print(f"""You are helping to test a verification effort by producing realistic property-breaking code changes ("seeded defects").

Work ONLY inside the git worktree at {W} (a checkout of the Python project int-brain-lab/ibl-neuropixel: source under src/, tests under src/tests/). Do NOT read or write anything under /verif or /repo, and do not create other worktrees.

The semantic property under study (JSON record):
{prop}

TASK: produce TWO independent changes (different mechanisms / different code sites where possible) to the library source under {W}/src (never the tests) such that, for each change taken alone:
 (a) the code still imports and runs;
 (b) the existing test-suite still passes: run the relevant tests with
       cd {W} && PYTHONPATH={W}/src /venv/bin/python -m pytest -q -p no:cacheprovider -x {' '.join('src/tests/unit/'+t for t in tests.split())}
     (PYTHONPATH is mandatory, otherwise an installed copy of the library at another location is imported instead of your worktree.) A few tests fail on the clean tree already (scipy.signal.ricker missing, pyfftw missing): first run the tests on the clean tree, and only require that no *additional* test fails with your change (drop -x if a pre-existing failure stops the run);
 (c) the change breaks the property above, but needs something specific to manifest - an unusual input or size, a particular position/alignment, a multi-step sequence of operations, a particular option combination, or two cooperating sites that each look fine alone - rather than something ordinary use or the existing tests would expose at once. Make it look like a plausible refactoring slip or "optimisation", not sabotage.

For each change i in (1, 2) create the directory {W}/out/m<i>/ containing:
  - patch.diff : output of `git diff` (relative to HEAD, for that change alone; must apply with `git apply patch.diff` at the repository root);
  - demo.py    : a standalone demonstration, run as `PYTHONPATH=<root>/src /venv/bin/python demo.py` from any directory; it must exit 0 on the unmodified code (property holds) and exit non-zero with a clear message when the change is applied. It may create temporary files under tempfile.mkdtemp() and must clean them. It must not import pytest. If it needs test fixtures, locate them relative to the imported module (e.g. pathlib.Path(spikeglx.__file__).parent / 'tests' / 'unit' / 'fixtures').
  - meta.json  : {{"property": "{pid}", "summary": "...", "needs_to_manifest": "...", "files_touched": [...], "tests_run": "...", "tests_result": "..."}}
After saving each patch run `git -C {W} checkout -- .` so that the next change starts from the clean tree (the out/ directory is untracked and survives).
Verify yourself for each change: demo.py exits 0 on the clean tree, non-zero with the patch applied, and the tests of (b) pass with the patch applied. Leave the worktree clean (no patch applied) at the end.

Ideas that were ALREADY used in an earlier round - do NOT repeat these or close variants of them, pick other code sites / other clauses of the property / other mechanisms:
{chr(10).join(' - ' + p for p in prev)}
{HINT}Prefer slips in the functions named under "anchors" or in helpers they call: wrong boundary (< vs <=, off-by-one), wrong axis or order of operands, a stale or shared value reused across calls, an operation applied to one element too many / too few, a dropped or defaulted argument, a condition that is only wrong for an unusual but legal input. Cover a clause of the statement that the earlier ideas did not touch if there is one.

Finish with a short report: for each change one paragraph on what it does, what it needs to manifest, and the verification you ran.""")
