#!/usr/bin/env python3
"""tools/mkmutant.py NAME FILE OLD NEW : writes selftest/mutants/NAME.patch (unified diff against /repo HEAD) replacing OLD by NEW once in FILE"""
import difflib, subprocess, sys, os
name, file, old, new = sys.argv[1:5]
src = subprocess.run(["git", "-C", "/repo", "show", f"HEAD:{file}"], capture_output=True, text=True, check=True).stdout
assert src.count(old) == 1, f"OLD occurs {src.count(old)} times"
dst = src.replace(old, new)
diff = "".join(difflib.unified_diff(src.splitlines(True), dst.splitlines(True), f"a/{file}", f"b/{file}"))
out = os.path.join(os.path.dirname(os.path.dirname(os.path.abspath(__file__))), "selftest", os.environ.get("MUT_DIR", "mutants"), name + ".patch")
open(out, "w").write(diff)
print(out)
