#!/bin/bash
# tools/equiv_test.sh : property-preserving rewrites (selftest/equivalent/Cxx_*.patch) must NOT raise a VIOLATION (undecided is allowed and reported)
set -u
HERE="$(cd "$(dirname "${BASH_SOURCE[0]}")/.." && pwd)"; cd "$HERE"
RC=0
for P in selftest/equivalent/C*.patch; do
  n="$(basename "$P" .patch)"; PID="${n%%_*}"
  W="$(mktemp -d /tmp/eqv.XXXXXX)"
  git -C /repo worktree add --detach "$W" HEAD >/dev/null 2>&1
  if git -C "$W" apply "$HERE/$P" 2>/dev/null; then
    OUT="$(PYVC_REPO="$W" PYVC_EVIDENCE_DIR="$W/.evidence" ./check "$PID" 2>&1)"; rc=$?
    echo "$n rc=$rc $(echo "$OUT" | tail -1 | cut -c1-160)"
    [ $rc -ne 0 ] && { RC=1; echo "$OUT" | grep -E "VIOLATION|ERROR" | head -5; }
  else echo "$n no-apply"; fi
  git -C /repo worktree remove --force "$W" >/dev/null 2>&1; rm -rf "$W"
done
exit $RC
