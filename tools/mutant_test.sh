#!/bin/bash
# tools/mutant_test.sh <patch> <Cxx> [check args]: apply a patch to a scratch worktree of /repo (outside /repo and /verif),
# run the check against it (PYVC_REPO), print its verdict, remove the worktree.  exit 0 iff the check reported a VIOLATION.
set -u
PATCH="$(realpath "$1")"; PID="$2"; shift 2
HERE="$(cd "$(dirname "${BASH_SOURCE[0]}")/.." && pwd)"
W="$(mktemp -d /tmp/mut.XXXXXX)"
trap 'git -C /repo worktree remove --force "$W" >/dev/null 2>&1; rm -rf "$W"' EXIT
git -C /repo worktree add --detach "$W" HEAD >/dev/null 2>&1 || { echo "worktree failed"; exit 3; }
git -C "$W" apply "$PATCH" || { echo "patch does not apply: $PATCH"; exit 3; }
cd "$HERE"
OUT="$(PYVC_REPO="$W" PYVC_EVIDENCE_DIR="$W/.evidence" ./check "$PID" "$@" 2>&1)"; RC=$?
echo "$OUT" | grep -E "VIOLATION|UNDECIDED|ERROR|^C[0-9]+:" | head -12
[ $RC -eq 1 ] && exit 0 || exit 1
