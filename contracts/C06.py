"""C06 - chunked destripe-to-file writes every sample exactly once, for any worker count.

Function under contract: ibldsp.voltage.decompress_destripe_cbin.my_function (the nested per-worker function, located by qualified name in the
real source; its free variables are bound to symbolic values), spikeglx.Reader.__getitem__/read/ns/range_volts/sample2volts (inlined),
ibldsp.utils.rms (inlined).  All filtering (sosfiltfilt, fshift, FFTW stencil, interpolation, spatial filter, whitening) is opaque with exact shapes;
ibldsp.voltage.saturation is used through its contract (C16).  The worker/batch arithmetic is a set of lemmas over the same formulas.
"""
import ast
import os
import shutil
import sys
import tempfile

import numpy as np
import scipy.signal
import z3

import ibldsp.voltage as V
import ibldsp.fourier as fourier
import spikeglx
from pyvc.api import harness, bounded, property_meta
from pyvc.core import SV, term, fresh_name, wrap
from pyvc import arrays as A, interp as I, fsmodel, models
from pyvc.arrays import SArr
from pyvc.interp import SObj, Closure

PROPERTY = "C06"
property_meta(
    PROPERTY, level="other",
    trusted_base=["A-PY", "A-NP-INDEX", "A-REAL", "A-INT64", "A-FS (positions of a binary file opened r+b: tofile writes at the current position and advances it)",
                  "C16 contract of saturation(): flags (L,), mute (L,) in [0,1]", "C09: sync factor 1",
                  "A-SCIPY/A-FFT: sosfiltfilt, fshift, the FFTW stencil, interpolate_bad_channels, the spatial filter and np.dot keep the shape of their input (contents opaque)",
                  "joblib scheduling itself is not modelled: the argument is that every write is position-determined by the batch index (proved) so that any schedule yields the same bytes"],
    explanation="one symbolic batch of the real per-worker loop: file position before each write, rows written (kept range with the documented taper margins), sync columns bit-identical to the source, "
                "saturation slice, RMS / timestamp positions, loop invariant (position == f(batch index)), padding; lemmas: batches tile [0, ns), consecutive workers leave no gap. "
                "Byte identity across worker counts / equality with in-memory destriping: bounded stand-in with a NumPy/SciPy shim for the two pyfftw calls.")

FN = V.decompress_destripe_cbin


def _nested():
    node, filename = I.SOURCES.funcdef(FN)
    inner = [n for n in ast.walk(node) if isinstance(n, ast.FunctionDef) and n.name == "my_function"]
    assert len(inner) == 1
    consts = {}
    for st in node.body:
        if isinstance(st, ast.Assign) and isinstance(st.targets[0], ast.Name) and isinstance(st.value, ast.Constant):
            consts[st.targets[0].id] = st.value.value
    return node, inner[0], filename, consts


class FFTWStub:
    """pyfftw.FFTW(win, WIN, axes=(1,), direction=...): callable, output has the shape/dtype of the output buffer (contents opaque)"""

    def __init__(self, a, b, axes=(1,), direction="FFTW_FORWARD", threads=1):
        self.a, self.b, self.direction = a, b, direction

    def __call__(self, x):
        return A.fresh_array("fftw_" + ("f" if self.direction == "FFTW_FORWARD" else "b"), self.b.dtype, self.b.shape)


class PyfftwStub:
    FFTW = models.SymCallable(lambda *a, **k: models.SymCallable(FFTWStub(*a, **k)))
    empty_aligned = models.SymCallable(lambda shape, dtype="float32", **kw: A.fresh_array("aligned", dtype, shape))


def same_shape_summary(name, argpos=0):
    def summary(it, a, k):
        x = A.as_sarr(a[argpos] if len(a) > argpos else list(k.values())[0])
        out = A.fresh_array(name, "float64" if x.dtype.kind != "f" else x.dtype, x.shape)
        log = getattr(it.ctx, "opaque_log", None)
        if log is None:
            log = it.ctx.opaque_log = []
        log.append((name, x.shape))
        calls = getattr(it.ctx, "opaque_calls", None)
        if calls is None:
            calls = it.ctx.opaque_calls = []
        calls.append({"name": name, "args": list(a), "kwargs": dict(k), "out": out, "out_at_return": out.snapshot()})     # (the caller may write into the result later)
        return out
    return summary


def saturation_summary(it, a, k):
    """C16: (flags bool (L,), mute float (L,) in [0,1]); the flags are a function of the data passed in"""
    data = A.as_sarr(k.get("data", a[0] if a else None))
    L = data.shape[1]
    sat = A.fresh_array("satflags", "bool", (L,))
    mute = A.fresh_array("mute", "float64", (L,))
    mute.facts_on_read = lambda idx, t: [t >= 0, t <= 1]
    it.ctx.sat_call = {"data_shape": data.shape, "data": data.snapshot(), "sat": sat, "mute": mute, "max_voltage": k.get("max_voltage"), "fs": k.get("fs")}
    return sat, mute


def setup(it, variant):
    node, inner, filename, consts = _nested()
    TAPER = consts["SAMPLES_TAPER"]
    ns, nc, ncv, NB, CHUNK, ichunk, nchunk, offset = z3.Ints("ns nc ncv NBATCH CHUNK_SIZE i_chunk n_chunk offset")
    nc_out = z3.Int("nc_out")
    it.ctx.assume(z3.And(ns >= 2 * TAPER, ncv >= 1, ncv < nc, nc_out >= ncv, nc_out <= nc, NB > 2 * TAPER, CHUNK >= 1, nchunk >= 1, ichunk >= 0, ichunk < nchunk, offset >= 0,
                         CHUNK * nchunk <= ns, ns < (CHUNK + 1) * nchunk))
    fs_ = fsmodel.GhostFS()
    it.session.ghost_fs = fs_
    raw = A.fresh_array("raw", "int16", (ns, nc))
    s2vv = z3.Real("s2v")
    it.ctx.assume(s2vv > 0)
    s2v = SArr(np.float32, (nc,), lambda idx: z3.If(idx[0] < ncv, s2vv, z3.RealVal(1)))
    rate = z3.Real("fs")
    it.ctx.assume(rate > 0)
    meta = {"typeThis": "imec", "snsApLfSy": [SV(z3.ToReal(ncv)), 0.0, SV(z3.ToReal(nc - ncv))], "nSavedChans": SV(z3.ToReal(nc)), "imSampRate": SV(rate),
            "fileTimeSecs": SV(z3.ToReal(ns) / rate), "imMaxInt": 512.0, "imDatPrb_type": 0.0}
    sr = SObj(spikeglx.Reader, _raw=raw, raw_channel_order=A.arange(0, SV(nc)), channel_conversion_sample2v={"ap": s2v}, meta=meta, dtype=np.dtype("int16"),
              geometry={"sample_shift": A.fresh_array("file_sample_shift", "float64", (ncv,)), "x": A.fresh_array("file_x", "float64", (ncv,)), "y": A.fresh_array("file_y", "float64", (ncv,))})
    out_dt = np.dtype(variant.get("out_dtype", "int16"))
    out_path = fsmodel.GhostPath(fs_, ("out",), "destriped.bin")
    rms_path = fsmodel.GhostPath(fs_, ("out",), "ap_rms.bin")
    time_path = fsmodel.GhostPath(fs_, ("out",), "ap_time.bin")
    for p in (out_path, rms_path, time_path):
        fs_.exists[p.key] = True
        fs_.size[p.key] = SV(z3.Int(fresh_name("size")))
    # the per-sample saturation file holds the samples of the runs appended before this one (sat_off of them), then this run's
    sat_off = z3.Int("saturation_offset")
    it.ctx.assume(sat_off >= 0)
    satfile = A.fresh_array("satfile", "bool", (sat_off + ns,))
    h = {"sample_shift": A.fresh_array("sample_shift", "float64", (ncv,)), "x": A.fresh_array("hx", "float64", (ncv,)), "y": A.fresh_array("hy", "float64", (ncv,))}
    rms_offset, time_offset, ns2add = z3.Ints("rms_offset time_offset ns2add")
    it.ctx.assume(z3.And(rms_offset >= 0, time_offset >= 0, ns2add >= 0))
    env = I.Env(None, FN.__globals__, qualname="decompress_destripe_cbin", filename=filename)
    env.vars.update(dict(
        sr_file="REC", reader_kwargs={}, file_saturation="SATFILE", CHUNK_SIZE=SV(CHUNK), NBATCH=SV(NB), SAMPLES_TAPER=TAPER, ncv=SV(ncv), pyfftw=PyfftwStub,
        output_file=out_path, offset=SV(offset), nc_out=SV(nc_out), compute_rms=variant.get("compute_rms", True), ap_rms_file=rms_path, ap_time_file=time_path,
        rms_offset=SV(rms_offset), time_offset=SV(time_offset), saturation_offset=SV(sat_off), taper=A.fresh_array("taper", "float64", (2 * TAPER,)), sos="SOS", h=h, sr=sr,
        DEPHAS=A.fresh_array("DEPHAS", "complex64", (ncv, NB / 2 + 1)), reject_channels=variant.get("reject", False),
        channel_labels=A.fresh_array("labels", "float64", (ncv,)), spatial_fcn=models.SymCallable(lambda x: same_shape_summary("spatial")(it, [x], {})),
        t0=SV(z3.Real("t0")), wrot=(A.fresh_array("wrot", "float64", (ncv, ncv)) if variant.get("wrot") else None), dtype=out_dt.type, ns2add=SV(ns2add)))
    # the byte sizes the workers seek with are computed by the set-up part of the function: those statements are executed, not assumed
    for name in ("nbytes", "rms_nbytes"):
        sts = [st for st in ast.walk(node) if isinstance(st, ast.Assign) and len(st.targets) == 1 and isinstance(st.targets[0], ast.Name) and st.targets[0].id == name
               and not any(st in ast.walk(fn_) for fn_ in [inner])]
        if len(sts) != 1:
            raise I.Unsupported(f"cannot identify the statement that sets {name} in decompress_destripe_cbin()")
        it.exec_stmt(sts[0], env)
    it.session.contracts[spikeglx.Reader] = lambda it_, a, k: sr
    it.session.contracts[spikeglx.Reader.close] = lambda it_, a, k: a[0].attrs.__setitem__("closed_by_worker", True)
    it.session.contracts[np.load] = lambda it_, a, k: satfile
    it.session.contracts[V.saturation] = saturation_summary
    it.session.contracts[scipy.signal.sosfiltfilt] = same_shape_summary("hp", 1)
    it.session.contracts[fourier.fshift] = same_shape_summary("fshift", 0)
    it.session.contracts[V.interpolate_bad_channels] = same_shape_summary("interp", 0)
    it.session.contracts[np.dot] = same_shape_summary("whiten", 0)
    it.session.note_function(FN)
    fenv = I.Env(env, FN.__globals__, qualname="decompress_destripe_cbin.my_function", filename=filename)
    fenv.funcnode = inner
    fenv.vars["i_chunk"] = SV(ichunk)
    fenv.vars["n_chunk"] = SV(nchunk)
    it.ctx.func = fenv.qualname
    loops = [s for s in inner.body if isinstance(s, ast.While)]
    assert len(loops) == 1, "my_function: expected exactly one top-level while loop"
    loop = loops[0]
    before = inner.body[:inner.body.index(loop)]
    after = inner.body[inner.body.index(loop) + 1:]
    assert not after, "my_function: statements after the loop are not covered"
    sym = dict(sat_off=sat_off, item=out_dt.itemsize, out_dt=out_dt, ns=ns, nc=nc, ncv=ncv, NB=NB, CHUNK=CHUNK, ichunk=ichunk, nchunk=nchunk, offset=offset, nc_out=nc_out, TAPER=TAPER, raw=raw, satfile=satfile,
               rms_offset=rms_offset, time_offset=time_offset, ns2add=ns2add, rate=rate, out=out_path, rms=rms_path, time=time_path, sr=sr)
    return fenv, before, loop, sym


def files_of(it, path):
    return getattr(it.session, "ghost_files", {}).get(path.key, [])


def run_batch(H, variant, tag):
    S = H.session(f"batch.{tag}")

    def body(it):
        fenv, before, loop, y = setup(it, variant)
        TAPER, NB, ns, offset, nc_out, ncv = y["TAPER"], y["NB"], y["ns"], y["offset"], y["nc_out"], y["ncv"]
        stride = NB - 2 * TAPER
        try:
            it.exec_block(before, fenv)
        except I.ReturnEx:
            # the worker returned before its loop: only right when its first batch is not a real one (the batch before it already reaches
            # the end of the recording), and then it must not have touched any output
            nbp = term(fenv.vars["n_batch"])
            it.ctx.oblige(f"skip.only_phantom_workers.{tag}", z3.And(nbp >= 1, NB + stride * (nbp - 1) >= ns), "post",
                          "a worker gives up before its loop only if the batch before its first one already reaches the end of the recording")
            it.ctx.oblige(f"skip.touches_nothing.{tag}", z3.BoolVal(not files_of(it, y["out"]) and not files_of(it, y["rms"]) and not files_of(it, y["time"])), "post",
                          "and then opens / writes none of the output files")
            return
        fid = files_of(it, y["out"])[-1]
        nb0 = term(fenv.vars["n_batch"])
        first0 = term(fenv.vars["first_s"])
        it.ctx.oblige(f"inv_init.first_batch_is_real.{tag}", z3.Or(nb0 == 0, NB + stride * (nb0 - 1) < ns), "inv_init",
                      "a worker that enters its loop starts at a real batch: the batch before it does not reach the end of the recording (no phantom batch)")
        # ---- invariant established by the prologue
        item = y["item"]
        pos_of = lambda first: offset + z3.If(first == 0, z3.IntVal(0), first + TAPER) * nc_out * item     # noqa
        it.ctx.oblige(f"inv_init.first_s.{tag}", first0 == stride * nb0, "inv_init")
        it.ctx.oblige(f"inv_init.file_position.{tag}", term(fid.pos) == pos_of(first0), "inv_init", "worker seeks to the position of its first batch")
        it.ctx.oblige(f"inv_init.start_batch.{tag}", z3.And(nb0 >= 0, z3.Implies(y["ichunk"] == 0, nb0 == 0)), "inv_init")
        Xp = y["ichunk"] * y["CHUNK"]
        it.ctx.oblige(f"inv_init.start_batch_formula.{tag}", z3.And(nb0 * NB >= Xp, (nb0 - 1) * NB < Xp), "inv_init",
                      "the worker's first batch is ceil(i_chunk*CHUNK_SIZE / NBATCH): the quantity the no-gap lemma (worker_arithmetic:workers.no_gap) is stated about")
        max_s_code = term(fenv.vars["max_s"])
        it.ctx.oblige(f"inv_init.boundary_formula.{tag}", max_s_code == z3.If(y["ichunk"] == y["nchunk"] - 1, ns, (y["ichunk"] + 1) * y["CHUNK"]), "inv_init",
                      "the worker's boundary is (i_chunk+1)*CHUNK_SIZE, the end of the recording for the last worker")
        if variant.get("compute_rms", True):
            aid = files_of(it, y["rms"])[-1]
            tid = files_of(it, y["time"])[-1]
            it.ctx.oblige(f"inv_init.rms_position.{tag}", z3.And(term(aid.pos) == y["rms_offset"] + nb0 * ncv * 4, term(tid.pos) == y["time_offset"] + nb0 * 4), "inv_init")
        # ---- arbitrary batch b of this worker: state given by the invariant
        b = z3.Int("b")
        it.ctx.assume(b >= nb0)
        first = stride * b
        # b is a real batch: for the worker's first batch this is inv_init.first_batch_is_real, for later ones the loop went on because the
        # previous batch stayed short of the worker's boundary (<= ns)
        it.ctx.assume(z3.Or(b == 0, NB + stride * (b - 1) < ns))
        fenv.vars["first_s"] = SV(first)
        fid.pos = wrap(pos_of(first))
        if variant.get("compute_rms", True):
            aid.pos = wrap(y["rms_offset"] + b * ncv * 4)
            tid.pos = wrap(y["time_offset"] + b * 4)
        nw0 = len(fid.writes)
        satbefore = y["satfile"].snapshot()
        try:
            it.exec_block(loop.body, fenv)
            exited = False
        except I.BreakEx:
            exited = True
        last = z3.If(NB + first <= ns, NB + first, ns)
        a_b = z3.If(first == 0, z3.IntVal(0), first + TAPER)
        e_b = z3.If(last == ns, ns, first + NB - TAPER)
        max_s = z3.If(y["ichunk"] == y["nchunk"] - 1, ns, (y["ichunk"] + 1) * y["CHUNK"])
        it.ctx.oblige(f"exit.iff.{tag}", z3.BoolVal(exited) == (last >= max_s), "post", "the worker stops after the first batch that reaches its boundary")
        # ---- what the opaque steps are handed (equals batch-wise in-memory destriping: the same header, labels and rows as destripe() uses)
        oc = getattr(it.ctx, "opaque_calls", [])
        hh = fenv.lookup("h")
        sh_calls = [c_ for c_ in oc if c_["name"] == "fshift"]
        it.ctx.oblige(f"dataflow.shift_by_the_header_of_the_run.{tag}", z3.BoolVal(all((c_["kwargs"].get("s") if "s" in c_["kwargs"] else (c_["args"][1] if len(c_["args"]) > 1 else None)) is hh["sample_shift"] for c_ in sh_calls)), "post",
                      "a batch re-aligned with the plain Fourier shift (the last one) uses the sampling delays of the header resolved for the run - the ones the stencil of every other batch is built from")
        if variant.get("reject"):
            ic = [c_ for c_ in oc if c_["name"] == "interp"]
            sc_ = [c_ for c_ in oc if c_["name"] == "spatial"]
            ok_i = len(ic) == 1 and len(ic[0]["args"]) >= 4 and ic[0]["args"][1] is fenv.lookup("channel_labels") and ic[0]["args"][2] is hh["x"] and ic[0]["args"][3] is hh["y"]
            it.ctx.oblige(f"dataflow.repair_sees_every_channel.{tag}", z3.And(z3.BoolVal(ok_i), A.T(ic[0]["args"][0].shape[0]) == ncv) if ok_i else z3.BoolVal(False), "post",
                          "dead / noisy channels are rebuilt from the whole batch with the labels and coordinates of the run (outside-brain neighbours are legitimate sources), before the channels outside the brain are set aside")
            w = [x_ for x_ in it.ctx.where_log if x_["ndim"] == 1]
            ok_s = len(sc_) == 1 and ok_i and len(w) >= 1
            if ok_s:
                xin, rep = sc_[0]["args"][0], ic[0]["out_at_return"]
                r_, t_ = z3.Ints("r_ t_")
                m_, rows_ = w[-1]["count"], w[-1]["rows"]
                it.ctx.oblige(f"dataflow.spatial_filter_sees_the_repaired_rows.{tag}", z3.And(A.T(xin.shape[0]) == m_, A.forall([r_, t_], lambda: z3.Implies(z3.And(r_ >= 0, r_ < m_, t_ >= 0, t_ < A.T(xin.shape[1])),
                              xin.read((r_, t_)) == rep((rows_(r_), t_))))), "post", "the spatial filter receives the rows inside the brain of the repaired batch", assume=False)
        new = fid.writes[nw0:]
        npos = fid.positions[nw0:]
        ok = len(new) >= 1
        it.ctx.oblige(f"write.one_block.{tag}", z3.BoolVal(ok), "post")
        if not ok:
            return
        blk = new[0]
        r, c, t = z3.Ints("r c t")
        it.ctx.oblige(f"write.position.{tag}", term(npos[0]) == offset + a_b * nc_out * item, "post", "every sample sits at its own position: block of batch b starts at sample a_b (in bytes of the output type)")
        it.ctx.oblige(f"write.rows.{tag}", z3.And(z3.BoolVal(blk.dtype == y["out_dt"] and blk.ndim == 2), A.T(blk.shape[0]) == e_b - a_b, A.T(blk.shape[1]) == nc_out), "post",
                      "kept range [taper, NBATCH-taper), first batch from 0, last batch to the end")
        raw = y["raw"]
        it.ctx.oblige(f"sync.bit_identical.{tag}", A.forall([r, c], lambda: z3.Implies(z3.And(r >= 0, r < e_b - a_b, c >= ncv, c < nc_out), blk.read((r, c)) == raw.read((a_b + r, c)))), "post",
                      "the sync channel is copied bit for bit", assume=False)
        sc = getattr(it.ctx, "sat_call", None)
        it.ctx.oblige(f"sat.slice.{tag}", z3.And(z3.BoolVal(sc is not None), A.forall([t], lambda: z3.And(
            z3.Implies(z3.And(t >= first, t < last), y["satfile"].read((y["sat_off"] + t,)) == sc["sat"].read((t - first,))),
            z3.Implies(z3.And(t >= -y["sat_off"], t < ns, z3.Or(t < first, t >= last)), y["satfile"].read((y["sat_off"] + t,)) == satbefore((y["sat_off"] + t,)))))) if sc else z3.BoolVal(False), "post",
            "the saturation file gets this batch's flags at the entries of samples [first_s, last_s) of this run (after the entries of the runs appended before) and nothing else", assume=False)
        if sc and len(sc["data_shape"]) == 2:
            s2v_ = z3.Real("s2v")
            it.ctx.oblige(f"sat.sees_the_batch_as_read.{tag}", z3.And(A.T(sc["data_shape"][0]) == ncv, A.T(sc["data_shape"][1]) == last - first,
                          A.forall([c, t], lambda: z3.Implies(z3.And(c >= 0, c < ncv, t >= 0, t < last - first), sc["data"]((c, t)) == z3.ToReal(raw.read((first + t, c))) * s2v_))), "post",
                          "the saturation flags of samples [first_s, last_s) are computed on the calibrated traces of those samples as read from the recording (before tapering or filtering): one entry per sample, about that sample",
                          assume=False)
        if variant.get("compute_rms", True):
            it.ctx.oblige(f"rms.one_row.{tag}", z3.And(z3.BoolVal(len(aid.writes) == 1 and len(tid.writes) == 1), term(aid.positions[0]) == y["rms_offset"] + b * ncv * 4, A.T(aid.writes[0].shape[0]) == ncv,
                                                        term(tid.positions[0]) == y["time_offset"] + b * 4, z3.BoolVal(aid.writes[0].dtype == np.dtype("float32"))) if len(aid.writes) == 1 and len(tid.writes) == 1 else z3.BoolVal(False),
                          "post", "one RMS row and one timestamp per batch, at the batch's own position")
            if len(tid.writes) == 1:
                it.ctx.oblige(f"rms.timestamp.{tag}", tid.writes[0].read(tuple(z3.IntVal(0) for _ in tid.writes[0].shape)) == z3.Real("t0") + (z3.ToReal(first) + (z3.ToReal(last - first) - 1) / 2) / y["rate"], "post", "timestamp = centre of the batch")
        if not exited:
            it.ctx.oblige(f"inv_step.first_s.{tag}", term(fenv.vars["first_s"]) == stride * (b + 1), "inv_step")
            it.ctx.oblige(f"inv_step.file_position.{tag}", term(fid.pos) == pos_of(stride * (b + 1)), "inv_step", "after the write the file is positioned at the next batch's first kept sample")
            if variant.get("compute_rms", True):
                it.ctx.oblige(f"inv_step.rms_position.{tag}", z3.And(term(aid.pos) == y["rms_offset"] + (b + 1) * ncv * 4, term(tid.pos) == y["time_offset"] + (b + 1) * 4), "inv_step")
        else:
            pad = new[1:]
            it.ctx.oblige(f"exit.files_closed.{tag}", z3.BoolVal(fid.closed), "post")
            want_pad = z3.And(last == ns, y["ns2add"] > 0)
            if pad:
                p = pad[0]
                it.ctx.oblige(f"pad.rows.{tag}", z3.And(want_pad, A.T(p.shape[0]) == y["ns2add"], A.T(p.shape[1]) == nc_out, term(npos[1]) == offset + ns * nc_out * item,
                                                          A.forall([r, c], lambda: z3.Implies(z3.And(r >= 0, r < y["ns2add"], c >= 0, c < nc_out), p.read((r, c)) == blk.read((e_b - a_b - 1, c))))), "post",
                              "requested padding: ns2add copies of the last written sample, after the last sample")
            else:
                it.ctx.oblige(f"pad.none.{tag}", z3.Not(want_pad), "post")
    S.explore(body)


def _sat_entries(it, tag, saved, env, ns, append, prev_exists, n_prev, old_sat):
    """the saturation file after the set-up part: one entry per sample of the output file - the entries of the runs appended before (kept), then ns new ones"""
    ok = len(saved) == 1 and isinstance(saved[0][1], SArr) and saved[0][1].dtype.kind == "b"
    if not ok:
        it.ctx.oblige(f"setup.saturation_file_one_entry_per_sample.{tag}", z3.BoolVal(False), "post", "the saturation file is saved once, as a boolean vector")
        return
    arr = saved[0][1]
    off = env.vars.get("saturation_offset")
    off_t = term(off) if isinstance(off, (SV, int)) else None
    q = z3.Int("q")
    if append:
        keep = z3.And(A.T(arr.shape[0]) == n_prev + ns, A.forall([q], lambda: z3.Implies(z3.And(q >= 0, q < n_prev), arr.read((q,)) == old_sat.read((q,)))))
        fresh = A.T(arr.shape[0]) == ns
        it.ctx.oblige(f"setup.saturation_file_one_entry_per_sample.{tag}", z3.If(prev_exists, keep, fresh), "post",
                      "appending: the entries of the runs already in the output file are kept and one entry per sample of this run is added after them (nothing to keep if there is no file yet)", assume=False)
        it.ctx.oblige(f"setup.saturation_offset.{tag}", (off_t == z3.If(prev_exists, n_prev, z3.IntVal(0))) if off_t is not None else z3.BoolVal(False), "post",
                      "the batches of this run write after the entries of the earlier runs", assume=False)
    else:
        it.ctx.oblige(f"setup.saturation_file_one_entry_per_sample.{tag}", A.T(arr.shape[0]) == ns, "post", "without append: one boolean entry per sample of the input", assume=False)
        it.ctx.oblige(f"setup.saturation_offset.{tag}", (off_t == 0) if off_t is not None else z3.BoolVal(False), "post", assume=False)


def replay_setup(vals, oid):
    """native: the same output folder used twice without append (second run shorter), and an append run after a first run: sizes and quality files"""
    import pyfftw  # noqa
    import joblib
    bad = []
    d = tempfile.mkdtemp(prefix="c06_")
    try:
        rng = np.random.default_rng(3)
        ap_long, _ = _mk_rec(os.path.join(d), 30000, rng)
        od = os.path.join(d, "out")
        os.makedirs(od)
        out = os.path.join(od, "out.bin")
        with joblib.parallel_backend("threading"):
            V.decompress_destripe_cbin(ap_long, output_file=out, nbatch=8192, nprocesses=1, reject_channels=False, compute_rms=True)
            n_long = np.load(os.path.join(od, "_iblqc_ephysTimeRmsAP.rms.npy")).shape[0]
            d2 = os.path.join(d, "short")
            os.makedirs(d2)
            ap_short, _ = _mk_rec(d2, 12000, rng)
            V.decompress_destripe_cbin(ap_short, output_file=out, nbatch=8192, nprocesses=1, reject_channels=False, compute_rms=True)
        rms = np.load(os.path.join(od, "_iblqc_ephysTimeRmsAP.rms.npy"))
        ts = np.load(os.path.join(od, "_iblqc_ephysTimeRmsAP.timestamps.npy"))
        if os.path.getsize(out) != 12000 * 385 * 2 or rms.shape[0] != 2 or ts.shape[0] != 2 or not np.all(np.diff(ts) > 0):
            bad.append({"second_run_in_the_same_folder": {"output_bytes": os.path.getsize(out), "rms_rows": int(rms.shape[0]), "rows_of_the_first_run": int(n_long), "timestamps": ts[:6].tolist()}})
    finally:
        shutil.rmtree(d, ignore_errors=True)
    return {"failed": bool(bad), "cases": bad}


@harness(PROPERTY, "setup_outputs", functions=["ibldsp.voltage:decompress_destripe_cbin (the statements that create / size the output and quality files)"], replay=replay_setup,
         clause="a file with the input's sample count ... append mode concatenates runs; RMS quality files one entry per batch: a run that does not append starts its output, RMS and timestamp files empty "
                "(nothing of an earlier run in the same folder survives), an appending run starts each of them at its current end and truncates none")
def h_setup(H):
    for append, rms in ((False, True), (True, True), (False, False)):
        S = H.session(f"setup.append{append}" + ("" if rms else ".no_rms"))

        def body(it, append=append, rms=rms):
            node, inner, filename, consts = _nested()
            it.session.note_function(FN)
            fs_ = fsmodel.GhostFS()
            it.session.ghost_fs = fs_
            out_path = fsmodel.GhostPath(fs_, ("out",), "destriped.bin")
            sizes = {}
            for nm in ("destriped.bin", "ap_rms.bin", "ap_time.bin"):
                p_ = fsmodel.GhostPath(fs_, ("out",), nm)
                fs_.exists[p_.key] = True
                sizes[nm] = z3.Int("size_" + nm.replace(".", "_"))
                it.ctx.assume(sizes[nm] >= 0)
                fs_.size[p_.key] = SV(sizes[nm])
            ns = z3.Int("ns")
            it.ctx.assume(ns >= 1)
            saved = []
            it.session.contracts[np.save] = lambda it_, a, k: saved.append(a)
            it.session.contracts[np.frombuffer] = lambda it_, a, k: A.fresh_array("time_data", "float32", (z3.Int("n_times"),))
            it.ctx.assume(z3.Int("n_times") >= 1)
            env = I.Env(None, FN.__globals__, qualname="decompress_destripe_cbin", filename=filename)
            env.vars.update(dict(compute_rms=rms, append=append, output_file=out_path, sr=SObj(spikeglx.Reader, ns=SV(ns))))
            it.ctx.func = env.qualname
            src = [ast.unparse(st) for st in node.body]
            i_rms = [i for i, t in enumerate(src) if t.startswith("if compute_rms:") and "ap_rms_file" in t and "rms_nbytes" in t]
            i_app = [i for i, t in enumerate(src) if t.startswith("if append:") and "offset" in t]
            if len(i_rms) != 1 or len(i_app) != 1:
                raise I.Unsupported("cannot identify the statements that create the quality files / size the output in decompress_destripe_cbin()")
            # the saturation file the batches write their flags to: created by top-level statements of the set-up part (inside or before the rms block)
            n_prev = z3.Int("entries_of_earlier_runs")
            prev_exists = z3.Bool("saturation_file_exists")
            it.ctx.assume(n_prev >= 0)
            sat_path = fsmodel.GhostPath(fs_, ("out",), "_iblqc_ephysSaturation.samples.npy")
            fs_.exists[sat_path.key] = SV(prev_exists)
            old_sat = A.fresh_array("saturation_of_earlier_runs", "bool", (n_prev,))
            it.session.contracts[np.load] = lambda it_, a, k: old_sat
            for i_, t_ in enumerate(src):
                if i_ < i_rms[0] and "file_saturation" in t_ and not t_.startswith("def "):
                    it.exec_stmt(node.body[i_], env)
            it.exec_stmt(node.body[i_rms[0]], env)
            it.exec_stmt(node.body[i_app[0]], env)
            tag = f"append{append}" + ("" if rms else ".no_rms")
            if not rms:
                it.ctx.oblige(f"setup.saturation_file_exists_without_rms.{tag}", z3.BoolVal("file_saturation" in env.vars and len(saved) == 1), "post",
                              "compute_rms=False: the per-sample saturation file every batch writes to is still created (the workers open it unconditionally)")
                trunc = {op[1] for op in fs_.log if op[0] == "open_w"}
                it.ctx.oblige(f"setup.fresh_run_starts_empty.{tag}", z3.BoolVal(fsmodel.GhostPath(fs_, ("out",), "destriped.bin").key in trunc), "post")
                _sat_entries(it, tag, saved, env, ns, append, prev_exists, n_prev, old_sat)
                return
            trunc = {op[1] for op in fs_.log if op[0] == "open_w"}
            keys = {nm: fsmodel.GhostPath(fs_, ("out",), nm).key for nm in sizes}
            g = lambda nm: term(env.vars[nm]) if isinstance(env.vars.get(nm), (SV, int)) else None      # noqa
            if not append:
                it.ctx.oblige(f"setup.fresh_run_starts_empty.{tag}", z3.BoolVal(all(k_ in trunc for k_ in keys.values())), "post",
                              "without append the output file and the RMS / timestamp place holders are truncated (opened for writing), not merely created if missing")
                it.ctx.oblige(f"setup.fresh_run_offsets.{tag}", z3.And(*[g(nm) == 0 for nm in ("offset", "rms_offset", "time_offset", "t0")]) if all(g(nm) is not None for nm in ("offset", "rms_offset", "time_offset", "t0")) else z3.BoolVal(False), "post", assume=False)
            else:
                it.ctx.oblige(f"setup.append_truncates_nothing.{tag}", z3.BoolVal(not trunc), "post", "an appending run truncates none of the three files")
                ok = all(g(nm) is not None for nm in ("offset", "rms_offset", "time_offset"))
                it.ctx.oblige(f"setup.append_offsets.{tag}", z3.And(g("offset") == sizes["destriped.bin"], g("rms_offset") == sizes["ap_rms.bin"], g("time_offset") == sizes["ap_time.bin"]) if ok else z3.BoolVal(False), "post",
                              "and starts each at its current end", assume=False)
            _sat_entries(it, tag, saved, env, ns, append, prev_exists, n_prev, old_sat)
        S.explore(body)


def replay_epilogue(vals, oid):
    """native: a first run publishing its quality files in another folder, then an appending run with the same settings: every quality file covers both runs"""
    import pyfftw  # noqa
    import joblib
    from pathlib import Path
    bad = []
    d = tempfile.mkdtemp(prefix="c06_")
    try:
        rng = np.random.default_rng(5)
        d1, d2, od, qc = (os.path.join(d, x) for x in ("a", "b", "out", "qc"))
        for x in (d1, d2, od, qc):
            os.makedirs(x)
        ap1, x1 = _mk_rec(d1, 9000, rng)
        ap2, x2 = _mk_rec(d2, 7000, rng)
        out = os.path.join(od, "out.bin")
        with joblib.parallel_backend("threading"):
            V.decompress_destripe_cbin(ap1, output_file=out, nbatch=8192, nprocesses=1, reject_channels=False, output_qc_path=Path(qc))
            V.decompress_destripe_cbin(ap2, output_file=out, nbatch=8192, nprocesses=1, reject_channels=False, output_qc_path=Path(qc), append=True)
        sat = np.load(os.path.join(qc, "_iblqc_ephysSaturation.samples.npy"))
        rms = np.load(os.path.join(qc, "_iblqc_ephysTimeRmsAP.rms.npy"))
        nsam = os.path.getsize(out) // (385 * 2)
        first = bool(sat[:9000].any()) if sat.shape[0] >= 9000 else False
        if nsam != 16000 or sat.shape[0] != 16000 or rms.shape[0] != 4 or not first or not sat[9000:].any():
            bad.append({"append_after_a_run_with_output_qc_path": {"output_samples": int(nsam), "saturation_entries": int(sat.shape[0]), "rms_rows": int(rms.shape[0]),
                                                                  "saturated_samples_of_the_first_run_flagged": first}})
    finally:
        shutil.rmtree(d, ignore_errors=True)
    return {"failed": bool(bad), "cases": bad}


@harness(PROPERTY, "epilogue_quality_files", functions=["ibldsp.voltage:decompress_destripe_cbin (the statements after the workers have finished)"], replay=replay_epilogue,
         clause="append mode concatenates runs; the saturation and RMS quality files have one entry per sample and per batch: what the run publishes at its end - RMS rows (batches x channels), "
                "timestamps and the per-sample saturation vector under the quality folder - and what it leaves next to the output for the next appending run (the per-sample saturation file is neither "
                "removed, renamed nor truncated)")
def h_epilogue(H):
    for given in (False, True):
        S = H.session("epilogue.qc_path_" + ("given" if given else "default"))

        def body(it, given=given):
            node, inner, filename, consts = _nested()
            it.session.note_function(FN)
            fs_ = fsmodel.GhostFS()
            it.session.ghost_fs = fs_
            mk = lambda nm, *dirs: fsmodel.GhostPath(fs_, dirs or ("out",), nm)      # noqa
            paths = dict(output_file=mk("destriped.bin"), ap_rms_file=mk("ap_rms.bin"), ap_time_file=mk("ap_time.bin"), file_saturation=mk("_iblqc_ephysSaturation.samples.npy"))
            for p_ in paths.values():
                fs_.exists[p_.key] = True
            qcdir = fsmodel.GhostPath(fs_, (), "qc")
            fs_.exists[qcdir.key] = True
            ncv, nt, nsat = z3.Ints("ncv n_batches n_entries")
            for v_ in (ncv, nt, nsat):
                it.ctx.assume(v_ >= 1)
            saved, loaded, bufs = [], [], []
            sat_arr = A.fresh_array("saturation_file", "bool", (nsat,))

            def frombuffer(it_, a, k):
                # items of the timestamp file = number of batches, items of the RMS file = batches x channels (proved per batch: one row / one timestamp each)
                bufs.append(a[0])
                which = a[0][1] if isinstance(a[0], tuple) and a[0][0] == "BYTES" else None
                if which == paths["ap_rms_file"].key:
                    return A.fresh_array("rms_bytes", "float32", (nt * ncv,))
                if which == paths["ap_time_file"].key:
                    return A.fresh_array("time_bytes", "float32", (nt,))
                raise I.Unsupported("np.frombuffer of something else than the content of the RMS / timestamp place holders")

            def load(it_, a, k):
                loaded.append(a[0])
                return sat_arr

            def move(it_, a, k):
                a[0].rename(a[1] if not (isinstance(a[1], fsmodel.GhostPath) and a[1].key == qcdir.key) else a[1].joinpath(a[0].name))
                return a[1]

            def copy(it_, a, k):
                dst = a[1] if not (isinstance(a[1], fsmodel.GhostPath) and a[1].key == qcdir.key) else a[1].joinpath(a[0].name)
                fs_.log.append(("copy", a[0].key, dst.key))
                fs_.exists[dst.key] = True
                saved.append((dst, ("copy_of", a[0].key)))
                return dst
            it.session.contracts[np.save] = lambda it_, a, k: saved.append((a[0], a[1]))
            it.session.contracts[np.frombuffer] = frombuffer
            it.session.contracts[np.load] = load
            it.session.contracts[shutil.move] = move
            for f_ in (shutil.copy, shutil.copy2, shutil.copyfile):
                it.session.contracts[f_] = copy
            env = I.Env(None, FN.__globals__, qualname="decompress_destripe_cbin", filename=filename)
            env.vars.update(dict(compute_rms=True, append=False, ncv=SV(ncv), output_qc_path=(qcdir if given else None), **paths))
            it.ctx.func = env.qualname
            src = [ast.unparse(st) for st in node.body]
            i_par = [i for i, t in enumerate(src) if "Parallel(" in t]
            if len(i_par) != 1:
                raise I.Unsupported("cannot identify the statement that runs the workers in decompress_destripe_cbin()")
            for st in node.body[i_par[0] + 1:]:
                if isinstance(st, ast.Expr) and "sr.close" in ast.unparse(st):
                    continue
                it.exec_stmt(st, env)
            tag = "given" if given else "default"
            want_dir = qcdir.key if given else paths["output_file"].parent.key
            destructive = [op for op in fs_.log if op[0] in ("unlink", "rename", "open_w") and op[1] == paths["file_saturation"].key]
            it.ctx.oblige(f"epilogue.saturation_file_stays_next_to_the_output.{tag}", z3.BoolVal(not destructive and fs_.ex(paths["file_saturation"].key) is True), "post",
                          "append mode concatenates runs: the per-sample saturation file the next appending run extends is still next to the output, with its entries")
            by_name = {}
            for pth, arr in saved:
                if isinstance(pth, fsmodel.GhostPath):
                    by_name.setdefault(pth.parent.key, []).append((pth.name, arr))
            here = by_name.get(want_dir, [])
            # by default the per-sample file is already where it is published: saving it again onto itself or leaving it alone are the same thing
            in_place = (not given) and not destructive and not any(nm == paths["file_saturation"].name for nm, _ in here)
            it.ctx.oblige(f"epilogue.published_under_the_quality_folder.{tag}", z3.BoolVal(len(here) + (1 if in_place else 0) == 3 and len(saved) == len(here)), "post",
                          "the three quality files end up in the requested folder (next to the output by default) and nowhere else")
            sat_ok = [1 for nm, arr in here if nm == paths["file_saturation"].name and (arr is sat_arr or arr == ("copy_of", paths["file_saturation"].key))] + ([1] if in_place else [])
            it.ctx.oblige(f"epilogue.saturation_published_is_the_file_the_batches_wrote.{tag}", z3.BoolVal(len(sat_ok) == 1 and (all(getattr(l_, "key", None) == paths["file_saturation"].key for l_ in loaded))), "post",
                          "one entry per sample: the published saturation vector is the content of the file the batches wrote their flags to, under the same name")
            two_d = [arr for nm, arr in here if isinstance(arr, SArr) and arr.ndim == 2]
            one_d = [arr for nm, arr in here if isinstance(arr, SArr) and arr.ndim == 1 and arr is not sat_arr]
            ok = len(two_d) == 1 and len(one_d) == 1
            it.ctx.oblige(f"epilogue.rms_one_row_per_batch.{tag}", z3.And(A.T(two_d[0].shape[0]) == nt, A.T(two_d[0].shape[1]) == ncv, A.T(one_d[0].shape[0]) == nt) if ok else z3.BoolVal(False), "post",
                          "RMS file: one row per batch and one column per channel; timestamps: one per batch")
        S.explore(body)


def replay_batch(vals, oid):
    """native: a 20000-sample recording destriped to disk by 1 and by 3 workers (8192-sample batches), saturated stretches where batches are tapered"""
    bad = native_destripe(np.random.default_rng(7), 20000, 8192, (1, 3), False)
    return {"failed": bool(bad), "cases": [repr(b)[:200] for b in bad[:4]]}


@harness(PROPERTY, "batch_car", replay=replay_batch, functions=["ibldsp.voltage:decompress_destripe_cbin.my_function", "spikeglx:Reader.__getitem__", "spikeglx:Reader.read", "ibldsp.utils:rms"],
         clause="every sample at its own position; sync copied bit for bit; saturation / RMS entries per sample / per batch (no channel rejection, no whitening)")
def h_batch(H):
    run_batch(H, {"reject": False, "wrot": False}, "plain")


@harness(PROPERTY, "batch_reject_whiten", replay=replay_batch, functions=["ibldsp.voltage:decompress_destripe_cbin.my_function"], clause="same with channel rejection and whitening")
def h_batch2(H):
    run_batch(H, {"reject": True, "wrot": True}, "reject_wrot")


@harness(PROPERTY, "batch_float32_output", replay=lambda vals, oid: (lambda b: {"failed": bool(b), "cases": [repr(x)[:200] for x in b[:4]]})(native_destripe(np.random.default_rng(7), 20000, 8192, (1, 3), False, out_dtype=np.float32)),
         functions=["ibldsp.voltage:decompress_destripe_cbin.my_function", "ibldsp.voltage:decompress_destripe_cbin (the statements that set nbytes / rms_nbytes)"],
         clause="every sample at its own position, byte-identical for any number of workers: also when the output is written as float32 (documented option), positions counted in bytes of the output type")
def h_batch4(H):
    run_batch(H, {"reject": False, "wrot": False, "out_dtype": "float32"}, "float32")


@harness(PROPERTY, "batch_norms", replay=replay_batch, functions=["ibldsp.voltage:decompress_destripe_cbin.my_function"], clause="same without the RMS quality files")
def h_batch3(H):
    run_batch(H, {"reject": False, "wrot": False, "compute_rms": False}, "norms")


@harness(PROPERTY, "worker_arithmetic", functions=["ibldsp.voltage:decompress_destripe_cbin.my_function"],
         clause="batches tile [0, ns); consecutive workers leave no gap; duplicated batches write identical bytes at identical positions")
def h_lemmas(H):
    node, inner, filename, consts = _nested()
    T = consts["SAMPLES_TAPER"]
    ns, N, b, X, n1, e0 = z3.Ints("ns NBATCH b X n_next e_this")
    stride = N - 2 * T
    pre = [ns >= 1, N > 2 * T]
    a = lambda bb: z3.If(bb == 0, z3.IntVal(0), stride * bb + T)     # noqa
    last = lambda bb: z3.If(N + stride * bb <= ns, N + stride * bb, ns)     # noqa
    e = lambda bb: z3.If(last(bb) == ns, ns, stride * bb + N - T)     # noqa
    H.lemma("tiling.contiguous", pre + [b >= 0, last(b) < ns], e(b) == a(b + 1), "kept ranges of consecutive batches abut")
    H.lemma("tiling.first", pre, a(0) == 0)
    H.lemma("tiling.last_reaches_end", pre + [b >= 0, stride * b < ns, last(b) == ns], e(b) == ns)
    H.lemma("tiling.non_empty", pre + [b >= 0, stride * b < ns, z3.Implies(b > 0, last(b - 1) < ns)], a(b) < e(b))
    # worker boundary X = (i+1)*CHUNK: this worker ends at the first batch e_this with last(e_this) >= X; the next worker starts at ceil(X / NBATCH)
    hyp = pre + [X >= 1, X <= ns, n1 * N >= X, (n1 - 1) * N < X, e0 >= 0, last(e0) >= X, z3.Implies(e0 > 0, last(e0 - 1) < X)]
    H.lemma("workers.no_gap", hyp, n1 <= e0 + 1, "the next worker's first batch is at most one after this worker's last batch")
    H.lemma("workers.position_determined", pre + [b >= 0], a(b) == z3.If(b == 0, 0, stride * b + T), "a batch's file position depends on its index only, so a batch processed twice rewrites the same bytes")
    # the next worker's first batch may lie beyond the last real batch (short recording x many workers; was finding F-C06-1): such a worker
    # now returns at once (guard in my_function, checked by the batch harnesses); nothing is lost by that:
    B = z3.Int("B")       # number of real batches: the first b with last(b) == ns is B-1
    realB = [B >= 1, last(B - 1) == ns, z3.Implies(B > 1, last(B - 2) < ns)]
    guard = z3.And(n1 > 0, stride * n1 + 2 * T >= ns)
    H.lemma("workers.guard_iff_phantom", hyp + realB, guard == (n1 > B - 1), "the guard is true exactly when the worker's first batch is not a real batch")
    H.lemma("workers.skipped_worker_loses_nothing", hyp + realB + [guard], e0 >= B - 1, "if the next worker has nothing to do, this worker's last batch is the last real one")
    H.input(ns=ns, NBATCH=N, X=X, n_next=n1, e_this=e0, B=B)
    H.cover("workers.pre", hyp + [e0 >= 2])


# ----------------------------------------------------------------------------- bounded (shim for pyfftw)
FIXM = os.path.join(os.path.dirname(spikeglx.__file__), "tests", "fixtures", "sample3B_g0_t0.imec1.ap.meta")


def _mk_rec(d, ns, rng, saturate=True, nbatch=None):
    nc = 385
    ap = os.path.join(d, "rec.imec1.ap.bin")
    x = (rng.standard_normal((ns, nc)) * 30).astype(np.int16)
    if saturate:
        s0 = int(ns * 0.4)
        x[s0:s0 + 50, :300] = 32000
        # saturated stretches where a batch is tapered: the first samples of the recording, just after the start of the second batch, the last samples
        x[3:40, :200] = -32000
        x[ns - 30:ns - 2, 100:350] = 32000
        if nbatch and ns > nbatch:
            b1 = nbatch - 2048
            x[b1 + 5:b1 + 90, :250] = 32000
    x[:, -1] = rng.integers(0, 2 ** 15, ns).astype(np.int16)
    x.tofile(ap)
    with open(FIXM) as f, open(ap[:-3] + "meta", "w") as g:
        for line in f:
            if line.startswith("fileSizeBytes"):
                line = f"fileSizeBytes={ns * nc * 2}\n"
            elif line.startswith("fileTimeSecs"):
                line = f"fileTimeSecs={ns / 30000:.10f}\n"
            g.write(line)
    return ap, x


def native_destripe(rng, ns, nbatch, workers, k_filter, out_dtype=None):
    import pyfftw  # noqa  (the shim on sys.path)
    bad = []
    d = tempfile.mkdtemp(prefix="c06_")
    try:
        ap, x = _mk_rec(d, ns, rng, nbatch=nbatch)
        sr0 = spikeglx.Reader(ap)
        volts = x[:, :384].astype(np.float32) * sr0.sample2volts[:384]
        want_sat = V.saturation(volts.T, max_voltage=sr0.range_volts[:384], fs=sr0.fs)[0]          # one entry per sample, about that sample: the whole recording at once
        sr0.close()
        outs = {}
        for w in workers:
            od = os.path.join(d, f"w{w}")
            os.makedirs(od)
            out = os.path.join(od, "out.bin")
            import joblib
            with joblib.parallel_backend("threading"):      # same fan-out over chunks; avoids spawning loky workers inside the check
                V.decompress_destripe_cbin(ap, output_file=out, nbatch=nbatch, nprocesses=w, k_filter=k_filter, reject_channels=False, compute_rms=True, **({"dtype": out_dtype} if out_dtype else {}))
            y = np.fromfile(out, dtype=out_dtype or np.int16)
            if y.size != ns * 385:
                bad.append(("size", w, y.size // 385, ns))
                continue
            y = y.reshape(ns, 385)
            sat = np.load(os.path.join(od, "_iblqc_ephysSaturation.samples.npy"))
            rms = np.load(os.path.join(od, "_iblqc_ephysTimeRmsAP.rms.npy"))
            nbat = 1
            while (nbatch - 2048) * (nbat - 1) + nbatch < ns:
                nbat += 1
            if sat.shape != (ns,):
                bad.append(("saturation length", w, sat.shape))
            elif not np.array_equal(sat.astype(bool), want_sat):
                dif = np.flatnonzero(sat.astype(bool) != want_sat)
                bad.append(("saturation flags differ from those of the samples themselves", w, int(dif.size), dif[:5].tolist()))
            if rms.shape[0] != nbat:
                bad.append(("rms rows", w, rms.shape[0], nbat))
            if not np.array_equal(y[:, -1], x[:, -1]):
                bad.append(("sync differs", w, int(np.sum(y[:, -1] != x[:, -1]))))
            outs[w] = y
        ws = sorted(outs)
        for w in ws[1:]:
            if not np.array_equal(outs[ws[0]], outs[w]):
                bad.append(("bytes differ across worker counts", ws[0], w, int(np.sum(np.any(outs[ws[0]] != outs[w], axis=1)))))
        return bad
    finally:
        shutil.rmtree(d, ignore_errors=True)


@bounded(PROPERTY, "native_workers", bound="NumPy/SciPy shim for the two pyfftw calls; ns in {9000, 20000, 33333} x nbatch in {4096, 8192} x workers {1,2,3,5,8} (quick: 3 combos incl. 7 and 8 workers on 12000 / 20000 samples) x {k-filter, car}, saturated stretch: "
         "output size, sync column vs source, byte identity across worker counts, saturation length, RMS rows",
         clause="byte identity for any worker count, sync bit for bit, QC file lengths")
def b_native(B):
    shim = os.path.join(os.path.dirname(os.path.dirname(os.path.abspath(__file__))), "shim")
    if shim not in sys.path:
        sys.path.insert(0, shim)
    os.environ["PYTHONPATH"] = shim + os.pathsep + os.environ.get("PYTHONPATH", "")
    rng = np.random.default_rng(B.seed)
    # incl. short recordings split between many workers (some of them have no batch of their own left: they must do nothing)
    combos = [(9000, 4096, (1, 2, 3), False), (20000, 8192, (1, 2, 8), False), (12000, 4096, (1, 3, 7), True)]
    if B.tier == "thorough":
        combos = [(ns, nb, (1, 2, 3, 5, 8), kf) for ns in (9000, 20000, 33333) for nb in (4096, 8192) for kf in (False, True)]
    # an output folder used again (not in append mode) for a run with fewer batches: quality files and output are those of a fresh folder
    import joblib
    d = tempfile.mkdtemp(prefix="c06_")
    try:
        ap, x = _mk_rec(d, 12000, rng)
        res = {}
        for tag, folder, nbs in (("fresh", "a", (8192,)), ("reused", "b", (4096, 8192))):
            od = os.path.join(d, folder)
            os.makedirs(od)
            for nb_ in nbs:
                with joblib.parallel_backend("threading"):
                    V.decompress_destripe_cbin(ap, output_file=os.path.join(od, "out.bin"), nbatch=nb_, nprocesses=2, reject_channels=False, compute_rms=True)
            res[tag] = (np.fromfile(os.path.join(od, "out.bin"), dtype=np.int16), np.load(os.path.join(od, "_iblqc_ephysTimeRmsAP.rms.npy")),
                        np.load(os.path.join(od, "_iblqc_ephysTimeRmsAP.timestamps.npy")), np.load(os.path.join(od, "_iblqc_ephysSaturation.samples.npy")))
        same = all(a_.shape == b_.shape and np.array_equal(a_, b_) for a_, b_ in zip(res["fresh"], res["reused"]))
        B.case("output_folder_used_again", bool(same), detail={"rms_rows": [int(res[k][1].shape[0]) for k in ("fresh", "reused")], "timestamps": [int(res[k][2].shape[0]) for k in ("fresh", "reused")]})
    finally:
        shutil.rmtree(d, ignore_errors=True)
    # whitening given as an amplitude scalar (documented) == the same amplitude times the identity matrix, byte for byte
    import pyfftw  # noqa
    import joblib
    d = tempfile.mkdtemp(prefix="c06_")
    try:
        ap, x = _mk_rec(d, 12000, rng, nbatch=8192)
        outs = []
        for k_, wr in enumerate((2.0, np.eye(384) * 2.0)):
            od = os.path.join(d, f"wrot{k_}")
            os.makedirs(od)
            with joblib.parallel_backend("threading"):
                V.decompress_destripe_cbin(ap, output_file=os.path.join(od, "out.bin"), nbatch=8192, nprocesses=1, reject_channels=False, compute_rms=False, wrot=wr)
            outs.append(np.fromfile(os.path.join(od, "out.bin"), dtype=np.int16))
        okw = outs[0].shape == outs[1].shape == (12000 * 385,) and np.array_equal(outs[0], outs[1])
        B.case("scalar_whitening_equals_scaled_identity", bool(okw), detail={"sizes": [int(o.size) for o in outs], "differing": int(np.sum(outs[0] != outs[1])) if outs[0].shape == outs[1].shape else -1}, inputs={"kind": "wrot_scalar"})
    finally:
        shutil.rmtree(d, ignore_errors=True)
    # append mode: a second recording destriped after a first one into the same file: sizes add up, RMS rows add up, and the saturation file has one entry per
    # sample of the concatenated output - the first run's flags kept, the second run's flags after them
    d = tempfile.mkdtemp(prefix="c06_")
    try:
        d1, d2 = os.path.join(d, "a"), os.path.join(d, "b")
        os.makedirs(d1)
        os.makedirs(d2)
        ap1, x1 = _mk_rec(d1, 20000, rng, nbatch=8192)
        ap2, x2 = _mk_rec(d2, 12000, rng, nbatch=8192)
        od = os.path.join(d, "out")
        os.makedirs(od)
        out = os.path.join(od, "out.bin")
        with joblib.parallel_backend("threading"):
            V.decompress_destripe_cbin(ap1, output_file=out, nbatch=8192, nprocesses=2, reject_channels=False)
            s1 = np.load(os.path.join(od, "_iblqc_ephysSaturation.samples.npy")).copy()
            V.decompress_destripe_cbin(ap2, output_file=out, nbatch=8192, nprocesses=2, reject_channels=False, append=True)
        sat = np.load(os.path.join(od, "_iblqc_ephysSaturation.samples.npy"))
        rms = np.load(os.path.join(od, "_iblqc_ephysTimeRmsAP.rms.npy"))
        y = np.fromfile(out, dtype=np.int16)
        srb = spikeglx.Reader(ap2)
        want2 = V.saturation((x2[:, :384].astype(np.float32) * srb.sample2volts[:384]).T, max_voltage=srb.range_volts[:384], fs=srb.fs)[0]
        srb.close()
        oka = y.size == 32000 * 385 and np.array_equal(y.reshape(32000, 385)[:, -1], np.r_[x1[:, -1], x2[:, -1]]) and rms.shape[0] == 5
        oks = sat.shape == (32000,) and np.array_equal(sat[:20000], s1) and np.array_equal(sat[20000:].astype(bool), want2)
        B.case("append_concatenates_output_and_rms", bool(oka), detail={"output_samples": int(y.size // 385), "rms_rows": int(rms.shape[0])}, inputs={"kind": "append_run"})
        B.case("append_saturation_one_entry_per_output_sample", bool(oks), detail={"saturation_entries": list(sat.shape), "output_samples": int(y.size // 385), "first_run_kept": bool(sat.size >= 20000 and np.array_equal(sat[:20000], s1))},
               inputs={"kind": "append_saturation"})
    finally:
        shutil.rmtree(d, ignore_errors=True)
    # append mode together with padding (both in the statement's configuration box): after the second run, entry k of the saturation file describes sample k of the output
    d = tempfile.mkdtemp(prefix="c06_")
    try:
        d1, d2, od = (os.path.join(d, x_) for x_ in ("a", "b", "out"))
        for x_ in (d1, d2, od):
            os.makedirs(x_)
        ap1, x1 = _mk_rec(d1, 9000, rng)
        ap2, x2 = _mk_rec(d2, 7000, rng)
        out = os.path.join(od, "out.bin")
        with joblib.parallel_backend("threading"):
            V.decompress_destripe_cbin(ap1, output_file=out, nbatch=8192, nprocesses=1, reject_channels=False, ns2add=100)
            n1 = os.path.getsize(out) // (385 * 2)
            V.decompress_destripe_cbin(ap2, output_file=out, nbatch=8192, nprocesses=1, reject_channels=False, ns2add=100, append=True)
        n2 = os.path.getsize(out) // (385 * 2)
        sat = np.load(os.path.join(od, "_iblqc_ephysSaturation.samples.npy"))
        srb = spikeglx.Reader(ap2)
        want2 = V.saturation((x2[:, :384].astype(np.float32) * srb.sample2volts[:384]).T, max_voltage=srb.range_volts[:384], fs=srb.fs)[0].astype(bool)
        srb.close()
        aligned = sat.shape[0] >= n1 + 7000 and np.array_equal(sat[n1:n1 + 7000].astype(bool), want2)
        B.case("append_with_padding_saturation_follows_the_output", bool((n1, n2) == (9100, 16200) and aligned),
               detail={"output_samples_after_each_run": [int(n1), int(n2)], "saturation_entries": int(sat.shape[0]), "flags_of_the_second_run_at_its_output_positions": bool(aligned)},
               inputs={"kind": "append_with_padding"})
    finally:
        shutil.rmtree(d, ignore_errors=True)
    badf = native_destripe(rng, 20000, 8192, (1, 3) if B.tier == "quick" else (1, 2, 3, 5), False, out_dtype=np.float32)
    B.case(("float32_output", 20000, 8192), not badf, detail=badf[:4], inputs={"kind": "destripe_float32"})
    for ns, nb, workers, kf in combos:
        bad = native_destripe(rng, ns, nb, workers, kf)
        phantom = [x for x in bad if x[0] in ("rms rows", "bytes differ across worker counts")]
        other = [x for x in bad if x not in phantom]
        if phantom:
            B.case(("phantom", ns, nb, workers, kf), False, detail=phantom[:3], inputs={"kind": "phantom_batch", "ns": ns, "nbatch": nb})
        B.case((ns, nb, workers, kf), not other, detail=other[:4], inputs={"kind": "destripe", "ns": ns, "nbatch": nb, "workers": list(workers), "k_filter": kf})


# ----------------------------------------------------------------------------- contracts of dependencies this property rests on (re-checked here)
from pyvc.api import depends  # noqa: E402
depends(PROPERTY, "C11", ["open_cbin", "open_int16"])      # "a file with the input's sample count": the reader the workers open exposes every complete sample of the recording, whatever the metadata announce and whatever the warning option
