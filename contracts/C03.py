"""C03 - NP2.4 shank splitting is lossless and reconstruction is its exact inverse.

Functions under contract: neuropixel.NP2Converter._process_NP24 (window loop body), ._ind2save, ._split2shanks, .extract_lfp_sync,
spikeglx.Reader.__getitem__/read (inlined, C01), ibldsp.utils.WindowGenerator (contract of C17), neuropixel.NP2Reconstructor._reconstruct
(window loop body).  Metadata rewrite and the channel-subset string round trip: bounded stand-in (real files).
"""
import os
import shutil
import tempfile

import numpy as np
import z3

import neuropixel
import spikeglx
from pyvc.api import harness, bounded, property_meta, run_function
from pyvc.core import SV, term, fresh_name
from pyvc import arrays as A, interp as I, fsmodel
from pyvc.interp import SObj
from contracts import np2common as N, C17

PROPERTY = "C03"
property_meta(
    PROPERTY, level="other",
    trusted_base=["A-PY", "A-NP-INDEX", "A-INT64",
                  "A-REAL for the index/placement obligations; A-FPSTD (binary32 standard rounding model, |d|<=2^-24 per multiply/divide, exact int16->float32 conversion) for the value obligation",
                  "C17 generator contract + nwin == count (proved in C17)", "C09: AP channels share one volts-per-bit factor, sync factor is 1",
                  "per-shank channel lists are where(shank==s)+[sync] (strictly increasing, partition of the AP columns): precondition taken from _prepare_files_NP24 / the assert in NP2Reconstructor._prepare_files",
                  "A-SCIPY sosfiltfilt: shape only"],
    explanation="one symbolic iteration of the real window loop: for every window index, window size (multiple of 12), recording length and shank map, the block appended to each shank's AP file "
                "is exactly the original int16 samples [a_j, b_j) of that shank's columns + sync (placement in real arithmetic, value under the binary32 rounding model); the ranges tile [0, ns) (lemma over C17's contract); "
                "the reconstruction loop scatters every column back (inverse).  Metadata / channel-subset strings / end-to-end bytes: bounded stand-in on real files.")

GAINS = [(0.5, 8192), (0.62, 2048), (0.6, 512), (0.62, 8192), (0.5, 2048), (0.6, 8192), (0.5, 512), (0.62, 512), (0.6, 2048)]


def _ap_blocks(it, conv, info, w, tag, fp=False):
    a, b = N.kept_range(info, w)
    raw = info["raw"]
    r, c = z3.Ints("r c")
    for s, ch in enumerate(info["chns"]):
        f = info["shank_info"][f"shank{s}"]["ap_open_file"]
        ok = len(f.writes) == 1
        it.ctx.oblige(f"ap.one_block_per_window.{s}{tag}", z3.BoolVal(ok), "post", "exactly one block is appended to each shank's AP file per window")
        if not ok:
            continue
        blk = f.writes[0]
        m = A.T(ch.shape[0])
        it.ctx.oblige(f"ap.block_shape.{s}{tag}", z3.And(z3.BoolVal(blk.ndim == 2 and blk.dtype == np.dtype("int16")), A.T(blk.shape[0]) == b - a, A.T(blk.shape[1]) == m), "post",
                      "rows == kept range of this window, columns == this shank's channels + sync")
        it.ctx.oblige(f"ap.block_values.{s}{tag}", A.forall([r, c], lambda: z3.Implies(z3.And(r >= 0, r < b - a, c >= 0, c < m), blk.read((r, c)) == raw.read((a + r, ch.read((c,)))))), "post",
                      "every written value is the original int16 sample of that channel at that sample, in order", assume=False)


def replay_exact(vals, oid):
    """all 65536 int16 values through the real read -> _ind2save chain for the catalogued NP2 gains"""
    bad = []
    for rng_v, maxint in GAINS:
        n = native_split_values(rng_v, maxint)
        if n:
            bad.append({"imAiRangeMax": rng_v, "imMaxInt": maxint, "values_off": n})
    return {"failed": bool(bad), "gains": bad}


def native_split_values(rng_v, maxint):
    d = tempfile.mkdtemp(prefix="c03_")
    try:
        ap, D = _mk_np24(d, rng_v, maxint, ns=65536 // 4 + 700, values="all")
        conv = neuropixel.NP2Converter(ap, post_check=False, compress=False)
        conv.init_params(nwindow=12 * 1000, extra="_v")
        conv.process()
        off = 0
        for sh, inf in conv.shank_info.items():
            flat = np.fromfile(inf["ap_file"], dtype=np.int16)
            if flat.size != D.shape[0] * len(inf["chns"]):
                off += D.size
                continue
            got = flat.reshape(-1, len(inf["chns"]))
            off += int(np.sum(got != D[:, inf["chns"]])) if got.shape[0] == D.shape[0] else D.size
        conv.sr.close()
        return off
    finally:
        shutil.rmtree(d, ignore_errors=True)


@harness(PROPERTY, "split_window", functions=["neuropixel:NP2Converter._process_NP24", "neuropixel:NP2Converter._ind2save", "neuropixel:NP2Converter._split2shanks",
                                              "neuropixel:NP2Converter.extract_lfp", "neuropixel:NP2Converter.extract_lfp_sync", "spikeglx:Reader.__getitem__", "spikeglx:Reader.read"],
         clause="each shank's AP file holds exactly the original samples of that shank's channels + sync, in the original order (placement; real arithmetic)")
def h_split(H):
    S = H.session("split.window")

    def body(it):
        conv, info = N.mk_converter(it, nshanks=2)
        w = N.run_window(it, conv, info)
        _ap_blocks(it, conv, info, w, "")
    S.explore(body)
    # tiling lemma over C17's contract: the kept ranges [a_j, b_j) partition [0, ns)
    ns, W, K, j = z3.Ints("ns W K j")
    Yf = z3.Function("Yf", z3.IntSort(), z3.IntSort())
    Yl = z3.Function("Yl", z3.IntSort(), z3.IntSort())
    hyp = [ns >= 2 * N.TAPER, W > N.OVERLAP] + [f for _, f in C17.firstlast_post(ns, W, z3.IntVal(N.OVERLAP), Yf, Yl, K)]
    a = lambda jj: z3.If(jj == 0, z3.IntVal(0), Yf(jj) + 2 * N.TAPER)     # noqa
    b = lambda jj: z3.If(jj == K - 1, ns, Yf(jj) + W - 2 * N.TAPER)       # noqa
    H.lemma("tiling.starts_at_0", hyp, a(0) == 0)
    H.lemma("tiling.contiguous", hyp + [j >= 0, j < K - 1], b(j) == a(j + 1), "no sample lost or duplicated between consecutive windows")
    H.lemma("tiling.ends_at_ns", hyp, b(K - 1) == ns)
    H.lemma("tiling.non_empty", hyp + [j >= 0, j < K], a(j) < b(j))
    H.cover("tiling.pre", hyp + [K >= 3])


@harness(PROPERTY, "split_exact_int16", functions=["neuropixel:NP2Converter._ind2save", "spikeglx:Reader.read"], replay=replay_exact,
         clause="for every sample value and every volts-per-bit setting the volts -> int16 conversion returns the original value (binary32 rounding model)")
def h_exact(H):
    S = H.session("split.exact")

    def body(it):
        A.FP_ERR[0] = True
        try:
            conv, info = N.mk_converter(it, nshanks=1, fp_err=True)
            H.input(s2v=info["s2v"])
            # volts-per-bit factors SpikeGLX can produce for NP2: range in [0.1, 2] V, maxint in [512, 8192], gain 80
            it.ctx.assume(z3.And(info["s2v"] >= z3.RealVal("1/10") / 8192 / 80, info["s2v"] <= z3.RealVal(2) / 512 / 80))
            w = N.run_window(it, conv, info)
            _ap_blocks(it, conv, info, w, ".fp", fp=True)
        finally:
            A.FP_ERR[0] = False
    S.explore(body)


# ----------------------------------------------------------------------------- init_params: the parameters the window harnesses start from
def replay_init_params(vals, oid):
    """the real init_params on a real recording of the counter-model's length (a small one when the model's is impractical)"""
    import scipy.signal
    ns = vals.get("ns")
    rt = vals.get("imSampRate")
    rt = float(rt) if isinstance(rt, (int, float)) and 29000 < rt < 31000 else None
    cases = [(ns if isinstance(ns, int) and 1 <= ns <= 40000 else 7001, vals.get("nsamples_arg"), vals.get("nwindow_arg"), rt), (7001, None, None, None), (3000, 2999, 1200, None), (7001, None, None, 30000.6), (3805, None, None, None)]
    bad = []
    for n, na, wa, rate in cases:
        d = tempfile.mkdtemp(prefix="c03_")
        try:
            ap, _ = _mk_np24(d, 0.5, 8192, ns=n, rng=np.random.default_rng(1), rate=rate)
            conv = neuropixel.NP2Converter(ap, post_check=False, compress=False)
            kw = {k_: v for k_, v in (("nsamples", na), ("nwindow", wa)) if isinstance(v, int) and v >= 1}
            try:
                conv.init_params(**kw)
            except AssertionError:
                conv.sr.close()
                continue
            want = dict(nsamples=kw.get("nsamples", n), samples_window=kw.get("nwindow", 60000), ratio=N.RATIO, samples_overlap=N.OVERLAP, samples_taper=N.TAPER, napch=384, idxsyncch=384)
            got = {k_: getattr(conv, k_, None) for k_ in want}
            if got != want or not np.array_equal(conv.taper, np.r_[0, scipy.signal.windows.cosine((N.TAPER - 1) * 2), 0]) or want["samples_window"] % N.RATIO:
                bad.append({"recording_samples": n, "sampling_rate": rate or 30000, "arguments": kw, "expected": want, "got": {k_: (int(v) if isinstance(v, (int, np.integer)) else repr(v)) for k_, v in got.items()}})
            # the same object asked again without arguments after a call with other settings
            try:
                conv.init_params(nsamples=max(1, n // 3), nwindow=1200, extra="_preview", nshank=[0])
                conv.init_params()
                got2 = dict(nsamples=conv.nsamples, samples_window=conv.samples_window, extra=conv.extra, nshank=conv.nshank)
                if got2 != dict(nsamples=n, samples_window=60000, extra="", nshank=None):
                    bad.append({"recording_samples": n, "calls": "init_params(nsamples=%d, nwindow=1200, extra='_preview', nshank=[0]); init_params()" % max(1, n // 3), "got": {k_: repr(v) for k_, v in got2.items()}})
            except AssertionError:
                pass
            conv.sr.close()
        finally:
            shutil.rmtree(d, ignore_errors=True)
    return {"failed": bool(bad), "cases": bad[:3]}


@harness(PROPERTY, "init_params", functions=["neuropixel:NP2Converter.init_params"], replay=replay_init_params,
         clause="every sample: by default the whole recording is processed, with the window / overlap / taper / decimation parameters the window harnesses are proved for")
def h_init_params(H):
    import scipy.signal
    for how0 in ("default", "given", "default_again"):
        S = H.session(f"init_params.{how0}")
        S.assert_mode = "branch"       # the asserts of init_params are argument checks: a refused call is one of its outcomes

        def body(it, how0=how0):
            how = "default" if how0 == "default_again" else how0
            ns, napch = z3.Ints("ns napch")
            it.ctx.assume(z3.And(ns >= 1, napch >= 1))
            rate = z3.Real("imSampRate")          # the calibrated rate of the probe: close to, never exactly, the nominal 30 kHz
            it.ctx.assume(z3.And(rate > 29000, rate < 31000))
            meta = {"typeThis": "imec", "snsApLfSy": [SV(z3.ToReal(napch)), 0.0, 1.0], "nSavedChans": SV(z3.ToReal(napch + 1)), "imSampRate": SV(rate)}
            sr = SObj(spikeglx.Reader, meta=meta, ns=SV(ns))
            conv = SObj(neuropixel.NP2Converter, sr=sr, np_version="NP2.4")
            H.input(imSampRate=rate)
            if how0 == "default_again":
                # the same object after an earlier call with other settings (a preview of the first samples, say): a call without arguments means the documented defaults again
                pn, pw = z3.Ints("nsamples_of_the_earlier_call nwindow_of_the_earlier_call")
                it.ctx.assume(z3.And(pn >= 1, pw >= 1, pw % N.RATIO == 0))
                H.input(nsamples_of_the_earlier_call=pn, nwindow_of_the_earlier_call=pw)
                conv.attrs.update(dict(fs_ap=30000, fs_lf=2500, ratio=N.RATIO, nsamples=SV(pn), samples_window=SV(pw), samples_overlap=N.OVERLAP, samples_taper=N.TAPER,
                                       napch=SV(napch), idxsyncch=SV(napch), extra="_preview", nshank=[0], check_completed=True))
            kw = {}
            if how == "given":
                n_arg, w_arg = z3.Ints("nsamples_arg nwindow_arg")
                it.ctx.assume(z3.And(n_arg >= 1, w_arg >= 1))
                kw = {"nsamples": SV(n_arg), "nwindow": SV(w_arg)}
                H.input(nsamples_arg=n_arg, nwindow_arg=w_arg)
            H.input(ns=ns, napch=napch)
            try:
                run_function(it, neuropixel.NP2Converter.init_params, [conv], kw)
            except I.PyRaise as e:
                if isinstance(e.exc, AssertionError):
                    return          # the call was refused (window not a multiple of the ratio): nothing is processed with these parameters
                raise
            at = conv.attrs
            g = lambda k_: term(at[k_]) if isinstance(at.get(k_), SV) else at.get(k_)       # noqa
            eq = lambda k_, v: (g(k_) == v) if isinstance(g(k_), z3.ExprRef) or isinstance(v, z3.ExprRef) else z3.BoolVal(isinstance(g(k_), (int, float, np.integer, np.floating)) and g(k_) == v)      # noqa
            how = how0
            if how0 == "default_again":
                it.ctx.oblige("init_params.default_again.folder_suffix_and_shanks", z3.BoolVal(at.get("extra") == "" and at.get("nshank") is None and at.get("check_completed") is False), "post",
                              "no folder suffix, every shank, nothing verified yet: the settings of an earlier call do not survive a call that does not repeat them", assume=False)
            it.ctx.oblige(f"init_params.{how}.samples_to_process", eq("nsamples", n_arg if how == "given" else ns), "post",
                          "the number of samples to process is the caller's, by default all the samples of the recording (nothing rounded away)", assume=False)
            it.ctx.oblige(f"init_params.{how}.window", eq("samples_window", w_arg if how == "given" else z3.IntVal(60000)), "post", "window length: the caller's (accepted only if a multiple of 12), 2 s by default", assume=False)
            if how == "given":
                it.ctx.oblige("init_params.given.window_multiple_of_ratio", w_arg % N.RATIO == 0, "post", "a window that is not a multiple of the decimation ratio is refused (assert)", assume=False)
            it.ctx.oblige(f"init_params.{how}.constants", z3.And(eq("ratio", N.RATIO), eq("samples_overlap", N.OVERLAP), eq("samples_taper", N.TAPER), eq("fs_ap", 30000), eq("fs_lf", 2500)), "post",
                          "decimation ratio 12, overlap 576, taper 144: the values the window harnesses assume", assume=False)
            it.ctx.oblige(f"init_params.{how}.channel_counts", z3.And(eq("napch", napch), eq("idxsyncch", napch)), "post", "AP channel count and first sync column from snsApLfSy", assume=False)
            tp, sos = at.get("taper"), at.get("sos_lp")
            want_tp = np.r_[0, scipy.signal.windows.cosine((N.TAPER - 1) * 2), 0]
            want_sos = scipy.signal.butter(N=2, Wn=1000 / 2500 / 2, btype="lowpass", output="sos")
            it.ctx.oblige(f"init_params.{how}.taper_and_filter", z3.BoolVal(isinstance(tp, np.ndarray) and tp.shape == want_tp.shape and np.array_equal(tp, want_tp)
                                                                            and isinstance(sos, np.ndarray) and np.array_equal(sos, want_sos)), "post",
                          "cosine taper of 2 x 144 samples with zero ends and the order-2 1 kHz low-pass used by the window harnesses", assume=False)
        S.explore(body)


# ----------------------------------------------------------------------------- reconstruction
@harness(PROPERTY, "reconstruct_window", functions=["neuropixel:NP2Reconstructor._reconstruct"],
         replay=lambda vals, oid: (lambda b: {"failed": bool(b), "cases": [repr(x)[:200] for x in b[:3]]})(native_end_to_end(np.random.default_rng(3), *GAINS[2], 61234, 30000, None)
                                                                                                           + native_end_to_end(np.random.default_rng(4), *GAINS[2], 60000, 30000, None)),
         clause="reassembling the per-shank files reproduces the original binary (column scatter is the inverse of the split)")
def h_recon(H):
    S = H.session("recon.window")

    def body(it):
        ns, nch = z3.Ints("ns nch")
        it.ctx.assume(z3.And(ns >= 1, nch >= 2))
        orig = A.fresh_array("orig", "int16", (ns, nch))
        napch = nch - 1
        shank_info = {}
        chs = []
        for s in range(2):
            m = z3.Int(f"nchn{s}")
            it.ctx.assume(z3.And(m >= 1, m <= nch))
            ch = A.fresh_array(f"chns{s}", "int64", (m,), ranged=False)
            A.assume_range(ch, 0, nch - 1)
            k, k2 = z3.Int(fresh_name("k")), z3.Int(fresh_name("k"))
            it.ctx.assume(z3.ForAll([k], z3.Implies(z3.And(k >= 0, k < m - 1), z3.And(ch.uf(k) >= 0, ch.uf(k) < napch)), patterns=[ch.uf(k)]))
            it.ctx.assume(z3.ForAll([k, k2], z3.Implies(z3.And(k >= 0, k < k2, k2 < m), ch.uf(k) < ch.uf(k2)), patterns=[z3.MultiPattern(ch.uf(k), ch.uf(k2))]))
            it.ctx.assume(ch.uf(m - 1) == napch)
            # contract of the split (harness split_window): file of shank s holds orig[:, chns_s]
            fileraw = A.SArr(np.int16, (ns, m), (lambda ch_: lambda idx: orig.read((idx[0], ch_.read((idx[1],)))))(ch))
            sr = SObj(spikeglx.Reader, _raw=fileraw)
            shank_info[f"shank{s}"] = {"chns": ch, "sr": sr}
            chs.append((ch, m))
        # partition: every AP column belongs to exactly one shank (np.where(shank == s) over a total function)
        owner = z3.Function("owner", z3.IntSort(), z3.IntSort())
        pos = z3.Function("pos", z3.IntSort(), z3.IntSort())
        q = z3.Int(fresh_name("q"))
        partition = z3.ForAll([q], z3.Implies(z3.And(q >= 0, q < napch), z3.Or(
            z3.And(owner(q) == 0, pos(q) >= 0, pos(q) < chs[0][1] - 1, chs[0][0].uf(pos(q)) == q),
            z3.And(owner(q) == 1, pos(q) >= 0, pos(q) < chs[1][1] - 1, chs[1][0].uf(pos(q)) == q))))
        it.ctx.assume(partition)
        out = fsmodel.GhostFile("recon")
        rec = SObj(neuropixel.NP2Reconstructor, shank_info=shank_info, nch=SV(nch), nsamples=SV(ns), samples_window=60000, save_file="OUT")
        fn = neuropixel.NP2Reconstructor._reconstruct
        node, filename, before, loop, after = N.loop_parts(fn)
        it.session.note_function(fn)
        it.session.contracts[C17.FIRSTLAST] = N.firstlast_summary_with_nwin
        env = I.Env(None, fn.__globals__, qualname="NP2Reconstructor._reconstruct", filename=filename)
        env.funcnode = node
        env.vars["self"] = rec
        env.vars["file_out"] = out
        it.ctx.func = env.qualname
        import ast
        for st in before:
            if isinstance(st, ast.Assign) and isinstance(st.targets[0], ast.Name) and st.targets[0].id == "file_out":
                continue                       # open(self.save_file, "wb"): the ghost file above
            it.exec_stmt(st, env)
        sit = it.to_iterable(it.eval(loop.iter, env), env)
        Yf, Yl = sit.Y
        j = z3.Int("j")
        it.ctx.assume(z3.And(j >= 0, j < sit.length))
        sit.on_iter(j)
        it.assign(loop.target, sit.item(j), env)
        it.exec_block(loop.body, env)
        ok = len(out.writes) == 1
        it.ctx.oblige("recon.one_block", z3.BoolVal(ok), "post")
        if ok:
            blk = out.writes[0]
            r, c = z3.Ints("r c")
            L = Yl(j) - Yf(j)
            it.ctx.oblige("recon.block_shape", z3.And(z3.BoolVal(blk.dtype == np.dtype("int16")), A.T(blk.shape[0]) == L, A.T(blk.shape[1]) == nch), "post")
            # Skolemised by hand, with the partition hypothesis instantiated at the column (proof hint)
            r, c = z3.Int(fresh_name("r0")), z3.Int(fresh_name("c0"))
            it.ctx.assume(z3.And(r >= 0, r < L, c >= 0, c < nch))
            it.ctx.instantiate(partition, c)
            it.ctx.oblige("recon.block_values", blk.read((r, c)) == orig.read((Yf(j) + r, c)), "post",
                          "every column of the original frame is restored from the shank that holds it (arbitrary row r0, column c0)")
        wg = env.vars["wg"]
        it.ctx.oblige("recon.windows_do_not_overlap", term(wg.overlap) == 0, "post", "windows of the reconstruction tile the file (overlap 0), so blocks are appended once each")
    S.explore(body)


def replay_recon_whole(vals, oid):
    """native: a reassembled binary of an earlier recording is still in the target folder (same length, other samples) when the shank folders hold a new split"""
    bad = []
    d = tempfile.mkdtemp(prefix="c03_")
    try:
        from pathlib import Path
        outs = []
        for k_, seed in enumerate((11, 12)):
            sub = os.path.join(d, f"run{k_}")
            os.makedirs(sub)
            ap, data = _mk_np24(sub, 0.5, 8192, ns=3000, rng=np.random.default_rng(seed))
            conv = neuropixel.NP2Converter(ap, post_check=False, compress=False)
            conv.init_params(nwindow=1200)
            conv.process()
            conv.sr.close()
            outs.append((Path(ap).parent, data))
        # both splits are reassembled into the same folder, one after the other: the second result must be the second recording
        target = Path(d) / "target"
        for k_, (pdir, data) in enumerate(outs):
            for sh in "abcd":
                dst = target / f"{pdir.name}{sh}"
                if dst.exists():
                    shutil.rmtree(dst)
                shutil.copytree(pdir.parent / f"{pdir.name}{sh}", dst)
            rec = neuropixel.NP2Reconstructor(target, pname=pdir.name, compress=False)
            rec.process()
            got = np.fromfile(next((target / pdir.name).glob("*.ap.bin")), dtype=np.int16)
            if got.size != data.size or not np.array_equal(got, data.ravel()):
                bad.append({"reassembly_number": k_ + 1, "into_a_folder_holding_an_earlier_result": k_ > 0, "equal_to_its_own_original": False})
            meta = next((target / pdir.name).glob("*.ap.meta"), None)
            if meta is not None and k_ == 0:
                pass
    finally:
        shutil.rmtree(d, ignore_errors=True)
    return {"failed": bool(bad), "cases": bad}


@harness(PROPERTY, "reconstruct_whole", functions=["neuropixel:NP2Reconstructor._reconstruct"], replay=replay_recon_whole,
         clause="reassembling the per-shank files reproduces the original binary byte for byte: whatever the target folder already holds, the output is started empty, written window by window over "
                "all the samples of the shank files (windows without overlap) and closed; the shank readers are closed")
def h_recon_whole(H):
    # the window loop carries nothing to the statements after it (its locals are scratch): an empty sidecar contract
    S = H.session("recon.whole", loops={("NP2Reconstructor._reconstruct", 0): I.LoopSpec()})

    def body(it):
        fs_ = fsmodel.GhostFS()
        it.session.ghost_fs = fs_
        it.session.ghost_files = {}
        ns, nch, old_size = z3.Ints("ns nch size_of_the_file_already_there")
        it.ctx.assume(z3.And(ns >= 1, nch >= 2, old_size >= 0))
        H.input(ns=ns, nch=nch, size_of_the_file_already_there=old_size)
        save = fsmodel.GhostPath(fs_, ("probe00",), "rec.imec0.ap.bin")
        there = z3.Bool("a_file_is_already_there")
        fs_.exists[save.key] = SV(there)
        fs_.size[save.key] = SV(old_size)
        shank_info, closed, asked = {}, [], []
        for s_ in range(2):
            m = z3.Int(f"nchn{s_}")
            it.ctx.assume(z3.And(m >= 2, m <= nch))
            ch = A.fresh_array(f"chns{s_}", "int64", (m,), ranged=False)
            A.assume_range(ch, 0, nch - 1)
            k, k2 = z3.Int(fresh_name("k")), z3.Int(fresh_name("k"))
            it.ctx.assume(z3.ForAll([k, k2], z3.Implies(z3.And(k >= 0, k < k2, k2 < m), ch.uf(k) < ch.uf(k2)), patterns=[z3.MultiPattern(ch.uf(k), ch.uf(k2))]))
            sr = SObj(spikeglx.Reader, _raw=A.fresh_array(f"shank_file{s_}", "int16", (ns, m)), tag=s_)
            shank_info[f"shank{s_}"] = {"chns": ch, "sr": sr}
        rec = SObj(neuropixel.NP2Reconstructor, shank_info=shank_info, nch=SV(nch), nsamples=SV(ns), samples_window=60000, save_file=save)

        def firstlast(it_, a, k):
            asked.append(a[0])
            return N.firstlast_summary_with_nwin(it_, a, k)
        it.session.contracts[C17.FIRSTLAST] = firstlast
        it.session.contracts[spikeglx.Reader.close] = lambda it_, a, k: closed.append(a[0].attrs.get("tag"))
        run_function(it, neuropixel.NP2Reconstructor._reconstruct, [rec], {})
        # here: a path that reached the end of the function (the paths through one iteration of the window loop end after the loop body)
        files = (getattr(it.session, "ghost_files", None) or {}).get(save.key, [])
        it.ctx.oblige("recon.whole.output_started_empty", z3.BoolVal(any(op[0] == "open_w" and op[1] == save.key for op in fs_.log) and len(files) == 1), "post",
                      "the binary is opened for writing (truncated) whatever is already in the target folder: a file left by an earlier reassembly, of any size, is never taken for the result")
        it.ctx.oblige("recon.whole.output_closed", z3.BoolVal(len(files) == 1 and files[0].closed), "post")
        ok = len(asked) == 1
        wg = asked[0] if ok else None
        it.ctx.oblige("recon.whole.windows_over_every_sample", z3.And(term(wg.attrs["ns"]) == ns, term(wg.attrs["overlap"]) == 0, term(wg.attrs["nswin"]) >= 1) if ok and isinstance(wg, SObj) else z3.BoolVal(False), "post",
                      "one pass over windows that tile [0, nsamples) without overlap", assume=False)
        it.ctx.oblige("recon.whole.readers_closed", z3.BoolVal(sorted(closed) == [0, 1] and all("sr" not in v for v in shank_info.values())), "post", assume=False)
    S.explore(body)


# ----------------------------------------------------------------------------- metadata: per-shank AP metadata and its restoration
@harness(PROPERTY, "metadata_split_and_restore", functions=["neuropixel:NP2Converter._writemetadata_ap", "neuropixel:NP2Reconstructor.write_metadata"],
         clause="reassembling reproduces the original metadata field for field (apart from one added provenance flag); each shank's AP metadata declares the channels actually written")
def h_meta_roundtrip(H):
    S = H.session("meta.ap")

    def body(it):
        fs_ = fsmodel.GhostFS()
        it.session.ghost_fs = fs_
        napch, origsize, recsize = z3.Ints("napch origsize reconstructed_size")
        dur = z3.Real("dur")
        it.ctx.assume(z3.And(napch >= 1, origsize >= 0))
        # the original metadata: the fields the code rewrites + an arbitrary other field that must survive untouched
        other = z3.Real("someOtherField")
        orig = {"typeThis": "imec", "imSampRate": 30000.0, "acqApLfSy": [SV(z3.ToReal(napch)), 0.0, 1.0], "snsApLfSy": [SV(z3.ToReal(napch)), 0.0, 1.0], "nSavedChans": SV(z3.ToReal(napch + 1)),
                "fileSizeBytes": SV(z3.ToReal(origsize)), "snsSaveChanSubset": SV(z3.Int("orig_subset_token")), "fileTimeSecs": SV(dur), "someOtherField": SV(other), "imDatPrb_type": 24.0}
        keys0 = list(orig)
        shank_info = {}
        lens, sizes = [], []
        for s_ in range(2):
            m = z3.Int(f"nchn{s_}")
            it.ctx.assume(m >= 2)
            pth = fsmodel.GhostPath(fs_, ("raw", f"probe00{chr(97 + s_)}"), "x.imec0.ap.bin")
            sz = z3.Int(f"apsize{s_}")
            fs_.exists[pth.key] = True
            fs_.size[pth.key] = SV(sz)
            shank_info[f"shank{s_}"] = {"chns": A.fresh_array(f"chns{s_}", "int64", (m,), ranged=False), "ap_file": pth}
            lens.append(m)
            sizes.append(sz)
        written = {}
        it.session.contracts[spikeglx.write_meta_data] = lambda it_, a, k: written.__setitem__(a[1].key, a[0])
        it.session.contracts[spikeglx._get_savedChans_subset] = lambda it_, a, k: ("SUBSET", a[0])
        conv = SObj(neuropixel.NP2Converter, sr=SObj(spikeglx.Reader, meta=orig), shank_info=shank_info, np_version="NP2.4")
        run_function(it, neuropixel.NP2Converter._writemetadata_ap, [conv])
        ok = len(written) == 2
        it.ctx.oblige("meta_ap.one_file_per_shank", z3.BoolVal(ok), "post")
        if not ok:
            return
        for s_ in range(2):
            mp = shank_info[f"shank{s_}"]["ap_file"].with_suffix(".meta")
            md = written.get(mp.key)
            it.ctx.oblige(f"meta_ap.path.{s_}", z3.BoolVal(md is not None), "post", "written next to the shank's AP file")
            if md is None:
                return
            n = lens[s_]
            it.ctx.oblige(f"meta_ap.counts.{s_}", z3.And(term(md["snsApLfSy"][0]) == n - 1, term(md["acqApLfSy"][0]) == n - 1, term(md["snsApLfSy"][2]) == 1, term(md["nSavedChans"]) == n), "post",
                          "channel counts of this shank: its AP channels + the sync channel")
            it.ctx.oblige(f"meta_ap.size.{s_}", term(md["fileSizeBytes"]) == sizes[s_], "post", "fileSizeBytes is the size of the AP file written")
            it.ctx.oblige(f"meta_ap.provenance.{s_}", z3.BoolVal(md.get("NP2.4_shank") == s_ and md.get("original_meta") is False and isinstance(md.get("snsSaveChanSubset_orig"), tuple)
                                                                   and md["snsSaveChanSubset_orig"][1] is shank_info[f"shank{s_}"]["chns"]), "post",
                          "records the shank number, that this is derived metadata, and the original channel list of this shank")
            it.ctx.oblige(f"meta_ap.other_fields_kept.{s_}", z3.And(term(md["someOtherField"]) == other, term(md["fileTimeSecs"]) == dur, z3.BoolVal(md["imSampRate"] == 30000.0 and md["imDatPrb_type"] == 24.0)), "post")
        it.ctx.oblige("meta_ap.source_untouched", z3.And(term(orig["snsApLfSy"][0]) == napch, term(orig["nSavedChans"]) == napch + 1, term(orig["fileSizeBytes"]) == origsize, z3.BoolVal(list(orig) == keys0)), "post",
                      "the reader's own metadata is not modified (deep copy)")
        # ---- restoration from shank 0's metadata (what NP2Reconstructor.write_metadata does), for a reconstructed file of the original size
        import copy as _copy
        first = written[shank_info["shank0"]["ap_file"].with_suffix(".meta").key]
        save = fsmodel.GhostPath(fs_, ("raw", "probe00"), "x.imec0.ap.bin")
        fs_.exists[save.key] = True
        fs_.size[save.key] = SV(origsize)                       # proved separately: the reconstructed binary has the original bytes (harness reconstruct_window)
        fs_.exists[save.with_suffix(".meta").key] = False
        restored = {}
        it.session.contracts[spikeglx.read_meta_data] = lambda it_, a, k: _copy.copy({k_: (list(v) if isinstance(v, list) else v) for k_, v in first.items()})
        it.session.contracts[spikeglx.write_meta_data] = lambda it_, a, k: restored.__setitem__(a[1].key, a[0])
        rec = SObj(neuropixel.NP2Reconstructor, save_file=save, shank_info={"shank0": {"ap_file": shank_info["shank0"]["ap_file"]}}, nch=SV(napch + 1), np_version="NP2.4")
        run_function(it, neuropixel.NP2Reconstructor.write_metadata, [rec])
        md = restored.get(save.with_suffix(".meta").key)
        it.ctx.oblige("meta_restore.written", z3.BoolVal(md is not None), "post")
        if md is None:
            return
        it.ctx.oblige("meta_restore.keys", z3.BoolVal(sorted(md) == sorted(keys0 + ["original_meta"])), "post",
                      "every field of the original is back, the per-shank provenance fields are gone, the one added flag (original_meta) remains")
        same = [term(md["snsApLfSy"][k_]) == term(orig["snsApLfSy"][k_]) for k_ in range(3)] + [term(md["acqApLfSy"][k_]) == term(orig["acqApLfSy"][k_]) for k_ in range(3)]
        same += [term(md["nSavedChans"]) == napch + 1, term(md["fileSizeBytes"]) == origsize, term(md["someOtherField"]) == other, term(md["fileTimeSecs"]) == dur,
                 z3.BoolVal(md["imSampRate"] == 30000.0 and md["typeThis"] == "imec" and md["imDatPrb_type"] == 24.0)]
        it.ctx.oblige("meta_restore.field_for_field", z3.And(*same), "post", "channel counts, saved-channel count, size and every untouched field equal the original's")
        from pyvc.models import SymStr
        sub = md["snsSaveChanSubset"]
        okf = isinstance(sub, SymStr) and len(sub.parts) == 2 and sub.parts[0] == "0:" and isinstance(sub.parts[1], SV)
        it.ctx.oblige("meta_restore.subset_covers_all_channels", z3.And(z3.BoolVal(okf), term(sub.parts[1]) == napch if okf else z3.BoolVal(False)), "post",
                      "snsSaveChanSubset is restored to the full range '0:<last channel>' (what SpikeGLX writes when all channels are saved)")
    S.explore(body)


# ----------------------------------------------------------------------------- bounded end-to-end on real files
FIXM = os.path.join(os.path.dirname(spikeglx.__file__), "tests", "fixtures", "np2split", "NP24_meta", "_spikeglx_ephysData_g0_t0.imec0.ap.meta")


def _mk_np24(d, rng_v, maxint, ns, values="random", rng=None, shank_perm=None, fixm=None, rate=None):
    pdir = os.path.join(d, "raw_ephys_data", "probe00")
    os.makedirs(pdir)
    ap = os.path.join(pdir, "_spikeglx_ephysData_g0_t0.imec0.ap.bin")
    nc = 385
    if values == "all":
        base = np.arange(-32768, 32768).astype(np.int16)
        D = np.zeros((ns, nc), np.int16)
        for c in range(nc):
            D[:, c] = np.roll(base, 171 * c)[:ns] if ns <= 65536 else 0
        # every value appears: columns are shifted copies covering the whole range across the 385 columns
        D = np.stack([np.roll(base, (65536 // 4) * (c % 4) + c)[:ns] for c in range(nc)], axis=1).astype(np.int16)
    else:
        D = rng.integers(-32768, 32768, size=(ns, nc), dtype=np.int16)
    D.tofile(ap)
    with open(fixm or FIXM) as f, open(ap[:-3] + "meta", "w") as g:
        for line in f:
            if line.startswith("fileSizeBytes"):
                line = f"fileSizeBytes={ns * nc * 2}\n"
            elif line.startswith("fileTimeSecs"):
                line = f"fileTimeSecs={ns / (rate or 30000):.12f}\n"
            elif line.startswith("imSampRate") and rate:
                line = f"imSampRate={rate}\n"
            elif line.startswith("imAiRangeMax"):
                line = f"imAiRangeMax={rng_v}\n"
            elif line.startswith("imAiRangeMin"):
                line = f"imAiRangeMin=-{rng_v}\n"
            elif line.startswith("imMaxInt"):
                line = f"imMaxInt={maxint}\n"
            elif line.lstrip("~").startswith("snsShankMap") and shank_perm is not None:
                import re
                ent = re.findall(r"\((\d+):(\d+):(\d+):(\d+)\)", line)
                hdr = line[:line.index(")") + 1]
                line = hdr + "".join(f"({shank_perm[i]}:{c}:{r}:{fl})" for i, (s, c, r, fl) in enumerate(ent)) + "\n"
            g.write(line)
        # fields other tools add: integer lists with entries of seven and more digits (CatGT time values, dates in notes)
        g.write("catTVals=0,110884048\nuserNotes=20210802,1234567\nuserDepths=0.35,1.25,2.5\nrigVersion=2.0.137,1.4\n")       # ... and lists of decimals / dotted versions (kept verbatim)
    return ap, D


def native_end_to_end(rng, rng_v, maxint, ns, window, nshank_assign, stale=False, interleaved=False, nsamples=None):
    d = tempfile.mkdtemp(prefix="c03_")
    try:
        perm = None
        if interleaved:
            perm = np.arange(384) % 4                                       # channel c on shank c mod 4: no shank owns two adjacent channels
        elif nshank_assign is not None:
            ids = np.sort(rng.choice(4, nshank_assign, replace=False))       # any subset of the four shanks, e.g. {1, 3}
            if nshank_assign == 2:
                ids = np.array([1, 3])                                      # always include one map whose shank ids are not 0..n-1
            perm = ids[rng.integers(0, nshank_assign, 384)]
            perm[:nshank_assign] = ids
        ap, D = _mk_np24(d, rng_v, maxint, ns, rng=rng, shank_perm=perm)
        orig_meta = open(ap[:-3] + "meta").read()
        orig_md = spikeglx.read_meta_data(ap[:-3] + "meta")
        if stale:
            # an earlier, different version of the recording was split here before (uncompressed outputs left behind); the split is then forced again
            D0 = rng.integers(-32768, 32768, size=D.shape, dtype=np.int16)
            D0.tofile(ap)
            c0 = neuropixel.NP2Converter(ap, post_check=False, compress=False)
            c0.init_params(nwindow=window)
            c0.process()
            c0.sr.close()
            D.tofile(ap)
        conv = neuropixel.NP2Converter(ap, post_check=False, compress=False)
        if nsamples is not None:
            conv.init_params(nwindow=window, nsamples=nsamples)            # documented option: process the first nsamples samples only
            D = D[:nsamples]
            ns = nsamples
        else:
            conv.init_params(nwindow=window)
        st0 = conv.process(overwrite=True) if stale else conv.process()
        bad = []
        if st0 != 1:
            bad.append(("process status", st0))
        cols = []
        for sh, inf in conv.shank_info.items():
            flat = np.fromfile(inf["ap_file"], dtype=np.int16)
            if flat.size % len(inf["chns"]):
                bad.append(("split", sh, "file holds", int(flat.size), "int16 words: not a whole number of frames of", len(inf["chns"]), "channels"))
                continue
            got = flat.reshape(-1, len(inf["chns"]))
            if got.shape[0] != ns or not np.array_equal(got, D[:, inf["chns"]]):
                bad.append(("split", sh, got.shape, int(np.sum(got[:min(ns, got.shape[0])] != D[:got.shape[0], inf["chns"]]))))
            srs = spikeglx.Reader(inf["ap_file"], sort=False)
            if srs.shape != (ns, len(inf["chns"])):
                bad.append(("split meta shape", sh, srs.shape))
            srs.close()
            cols.extend(inf["chns"][:-1].tolist())
        if sorted(cols) != list(range(384)):
            bad.append(("columns not a partition",))
        conv.sr.close()
        os.rename(ap, ap + ".orig")
        os.rename(ap[:-3] + "meta", ap[:-3] + "meta.orig")
        rec = neuropixel.NP2Reconstructor(os.path.dirname(os.path.dirname(ap)), "probe00", compress=False)
        st = rec.process()
        if st != 1 or not np.array_equal(np.fromfile(rec.save_file, dtype=np.int16), D.ravel()):
            bad.append(("reconstruction bytes differ", st))
        md = spikeglx.read_meta_data(str(rec.save_file)[:-3] + "meta")
        diff = [k for k in orig_md if (k not in md or md[k] != orig_md[k]) and not (nsamples is not None and k in ("fileSizeBytes", "fileTimeSecs"))]
        extra = [k for k in md if k not in orig_md]
        if diff or extra != ["original_meta"]:
            bad.append(("metadata", diff[:5], extra[:5]))
        return bad
    finally:
        shutil.rmtree(d, ignore_errors=True)


@bounded(PROPERTY, "native_end_to_end", bound="real NP2.4 files from the shipped 4-shank meta: all 65536 int16 values x the 9 catalogued range/maxint pairs (quick: 3 pairs) ; random content x "
         "random assignments of the 384 channels to 1..4 shanks x windows {600, 1200, 30000} x ns not aligned x {fresh output folders, forced re-split over the uncompressed outputs of a different earlier recording} (quick: 4 cases, thorough: 40); split bytes, per-shank reader shape, reconstruction bytes, metadata field for field (incl. integer lists with 7..9 digit entries); two sets of shank folders for one probe name; recordings of 61234 and of exactly 60000 samples (longer than / equal to the 60000-sample reassembly window)",
         clause="end-to-end bytes and metadata on real files, incl. the channel-subset string round trip")
def b_native(B):
    gains = GAINS[:3] if B.tier == "quick" else GAINS
    for rng_v, maxint in gains:
        n = native_split_values(rng_v, maxint)
        B.case(("all_values", rng_v, maxint), n == 0, detail=f"{n} samples differ from the original after the split (range {rng_v}, maxint {maxint})",
               inputs={"kind": "all_values", "imAiRangeMax": rng_v, "imMaxInt": maxint})
    rng = np.random.default_rng(B.seed)
    for t in range(4 if B.tier == "quick" else 40):
        rng_v, maxint = GAINS[t % len(GAINS)]
        ns = int(rng.integers(1300, 5000))
        window = int(rng.choice([600, 1200, 30000]))
        nsh = [2, None, 1, 3, 4][t % 5]
        bad = native_end_to_end(rng, rng_v, maxint, ns, window, nsh, stale=(t % 2 == 1))
        B.case(("e2e", t, ns, window, nsh, "over stale outputs" if t % 2 else "fresh"), not bad, detail=bad[:4], inputs={"kind": "e2e", "ns": ns, "window": window, "nshanks": nsh})
    # a recording longer than the reassembly window (60000 samples) and not a multiple of it: the last window of the reassembly is a short one
    bad = native_end_to_end(rng, *GAINS[2], 60000 + 1234, 30000, None)
    B.case(("e2e_longer_than_the_reassembly_window", 61234), not bad, detail=bad[:4], inputs={"kind": "e2e_long", "ns": 61234})
    bad = native_end_to_end(rng, *GAINS[1], 60000, 30000, None)
    B.case(("e2e_exact_multiple_of_the_reassembly_window", 60000), not bad, detail=bad[:4], inputs={"kind": "e2e_long", "ns": 60000})
    # shank maps without two adjacent channels on a shank (every saved-channel group is a single channel)
    ns = int(rng.integers(1300, 3000))
    bad = native_end_to_end(rng, *GAINS[0], ns, 1200, None, interleaved=True)
    B.case(("e2e_interleaved_shanks", ns), not bad, detail=bad[:4], inputs={"kind": "e2e_interleaved", "ns": ns})
    # only the first nsamples samples are processed (init_params(nsamples=...)): last window full / a few samples short of full / short
    for W, N_ in ((1200, 1824), (1200, 2448), (1200, 2400), (600, 700)) if B.tier == "quick" else [(W, N_) for W in (600, 1200) for N_ in (W, W + 24, 2 * W - 576, 2 * W - 576 - 48, 3 * W - 2 * 576, 3 * W - 2 * 576 - 240, 700, 1999)]:
        bad = native_end_to_end(rng, *GAINS[1], N_ + int(rng.integers(1, 900)), W, None, nsamples=N_)
        B.case(("e2e_first_nsamples", W, N_), not bad, detail=bad[:4], inputs={"kind": "e2e_nsamples", "window": W, "nsamples": N_})
    # two sets of shank folders for the same probe name (an earlier version split with init_params(extra=...) and the final one): the reassembled
    # file must not mix them - either the reconstruction is refused, or the result is byte for byte one of the two recordings
    d = tempfile.mkdtemp(prefix="c03_")
    try:
        ap, D_old = _mk_np24(d, *GAINS[0], 1500, rng=rng)
        c0 = neuropixel.NP2Converter(ap, post_check=False, compress=False)
        c0.init_params(nwindow=1200, extra="_old")
        c0.process()
        c0.sr.close()
        D_new = rng.integers(-32768, 32768, size=D_old.shape, dtype=np.int16)
        D_new.tofile(ap)
        c1 = neuropixel.NP2Converter(ap, post_check=False, compress=False)
        c1.init_params(nwindow=1200)
        c1.process()
        c1.sr.close()
        os.rename(ap, ap + ".orig")
        os.rename(ap[:-3] + "meta", ap[:-3] + "meta.orig")
        rec2 = neuropixel.NP2Reconstructor(os.path.dirname(os.path.dirname(ap)), "probe00", compress=False)
        try:
            st = rec2.process()
        except Exception as e:
            st = repr(e)[:80]
        okx = True
        if st == 1:
            got = np.fromfile(rec2.save_file, dtype=np.int16)
            okx = np.array_equal(got, D_new.ravel()) or np.array_equal(got, D_old.ravel())
        for inf in (getattr(rec2, "shank_info", None) or {}).values():
            if "sr" in inf:
                inf["sr"].close()
        B.case("two_sets_of_shank_folders_not_mixed", bool(okx), detail={"status": st, "reassembled": "a mixture of the two recordings" if not okx else "ok"}, inputs={"kind": "ambiguous_folders"})
    finally:
        shutil.rmtree(d, ignore_errors=True)
    # savedChans subset string <-> channel list
    rec = neuropixel.NP2Reconstructor.__new__(neuropixel.NP2Reconstructor)
    ok = True
    for t in range(300):
        k = int(rng.integers(1, 60))
        ch = np.sort(rng.choice(385, k, replace=False))
        s = spikeglx._get_savedChans_subset(ch)
        back = np.atleast_1d(rec._get_chans({"snsSaveChanSubset_orig": s}))
        ok = ok and np.array_equal(back, ch)
    B.case("savedchans_inverse", bool(ok), detail="_get_chans(_get_savedChans_subset(c)) != c for some strictly increasing c")
    # the same through a metadata file (write_meta_data -> read_meta_data), as the reconstruction reads it: isolated channels, runs, the sync channel
    d = tempfile.mkdtemp(prefix="c03_")
    try:
        badc = []
        cases = [np.r_[np.arange(0, 384, 4), 384], np.r_[np.arange(1, 384, 4), 384], np.r_[0, 2, 3, 4, 9, 384], np.r_[np.arange(96), 384], np.r_[np.arange(288, 385)], np.r_[5, 384]]
        cases += [np.r_[np.sort(rng.choice(384, int(rng.integers(1, 40)), replace=False)), 384] for _ in range(40)]
        for ch in cases:
            mf = os.path.join(d, "x.ap.meta")
            spikeglx.write_meta_data({"nSavedChans": len(ch), "snsSaveChanSubset_orig": spikeglx._get_savedChans_subset(ch)}, mf)
            try:
                back = np.atleast_1d(rec._get_chans(spikeglx.read_meta_data(mf)))
                if not np.array_equal(back, ch):
                    badc.append((ch[:6].tolist(), back[:6].tolist()))
            except Exception as e:
                badc.append((ch[:6].tolist(), repr(e)[:80]))
        B.case("savedchans_inverse_through_metadata_file", not badc, detail=badc[:3])
    finally:
        shutil.rmtree(d, ignore_errors=True)


# ----------------------------------------------------------------------------- contracts of dependencies this property rests on (re-checked here)
from pyvc.api import depends  # noqa: E402
depends(PROPERTY, "C17", ["firstlast"])      # generator contract + nwin == count, used by the window-loop harnesses
depends(PROPERTY, "C09", ["write_meta_data_lists"])      # metadata field for field: integer lists are written back in the form the parser reads as the same list
depends(PROPERTY, "C04", ["prepare_files_NP24_forced"])      # every shank map: the files written are those of the shanks that have channels, with channel lists where(shank == s) + [sync] - the pre-condition of the window harnesses
