"""C10 - sync words decode to TTL lines and fronts recover every event.

Functions under contract: spikeglx.split_sync, ibldsp.utils.fronts / rises / falls,
spikeglx.Reader.read_sync_digital / read_sync (digital layout; the analog concatenation is covered in C01's
calibrated-read contract + the bounded stand-in here).
"""
import numpy as np
import z3

import spikeglx
import ibldsp.utils as U
from pyvc.api import harness, bounded, property_meta, run_function
from pyvc.core import SV, term
from pyvc import arrays as A
from pyvc.interp import SObj

PROPERTY = "C10"
property_meta(
    PROPERTY, level="proof",
    trusted_base=["A-PY", "A-NP-INDEX", "A-ENDIAN (int16.view(uint8) little endian; asserted natively at start-up)",
                  "A-NP-SPEC unpackbits (MSB first), np.where = ascending enumeration of the index set, np.diff, np.abs",
                  "A-REAL for analog thresholds"],
    explanation="split_sync executed symbolically for a word array of symbolic length: out[n,k] == bit k of word n for k=0..15 (integer div/mod arithmetic, "
                "complete over all 65536 words); fronts/rises/falls: soundness, polarity, strict order and completeness of the returned indices "
                "for 1-D input of any length and 2-D input along either axis.")


def bit(word, k):
    u = word % 65536
    return (u / (2 ** k)) % 2


def replay_split(vals, oid):
    w = int(vals.get("word", 0))
    out = spikeglx.split_sync(np.array([w, 0, w], dtype=np.int16))
    want = [((w % 65536) >> k) & 1 for k in range(16)]
    return {"word": w, "got": out[0].tolist(), "want": want, "failed": out[0].tolist() != want or out.shape != (3, 16) or out.dtype != np.int8}


@harness(PROPERTY, "split_sync", functions=["spikeglx:split_sync"], replay=replay_split, clause="line k equals bit k of the word, for all 65536 words")
def h_split(H):
    for shape_kind in ("1d", "2d"):
        S = H.session(f"split_sync.{shape_kind}")

        def body(it, shape_kind=shape_kind):
            n = z3.Int("n")
            it.ctx.assume(n >= 1)
            x = A.fresh_array("sync", "int16", (n,) if shape_kind == "1d" else (n, 1))
            out = run_function(it, spikeglx.split_sync, [x])
            i = z3.Int("i")
            word = x.read((i,)) if shape_kind == "1d" else x.read((i, z3.IntVal(0)))
            H.input(word=word)
            it.ctx.oblige(f"shape_dtype.{shape_kind}", z3.And(z3.BoolVal(out.ndim == 2 and out.dtype == np.dtype("int8")), A.T(out.shape[0]) == n, A.T(out.shape[1]) == 16))
            it.ctx.assume(z3.And(i >= 0, i < n))
            for k in range(16):
                it.ctx.oblige(f"bit_k.{shape_kind}.{k}", out.read((i, z3.IntVal(k))) == bit(word, k), "post", f"line {k} == bit {k} of the word", assume=False)
        S.explore(body)


# ----------------------------------------------------------------------------- fronts / rises / falls (1-D)
def replay_fronts(vals, oid):
    rng = np.random.default_rng(0)
    bad = []
    for n in (2, 3, 17):
        for _ in range(50):
            x = rng.integers(-3, 4, size=n).astype(float)
            for step in (1, 2):
                ind, sign = U.fronts(x, step=step)
                want = [i for i in range(1, n) if abs(x[i] - x[i - 1]) >= step]
                if ind.tolist() != want or sign.tolist() != [x[i] - x[i - 1] for i in want]:
                    bad.append(("fronts", x.tolist(), step))
                r = U.rises(x, step=step)
                if r.tolist() != [i for i in range(1, n) if x[i] - x[i - 1] >= step]:
                    bad.append(("rises", x.tolist(), step))
                f = U.falls(x, step=-step)
                if f.tolist() != [i for i in range(1, n) if x[i] - x[i - 1] <= -step]:
                    bad.append(("falls", x.tolist(), step))
    # 0/1 event trains in the containers a line may be held in (a thresholded analog trace is boolean, a packed word column unsigned)
    for n in (2, 9, 40):
        for _ in range(10):
            line = rng.integers(0, 2, size=n)
            want = [i for i in range(1, n) if line[i] != line[i - 1]]
            pol = [int(line[i]) - int(line[i - 1]) for i in want]
            for dt in (np.int8, np.int64, float, bool, np.uint8, np.uint16):
                x = line.astype(dt)
                try:
                    ind, sign = U.fronts(x)
                    if ind.tolist() != want or [int(v) for v in np.asarray(sign).astype(np.int64)] != pol:
                        bad.append(("fronts of a 0/1 line held as " + np.dtype(dt).name, line.tolist(), ind.tolist(), np.asarray(sign).tolist()))
                    if U.rises(x).tolist() != [i for i, p_ in zip(want, pol) if p_ > 0]:
                        bad.append(("rises of a 0/1 line held as " + np.dtype(dt).name, line.tolist(), U.rises(x).tolist()))
                    if U.falls(x).tolist() != [i for i, p_ in zip(want, pol) if p_ < 0]:
                        bad.append(("falls of a 0/1 line held as " + np.dtype(dt).name, line.tolist(), U.falls(x).tolist()))
                except TypeError as e:
                    bad.append(("a 0/1 line held as " + np.dtype(dt).name + " is refused", line.tolist(), repr(e)[:80]))
    return {"failed": bool(bad), "examples": bad[:3]}


def _where_info(it, ndim):
    infos = [w for w in it.ctx.where_log if w["ndim"] == ndim]
    assert len(infos) == 1, f"expected exactly one np.where of a {ndim}-d mask, saw {len(infos)}"
    return infos[0]


def _check_1d(it, H, name, x, n, ind, cond, sign=None, signval=None):
    """ind: result index array; cond(i): 'there is an event at i' for 1 <= i < n"""
    m = A.T(ind.shape[0])
    k, k2, i = z3.Ints("k k2 i")
    it.ctx.oblige(f"{name}.sound", A.forall([k], lambda: z3.Implies(z3.And(k >= 0, k < m), (lambda v: z3.And(v >= 1, v < n, cond(v)))(ind.read((k,))))),
                  "post", "every returned index is an event")
    it.ctx.oblige(f"{name}.ascending", A.forall([k, k2], lambda: z3.Implies(z3.And(k >= 0, k < k2, k2 < m), ind.read((k,)) < ind.read((k2,)))), "post")
    info = _where_info(it, 1)
    rank = info["rank"]
    it.ctx.oblige(f"{name}.complete", A.forall([i], lambda: z3.Implies(z3.And(i >= 1, i < n, cond(i)),
                                                                     z3.And(rank(i - 1) >= 0, rank(i - 1) < m, ind.read((rank(i - 1),)) == i))),
                  "post", "every event index is returned (witness: its rank in the enumeration)")
    if sign is not None:
        it.ctx.oblige(f"{name}.polarity", A.forall([k], lambda: z3.Implies(z3.And(k >= 0, k < m), sign.read((k,)) == signval(ind.read((k,))))), "post")
        it.ctx.oblige(f"{name}.sign_len", A.T(sign.shape[0]) == m, "post")


@harness(PROPERTY, "fronts_1d", functions=["ibldsp.utils:fronts", "ibldsp.utils:rises", "ibldsp.utils:falls"], replay=replay_fronts,
         clause="front detection returns exactly the sample indices at which the line changes, with the right polarity (1-D)")
def h_fronts(H):
    def mk(it):
        n = z3.Int("n")
        step = z3.Real("step")
        it.ctx.assume(z3.And(n >= 1))
        x = A.fresh_array("x", "float64", (n,))
        return n, step, x

    S = H.session("fronts")

    def body(it):
        n, step, x = mk(it)
        it.ctx.assume(step > 0)
        r = run_function(it, U.fronts, [x], {"step": SV(step)})
        ind, sign = r
        d = lambda i: x.read((i,)) - x.read((i - 1,))     # noqa
        _check_1d(it, H, "fronts", x, n, ind, lambda i: z3.Or(d(i) >= step, -d(i) >= step), sign, d)
    S.explore(body)

    S2 = H.session("rises")

    def body2(it):
        n, step, x = mk(it)
        ind = run_function(it, U.rises, [x], {"step": SV(step)})
        d = lambda i: x.read((i,)) - x.read((i - 1,))     # noqa
        _check_1d(it, H, "rises", x, n, ind, lambda i: d(i) >= step)
    S2.explore(body2)

    S3 = H.session("falls")

    def body3(it):
        n, step, x = mk(it)
        ind = run_function(it, U.falls, [x], {"step": SV(step)})
        d = lambda i: x.read((i,)) - x.read((i - 1,))     # noqa
        _check_1d(it, H, "falls", x, n, ind, lambda i: d(i) <= step)
    S3.explore(body3)

    S4 = H.session("rises_analog")

    def body4(it):
        n, step, x = mk(it)
        ind = run_function(it, U.rises, [x], {"step": SV(step), "analog": True})
        hi = lambda i: x.read((i,)) > step     # noqa
        _check_1d(it, H, "rises_analog", x, n, ind, lambda i: z3.And(hi(i), z3.Not(hi(i - 1))))
    S4.explore(body4)


@harness(PROPERTY, "fronts_2d", functions=["ibldsp.utils:fronts", "ibldsp.utils:rises"], replay=lambda vals, oid: replay_fronts2d(vals, oid), clause="2-D inputs along either axis")
def h_fronts2d(H):
    for axis in (-1, 0):
        S = H.session(f"fronts2d.axis{axis}")

        def body(it, axis=axis):
            n0, n1 = z3.Ints("n0 n1")
            step = z3.Real("step")
            it.ctx.assume(z3.And(n0 >= 1, n1 >= 1, step > 0))
            x = A.fresh_array("x", "float64", (n0, n1))
            ind, sign = run_function(it, U.fronts, [x], {"axis": axis, "step": SV(step)})
            m = A.T(ind.shape[1])
            k, i, j = z3.Ints("k i j")
            if axis == -1:
                d = lambda i, j: x.read((i, j)) - x.read((i, j - 1))    # noqa
                inr = lambda i, j: z3.And(i >= 0, i < n0, j >= 1, j < n1)   # noqa
                pos = lambda i, j: (i, j - 1)   # noqa
            else:
                d = lambda i, j: x.read((i, j)) - x.read((i - 1, j))    # noqa
                inr = lambda i, j: z3.And(i >= 1, i < n0, j >= 0, j < n1)   # noqa
                pos = lambda i, j: (i - 1, j)   # noqa
            ev = lambda i, j: z3.Or(d(i, j) >= step, -d(i, j) >= step)   # noqa
            tag = f"axis{axis}"
            it.ctx.oblige(f"fronts2d.shape.{tag}", z3.And(z3.BoolVal(ind.ndim == 2 and ind.shape[0] == 2), A.T(sign.shape[0]) == m), "post")
            it.ctx.oblige(f"fronts2d.sound.{tag}", A.forall([k], lambda: z3.Implies(z3.And(k >= 0, k < m), (lambda a, b: z3.And(inr(a, b), ev(a, b), sign.read((k,)) == d(a, b)))(ind.read((z3.IntVal(0), k)), ind.read((z3.IntVal(1), k))))), "post")
            info = _where_info(it, 2)
            rank = info["rank"]
            it.ctx.oblige(f"fronts2d.complete.{tag}", A.forall([i, j], lambda: z3.Implies(z3.And(inr(i, j), ev(i, j)), (lambda r: z3.And(r >= 0, r < m, ind.read((z3.IntVal(0), r)) == i, ind.read((z3.IntVal(1), r)) == j))(rank(*pos(i, j))))), "post")
        S.explore(body)


def replay_fronts2d(vals, oid):
    """native: fronts of 2-D arrays (lines as rows or as columns, events interleaved in time across lines): every returned (position, polarity) pair
    is a change of that size at that position, and every change is returned once"""
    rng = np.random.default_rng(2)
    bad = []
    for shape in ((4, 40), (40, 4), (16, 25), (1, 9), (9, 1)):
        for _ in range(8):
            st = np.cumsum(rng.random(shape) < 0.15, axis=(1 if shape[1] > shape[0] else 0)) % 2
            x = st.astype(float) * rng.choice([1.0, 2.5])
            for axis, layout in ((0, "C"), (-1, "C"), (0, "F"), (-1, "F"), (0, "T"), (-1, "S")):
                # memory layouts of the same values: C order, Fortran order, the transposed view of a C array (sync.T), a strided view
                x0 = x
                if layout == "F":
                    x = np.asfortranarray(x0)
                elif layout == "T":
                    x = np.ascontiguousarray(x0.T).T
                elif layout == "S":
                    x = np.repeat(np.repeat(x0, 2, axis=0), 2, axis=1)[::2, ::2]
                d = np.diff(x, axis=axis)
                ind, pol = U.fronts(x, axis=axis, step=1)
                x = x0
                w = np.array(np.where(np.abs(d) >= 1))
                w[axis] += 1
                want = {tuple(int(v) for v in w[:, k]) + (float(d[tuple(w[:, k] - (np.arange(2) == (axis % 2)))]),) for k in range(w.shape[1])}
                ind = np.asarray(ind)
                got = {tuple(int(v) for v in ind[:, k]) + (float(pol[k]),) for k in range(ind.shape[1])} if ind.ndim == 2 else None
                if got is None or got != want or ind.shape[1] != len(want):
                    bad.append((shape, axis, layout, sorted(want - (got or set()))[:2], sorted((got or set()) - want)[:2]))
    return {"failed": bool(bad), "examples": bad[:3]}


def replay_rises2d(vals, oid):
    """native: rises / falls of 2-D arrays whose steps have amplitudes 1, 2, 2.5, 3 along either axis, against the definition"""
    rng = np.random.default_rng(1)
    bad = []
    for shape in ((3, 9), (7, 4), (1, 6), (5, 1)):
        for _ in range(20):
            x = rng.integers(-2, 3, size=shape).astype(float) * rng.choice([1.0, 2.5])
            for step in (1, 2):
                for axis in (0, -1):
                    d = np.diff(x, axis=axis)
                    for fn, st, cond in ((U.rises, step, d >= step), (U.falls, -step, d <= -step)):
                        got = fn(x, axis=axis, step=st)
                        w = np.array(np.where(cond))
                        w[axis] += 1
                        if np.asarray(got).shape != w.shape or not np.array_equal(got, w):
                            bad.append((fn.__name__, x.tolist(), step, axis))
    return {"failed": bool(bad), "examples": bad[:3]}


@harness(PROPERTY, "rises_2d", functions=["ibldsp.utils:rises", "ibldsp.utils:falls"], replay=replay_rises2d, clause="rises / falls on 2-D inputs along either axis")
def h_rises2d(H):
    for fn, name in ((U.rises, "rises"), (U.falls, "falls")):
        for axis in (-1, 0):
            S = H.session(f"{name}2d.axis{axis}")

            def body(it, axis=axis, fn=fn, name=name):
                n0, n1 = z3.Ints("n0 n1")
                step = z3.Real("step")
                it.ctx.assume(z3.And(n0 >= 1, n1 >= 1))
                x = A.fresh_array("x", "float64", (n0, n1))
                ind = run_function(it, fn, [x], {"axis": axis, "step": SV(step)})
                m = A.T(ind.shape[1])
                k, i, j = z3.Ints("k i j")
                if axis == -1:
                    d = lambda i, j: x.read((i, j)) - x.read((i, j - 1))    # noqa
                    inr = lambda i, j: z3.And(i >= 0, i < n0, j >= 1, j < n1)   # noqa
                    pos = lambda i, j: (i, j - 1)   # noqa
                else:
                    d = lambda i, j: x.read((i, j)) - x.read((i - 1, j))    # noqa
                    inr = lambda i, j: z3.And(i >= 1, i < n0, j >= 0, j < n1)   # noqa
                    pos = lambda i, j: (i - 1, j)   # noqa
                ev = (lambda i, j: d(i, j) >= step) if name == "rises" else (lambda i, j: d(i, j) <= step)
                tag = f"{name}.axis{axis}"
                it.ctx.oblige(f"2d.sound.{tag}", A.forall([k], lambda: z3.Implies(z3.And(k >= 0, k < m), (lambda a, b: z3.And(inr(a, b), ev(a, b)))(ind.read((z3.IntVal(0), k)), ind.read((z3.IntVal(1), k))))), "post")
                info = _where_info(it, 2)
                rank = info["rank"]
                it.ctx.oblige(f"2d.complete.{tag}", A.forall([i, j], lambda: z3.Implies(z3.And(inr(i, j), ev(i, j)), (lambda r: z3.And(r >= 0, r < m, ind.read((z3.IntVal(0), r)) == i, ind.read((z3.IntVal(1), r)) == j))(rank(*pos(i, j))))), "post")
            S.explore(body)


@harness(PROPERTY, "ttl_recovery", functions=[], clause="any TTL event train written into the sync channel is recovered exactly (composition lemma over the two contracts)")
def h_lemma(H):
    # bits are 0/1, so |b[i]-b[i-1]| >= 1  <=>  the bit changes, and the polarity is +1 for a rise / -1 for a fall
    a, b = z3.Ints("a b")
    hyp = [z3.Or(a == 0, a == 1), z3.Or(b == 0, b == 1)]
    H.lemma("lemma.change_iff_front", hyp, z3.Or(a - b >= 1, b - a >= 1) == (a != b))
    H.lemma("lemma.polarity", hyp + [a != b], z3.And(z3.Implies(a == 1, a - b == 1), z3.Implies(a == 0, a - b == -1)))
    w = z3.Int("w")
    for k in (0, 7, 8, 15):
        H.lemma(f"lemma.bit_is_binary.{k}", [w >= -32768, w <= 32767], z3.Or(bit(w, k) == 0, bit(w, k) == 1))


# ----------------------------------------------------------------------------- reader level
@harness(PROPERTY, "read_sync_digital", functions=["spikeglx:Reader.read_sync_digital", "spikeglx:Reader.read_sync", "spikeglx:_get_sync_trace_indices_from_meta",
                                                    "spikeglx:Reader.read_sync_analog", "spikeglx:_get_analog_sync_trace_indices_from_meta"],
         clause="reading sync through the reader returns one row per sample, digital lines decoded from the sync channel named by the metadata")
def h_read_sync(H):
    S = H.session("read_sync.imec")

    def body(it):
        ns, nc, a, b = z3.Ints("ns nc a b")
        it.ctx.assume(z3.And(ns >= 1, nc >= 2, a >= 0, a <= b, b <= ns))
        raw = A.fresh_array("raw", "int16", (ns, nc))
        meta = {"typeThis": "imec", "nSavedChans": SV(nc), "snsApLfSy": [SV(nc - 1), 0, 1]}
        obj = SObj(spikeglx.Reader, _raw=raw, meta=meta)
        out = run_function(it, spikeglx.Reader.read_sync, [obj, slice(SV(a), SV(b))])
        i = z3.Int("i")
        it.ctx.oblige("read_sync.shape", z3.And(z3.BoolVal(out.ndim == 2), A.T(out.shape[0]) == b - a, A.T(out.shape[1]) == 16), "post", "one row per selected sample, 16 digital lines")
        it.ctx.assume(z3.And(i >= 0, i < b - a))
        for k in range(16):
            it.ctx.oblige(f"read_sync.bit.{k}", out.read((i, z3.IntVal(k))) == bit(raw.read((a + i, nc - 1)), k), "post", assume=False)
    S.explore(body)


@harness(PROPERTY, "read_sync_nidq_analog", functions=["spikeglx:Reader.read_sync", "spikeglx:Reader.read_sync_analog", "spikeglx:Reader.read", "spikeglx:_get_analog_sync_trace_indices_from_meta"],
         clause="digital lines first and thresholded analog lines after them: each analog sync channel is compared with the threshold after removing its own floor")
def h_read_sync_nidq(H):
    OFF = object()
    for nxa, nma, floor in ((1, 0, OFF), (2, 0, OFF), (1, 2, OFF), (2, 1, OFF), (1, 0, 0), (2, 0, False), (1, 1, None)):
        S = H.session(f"read_sync.nidq.xa{nxa}.ma{nma}" + ("" if floor is OFF else f".floor_{floor}"))

        def body(it, nxa=nxa, nma=nma, floor=floor):
            ns, a, b = z3.Ints("ns a b")
            thr = z3.Real("threshold")
            it.ctx.assume(z3.And(ns >= 1, a >= 0, a < b, b <= ns, thr > 0))     # a threshold <= 0 would turn the zeros written first into ones (not a TTL threshold)
            nmn = 1
            nc = nmn + nma + nxa + 1            # MN | MA | XA | DW blocks: the analog sync lines are the XA block
            raw = A.fresh_array("raw", "int16", (ns, nc))
            s2v = A.fresh_array("s2v", "float64", (nc,))
            meta = {"typeThis": "nidq", "nSavedChans": nc, "snsMnMaXaDw": [nmn, nma, nxa, 1]}
            obj = SObj(spikeglx.Reader, _raw=raw, meta=meta, is_open=True, channel_conversion_sample2v={"nidq": s2v}, type="nidq")
            out = run_function(it, spikeglx.Reader.read_sync, [obj, slice(SV(a), SV(b))], dict({"threshold": SV(thr)}, **({} if floor is OFF else {"floor_percentile": floor})))
            tag = f"xa{nxa}.ma{nma}" + ("" if floor is OFF else f".floor_{floor}")
            it.ctx.oblige(f"read_sync.nidq.shape.{tag}", z3.And(z3.BoolVal(out.ndim == 2), A.T(out.shape[0]) == b - a, A.T(out.shape[1]) == 16 + nxa), "post", "one row per sample, 16 digital lines then one line per analog sync channel")
            i = z3.Int("i")
            it.ctx.assume(z3.And(i >= 0, i < b - a))
            for k in (0, 7, 15):
                it.ctx.oblige(f"read_sync.nidq.bit.{k}.{tag}", out.read((i, z3.IntVal(k))) == bit(raw.read((a + i, nc - 1)), k), "post", assume=False)
            floors = [r for r in getattr(it.ctx, "reduce_log", []) if r["name"] == "percentile"]
            if floor is not OFF:
                # the documented way to switch the floor removal off (0 / False / None): the lines are the thresholded voltages themselves
                it.ctx.oblige(f"read_sync.nidq.no_floor_removed.{tag}", z3.BoolVal(not floors), "post", "with floor_percentile 0 / False / None nothing is subtracted before thresholding")
                for j in range(nxa):
                    volts = A.cast_term("int16", "float32", raw.read((a + i, nmn + nma + j)))
                    v = volts * s2v.read((z3.IntVal(nmn + nma + j),))
                    it.ctx.oblige(f"read_sync.nidq.analog_line.{j}.{tag}", out.read((i, z3.IntVal(16 + j))) == z3.If(v >= thr, 1, 0), "post",
                                  "analog line j is 1 exactly where channel j reaches the threshold", assume=False)
                return
            okf = len(floors) == 1 and len(floors[0]["in_shape"]) == 2 and floors[0]["axis"] in (0, -2)
            it.ctx.oblige(f"read_sync.nidq.floor_per_channel.{tag}", z3.BoolVal(okf), "post", "the floor removed before thresholding is taken per analog channel (along samples)")
            if okf:
                fl = floors[0]
                for j in range(nxa):
                    volts = A.cast_term("int16", "float32", raw.read((a + i, nmn + nma + j)))
                    v = volts * s2v.read((z3.IntVal(nmn + nma + j),))
                    it.ctx.oblige(f"read_sync.nidq.floor_input.{j}.{tag}", fl["input"]((i, z3.IntVal(j))) == v, "post", "the floor is computed from that channel's calibrated samples", assume=False)
                    it.ctx.oblige(f"read_sync.nidq.analog_line.{j}.{tag}", out.read((i, z3.IntVal(16 + j))) == z3.If(v - fl["out"](z3.IntVal(j)) >= thr, 1, 0), "post",
                                  "analog line j is 1 exactly where channel j minus its floor reaches the threshold", assume=False)
        S.explore(body)


# ----------------------------------------------------------------------------- bounded
@bounded(PROPERTY, "native_words_fronts", bound="all 65536 words; steps of amplitude 1..7.5 on integer and 2.5-scaled lines (1-D n in {2,3,17}, 2-D 4 shapes, both axes, steps 1 and 2); random 0/1 trains on random subsets of lines, n<=400; 2-D along both axes; analog around threshold; nidq read_sync on a small real file",
         clause="exhaustive decoding; event train recovery end-to-end")
def b_native(B):
    words = np.arange(-32768, 32768).astype(np.int16)
    out = spikeglx.split_sync(words)
    want = ((words.astype(np.int64)[:, None] % 65536) >> np.arange(16)[None, :]) & 1
    B.case("all_words", bool(np.array_equal(out, want)) and out.dtype == np.int8, detail="split_sync over all 65536 words")
    # the same 65536 words held in other containers: unsigned, wider, the other byte order (a file read with an explicit dtype), a strided view, a column
    reps = {"uint16": words.view(np.uint16).copy(), "int32": words.astype(np.int32), "int64": words.astype(np.int64), ">i2": words.astype(">i2"), ">u2": words.view(np.uint16).astype(">u2"),
            "<i2": words.astype("<i2"), "strided": np.repeat(words, 2)[::2], "column": words[:, None], "F-ordered column": np.asfortranarray(words[:, None])}
    badrep = [k_ for k_, w_ in reps.items() if (lambda o: o.shape != (65536, 16) or o.dtype != np.int8 or not np.array_equal(o, want))(spikeglx.split_sync(w_))]
    B.case("all_words_other_containers", not badrep, detail={"containers_decoded_wrongly": badrep})
    # lines whose steps are not of amplitude 1 (volts, scaled integers): 1-D and 2-D, against the definition
    r1, r2 = replay_fronts({}, ""), replay_rises2d({}, "")
    B.case("fronts_rises_falls_any_amplitude_1d", not r1["failed"], detail=r1)
    B.case("rises_falls_any_amplitude_2d", not r2["failed"], detail=r2)
    r3 = replay_fronts2d({}, "")
    B.case("fronts_2d_position_polarity_pairs", not r3["failed"], detail=r3)
    rng = np.random.default_rng(B.seed)
    for t in range(60 if B.tier == "quick" else 600):
        n = int(rng.integers(2, 400))
        lines = rng.random((n, 16)) < rng.random(16) * 0.2
        state = np.cumsum(lines, axis=0) % 2
        w = (state.astype(np.int64) * (1 << np.arange(16))).sum(axis=1)
        w = np.where(w >= 32768, w - 65536, w).astype(np.int16)
        dec = spikeglx.split_sync(w)
        ok = bool(np.array_equal(dec, state))
        for k in range(16):
            ind, pol = U.fronts(dec[:, k])
            wi = np.flatnonzero(np.diff(state[:, k]) != 0) + 1
            ok = ok and np.array_equal(ind, wi) and np.array_equal(pol, np.diff(state[:, k].astype(np.int8))[wi - 1])
            ok = ok and np.array_equal(U.rises(dec[:, k]), wi[pol == 1]) and np.array_equal(U.falls(dec[:, k]), wi[pol == -1])
        ind2, pol2 = U.fronts(dec.T.astype(float), axis=-1)
        ind0, pol0 = U.fronts(dec.astype(float), axis=0)
        ok = ok and set(zip(ind2[0].tolist(), ind2[1].tolist())) == set(zip(ind0[1].tolist(), ind0[0].tolist()))
        r0 = U.rises(dec.astype(float), axis=0)
        f1 = U.falls(dec.T.astype(float), axis=-1)
        ok = ok and set(zip(r0[0].tolist(), r0[1].tolist())) == {(a, b) for a, b, p in zip(ind0[0].tolist(), ind0[1].tolist(), pol0.tolist()) if p > 0}
        ok = ok and set(zip(f1[1].tolist(), f1[0].tolist())) == {(a, b) for a, b, p in zip(ind0[0].tolist(), ind0[1].tolist(), pol0.tolist()) if p < 0}
        B.case(("train", t, n), ok, detail="TTL train not recovered")
    # a full-session line (2^21 + 777 samples): one event at every power of two and its neighbours (block-wise implementations must not drop
    # the sample pairs that straddle two blocks), 1-D and 2-D along axis 0
    nl = 2 ** 21 + 777
    ev = sorted({2 ** k + d for k in range(8, 22) for d in (-1, 0, 1)} | {1, nl - 1, 3 * 2 ** 19})
    ev = [e for e in ev if 1 <= e < nl]
    line = np.zeros(nl, np.int8)
    for e in ev:
        line[e:] = 1 - line[e:]
    ind, pol = U.fronts(line)
    okl = ind.tolist() == ev and np.array_equal(pol, np.where(np.arange(len(ev)) % 2 == 0, 1, -1))
    okl = okl and U.rises(line).tolist() == ev[0::2] and U.falls(line).tolist() == ev[1::2]
    two = np.stack([line, 1 - line], axis=1)
    i2, p2 = U.fronts(two, axis=0)
    okl = okl and sorted(zip(i2[0].tolist(), i2[1].tolist())) == sorted([(e, c) for e in ev for c in (0, 1)])
    B.case("long_line_events_at_powers_of_two", bool(okl), detail={"events": len(ev), "recovered": int(ind.size)})
    for t in range(40):
        n = int(rng.integers(2, 200))
        x = rng.normal(1.2, 0.5, size=n)
        thr = 1.2
        x[rng.integers(0, n, 3)] = thr
        got = U.rises(x, step=thr, analog=True)
        wantr = [i for i in range(1, n) if x[i] > thr and not x[i - 1] > thr]
        B.case(("analog", t), got.tolist() == wantr, detail="analog rises")


def _nidq_recording(folder, name, analog_volts, words, aux_volts=None):
    """a NIDQ recording with (optional) nma auxiliary analog (MA) channels, na analog sync (XA) channels and one digital word,
    metadata derived from the shipped nidq fixture"""
    import pathlib
    fix = pathlib.Path(spikeglx.__file__).parent / "tests" / "fixtures" / "sample3B_g0_t0.nidq.meta"
    ns, na = analog_volts.shape
    nma = 0 if aux_volts is None else aux_volts.shape[1]
    nc = nma + na + 1
    fs = 30003.0003
    cmap = "".join(f"(MA{i};{i}:{i})" for i in range(nma)) + "".join(f"(XA{i};{nma + i}:{nma + i})" for i in range(na)) + f"(XD0;{nma + na}:{nma + na})"
    rep = {"acqMnMaXaDw": f"0,{nma},{na},1", "snsMnMaXaDw": f"0,{nma},{na},1", "nSavedChans": f"{nc}", "fileSizeBytes": f"{ns * nc * 2}", "fileTimeSecs": f"{ns / fs}",
           "niXAChans1": "0" if na == 1 else f"0:{na - 1}", "~snsChanMap": f"(0,{nma},{na},1,1)" + cmap, "niMAGain": "1"}
    lines = []
    for line in fix.read_text().splitlines():
        k = line.split("=", maxsplit=1)[0]
        lines.append(f"{k}={rep[k]}" if k in rep else line)
    b = pathlib.Path(folder) / f"{name}.nidq.bin"
    b.with_suffix(".meta").write_text("\n".join(lines) + "\n")
    D = np.zeros((ns, nc), dtype=np.int16)
    if nma:
        D[:, :nma] = np.round(aux_volts / 5 * 32768).astype(np.int16)
    D[:, nma:nma + na] = np.round(analog_volts / 5 * 32768).astype(np.int16)
    D[:, -1] = words.astype(np.uint16).view(np.int16)
    D.tofile(b)
    return b


@bounded(PROPERTY, "native_nidq_analog_sync", bound="NIDQ recordings of 3000 samples with 1, 2 and 3 analog sync channels (and 0..2 auxiliary analog channels saved before them) at DC offsets {0, 2.5, 1.0} V carrying 10 pulses each + 4 digital lines with 8 events each; read_sync over the whole file "
         "and over a slice; fronts of every returned column against the trains written", clause="digital lines first, thresholded analog lines after them; every TTL train written is recovered")
def b_nidq(B):
    import tempfile
    import shutil
    rng = np.random.default_rng(B.seed)
    ns = 3000
    d = tempfile.mkdtemp(prefix="c10_")
    try:
        for na, nma in ((1, 0), (2, 0), (3, 0), (1, 2), (2, 1)):
            dig = np.zeros((ns, 16), np.int64)
            for ln in rng.choice(16, 4, replace=False):
                st = np.zeros(ns, np.int64)
                for e in np.sort(rng.choice(np.arange(1, ns), 8, replace=False)):
                    st[e:] = 1 - st[e:]
                dig[:, ln] = st
            words = np.sum(dig << np.arange(16), axis=1).astype(np.uint16)
            ttl = np.zeros((ns, na), np.int64)
            dc = np.array([0.0, 2.5, 1.0])[:na]
            amp = np.array([3.3, 2.0, 2.4])[:na]
            for j in range(na):
                for k in range(10):
                    s0 = 60 + 37 * j + k * 280
                    ttl[s0: s0 + 25 + 5 * j, j] = 1
            volts = dc + ttl * amp + rng.normal(0, 0.01, (ns, na))
            aux = None
            if nma:
                # auxiliary analog channels saved before the sync lines carry an unrelated square wave
                tt = np.arange(ns)[:, None]
                aux = 1.5 + 2.0 * (((tt + 13 * np.arange(nma)[None, :]) // 170) % 2) + rng.normal(0, 0.01, (ns, nma))
            f = _nidq_recording(d, f"xa{na}ma{nma}", volts, words, aux)
            bad = []
            with spikeglx.Reader(f) as sr:
                for sl in (slice(0, ns), slice(40, 2900)):
                    sync = sr.read_sync(sl)
                    n = sl.stop - sl.start
                    if sync.shape != (n, 16 + na):
                        bad.append(("shape", sync.shape))
                        continue
                    if not np.array_equal(sync[:, :16], dig[sl]):
                        bad.append(("digital lines are not the first 16 columns",))
                    for j in range(na):
                        i1, p1 = U.fronts(sync[:, 16 + j])
                        i0, p0 = U.fronts(ttl[sl, j])
                        if not (np.array_equal(i1, i0) and np.array_equal(p1, p0)):
                            bad.append(("analog line", j, f"{i0.size} events written, {i1.size} recovered"))
            # the same samples read again on the same reader with another threshold / floor percentile: each call thresholds with its own options
            with spikeglx.Reader(f) as sr:
                # the same samples asked again with other options (consecutive calls on one slice), short chunks around a rising edge (the floor is the interpolated 10th percentile of the chunk)
                for sl in (slice(0, ns), slice(57, 82), slice(58, 63), slice(50, 100)):
                    for kw in ({"threshold": 1.2}, {"threshold": 2.9}, {"threshold": 1.2, "floor_percentile": None}, {"threshold": 1.2}, {"threshold": 1.2}, {"threshold": 0.4},
                               {"threshold": 1.2, "floor_percentile": 0}, {"threshold": 0.6, "floor_percentile": False}, {"threshold": 2.2, "floor_percentile": 0}):
                        got = sr.read_sync(sl, **kw)
                        raw_v = sr.read(sl, slice(nma, nma + na), sync=False)
                        base_ = np.percentile(raw_v, 10, axis=0) if kw.get("floor_percentile", 10) else 0          # 0 / False / None switch the floor removal off
                        want_a = ((raw_v - base_) >= kw["threshold"]).astype(got.dtype)
                        n_ = sl.stop - sl.start
                        if got.shape != (n_, 16 + na) or not np.array_equal(got[:, 16:], want_a) or not np.array_equal(got[:, :16], dig[sl]):
                            bad.append(("read_sync repeated with other options", kw))
            B.case(("nidq", na, nma), not bad, detail=bad[:4])
    finally:
        shutil.rmtree(d, ignore_errors=True)


# ----------------------------------------------------------------------------- contracts of dependencies this property rests on (re-checked here)
from pyvc.api import depends  # noqa: E402
depends(PROPERTY, "C09", ["derived_scalars", "sample2v_nidq"])      # sync / analog sync channel indices, calibration of the analog lines
