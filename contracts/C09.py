"""C09 - metadata parsing, derived acquisition parameters and writing round-trip.

Functions under contract (spikeglx.py): _conversion_sample2v_from_meta (+ nested int2volts), _get_max_int_from_meta,
_get_neuropixel_version_from_meta, _get_type_from_meta, _get_fs_from_meta, _get_nchannels_from_meta,
_get_sync_trace_indices_from_meta, _get_analog_sync_trace_indices_from_meta, Reader.range_volts.
read_meta_data / write_meta_data (text round trip): bounded stand-in only (string theories do not decide float()/repr()).
"""
import os
import re
import shutil
import tempfile

import numpy as np
import z3

import spikeglx
from pyvc.api import harness, bounded, property_meta, run_function
from pyvc.core import SV, term, fresh_name, Unsupported
from pyvc import arrays as A, models
from pyvc.interp import SObj, SIter

PROPERTY = "C09"
property_meta(
    PROPERTY, level="other",
    trusted_base=["A-PY", "A-NP-INDEX", "A-REAL",
                  "A-STR-FREE/A-SGLX: re.findall of the imro regex on imroTbl yields the table entries in order and entry.split(' ')[k] is numeric field k "
                  "(chan bank ref apgain lfgain); metadata values are the parsed numbers"],
    explanation="derived quantities executed symbolically for every probe generation with symbolic numeric fields and an abstract IMRO table of symbolic length: "
                "s2v[type][c] == range/maxint/gain_type(c) for c < n_chn, == 1 on sync, vector length == nSavedChans; type / fs / channel counts / sync indices against "
                "an independent reading of the same fields.  The textual read->write->read round trip is a bounded stand-in over a grammar-generated corpus.")

IMRO_RE = r"([0-9]* [0-9]* [0-9]* [0-9]* [0-9]*)"


class SymImro(str):
    """abstract imroTbl: `total` entries, field k of entry j is F(j, k) (A-STR-FREE)"""

    def __new__(cls, total, F):
        o = str.__new__(cls, "<imroTbl>")
        o.total, o.F = total, F
        return o


class SymEntries:
    _pyvc_ok = True         # len() of the list of matches: its (symbolic) length

    def __init__(self, imro, length):
        self.imro, self.length = imro, length

    def iter(self):
        F = self.imro.F
        return SIter(self.length, lambda j: SymEntry(F, j))


class SymEntry:
    def __init__(self, F, j):
        self.F, self.j = F, j

    def split(self, sep=" "):
        assert sep == " "
        return [SV(self.F(self.j, z3.IntVal(k))) for k in range(5)]


@models.model(re.findall)
def _findall(I, a, k):
    if len(a) >= 2 and isinstance(a[1], SymImro):
        if a[0] != IMRO_RE:
            raise Unsupported("regex on imroTbl other than the 5-field entry pattern")
        return SymEntries(a[1], a[1].total)
    return NotImplemented


_prev_hook = models.subscript_hook


def _hook(obj):
    if isinstance(obj, SymEntries):
        def sub(I, o, idx):
            if isinstance(idx, slice) and idx.start is None and idx.step is None:
                n = term(idx.stop)
                # python slice [:n] of a list of length total: n >= 0 -> min(n, total); n < 0 -> max(total + n, 0)
                ln = z3.If(n >= 0, z3.If(n <= o.length, n, o.length), z3.If(o.length + n >= 0, o.length + n, z3.IntVal(0)))
                return SymEntries(o.imro, z3.simplify(ln))
            raise Unsupported("subscript of the imro entry list other than [:n]")
        return sub
    return _prev_hook(obj)


models.subscript_hook = _hook
import pyvc.interp as _I     # noqa
_orig_to_iterable = _I.Interp.to_iterable


def _to_iterable(self, it, env):
    if isinstance(it, SymEntries):
        return it.iter()
    return _orig_to_iterable(self, it, env)


_I.Interp.to_iterable = _to_iterable

PROBES = {
    "3A": {"typeEnabled": "1", "typeThis": "imec"},
    "3B1": {"imDatPrb_type": 0.0, "typeThis": "imec"},
    "3B2": {"imDatPrb_type": 0.0, "imDatPrb_port": 1.0, "imDatPrb_slot": 2.0, "typeThis": "imec"},
    "NP2.1": {"imDatPrb_type": 21.0, "typeThis": "imec"},
    "NP2.1b": {"imDatPrb_type": 1030.0, "typeThis": "imec"},
    "NP2.4": {"imDatPrb_type": 24.0, "typeThis": "imec"},
    "NP2.4b": {"imDatPrb_type": 2013.0, "typeThis": "imec"},
    "NPultra": {"imDatPrb_type": 1100.0, "typeThis": "imec"},
}


def sym_imec_meta(it, probe, band, with_maxint):
    nap, nsy, total = z3.Ints("nchn nsync imro_total")
    rng, maxint = z3.Real("imAiRangeMax"), z3.Int("imMaxInt")
    it.ctx.assume(z3.And(nap >= 1, nsy >= 0, nsy <= 2, total >= nap, rng > 0, maxint > 0))
    F = z3.Function("imro", z3.IntSort(), z3.IntSort(), z3.RealSort())
    md = dict(PROBES[probe])
    md["imroTbl"] = SymImro(total, F)
    md["imAiRangeMax"] = SV(rng)
    md["nSavedChans"] = SV(z3.ToReal(nap + nsy))
    md["snsApLfSy"] = [SV(z3.ToReal(nap)), 0.0, SV(z3.ToReal(nsy))] if band == "ap" else [0.0, SV(z3.ToReal(nap)), SV(z3.ToReal(nsy))]
    md["imSampRate"] = SV(z3.Real("imSampRate"))
    if with_maxint:
        md["imMaxInt"] = SV(z3.ToReal(maxint))
    # recent SpikeGLX versions also write the gains of channel 0 in the header: a per-channel factor never comes from them (the table may hold other gains on other channels)
    g0a, g0l = z3.Reals("imChan0apGain imChan0lfGain")
    it.ctx.assume(z3.And(g0a > 0, g0l > 0))
    md["imChan0apGain"] = SV(g0a)
    md["imChan0lfGain"] = SV(g0l)
    j = z3.Int("jj")
    it.ctx.assume(z3.ForAll([j], z3.And(F(j, z3.IntVal(3)) > 0, F(j, z3.IntVal(4)) > 0)))
    return md, nap, nsy, rng, maxint, F


def derive(it, fn, md, tag):
    """run a derived-quantity reader on the parsed dictionary and state its frame: it reads the record and leaves it as parsed (same keys in the same order,
    the same value objects, lists with the same entries) - what is written back later is then what was parsed"""
    snap = [(k_, v_, list(v_) if isinstance(v_, list) else None) for k_, v_ in md.items()]
    out = run_function(it, fn, [md])
    same = list(md) == [k_ for k_, _, _ in snap] and all(md[k_] is v_ and (l_ is None or (len(v_) == len(l_) and all(a_ is b_ for a_, b_ in zip(v_, l_)))) for k_, v_, l_ in snap)
    it.ctx.oblige(f"reads_only.{tag}", z3.BoolVal(same), "post", "deriving a quantity leaves the parsed dictionary untouched (no key added, removed or rewritten): parse -> write -> parse stays the identity "
                  "whatever was derived in between", assume=False)
    return out


def native_derived_readers_leave_meta():
    """every shipped metadata file: parse, derive everything, compare with a copy taken before; then write back and parse again"""
    import copy
    import glob
    bad = []
    fns = [n_ for n_ in dir(spikeglx) if n_.startswith("_") and n_.endswith("_from_meta")] + ["geometry_from_meta"]
    d = tempfile.mkdtemp(prefix="c09_")
    try:
        for m in sorted(glob.glob(os.path.join(os.path.dirname(spikeglx.__file__), "tests", "fixtures", "**", "*.meta"), recursive=True)):
            md = spikeglx.read_meta_data(m)
            ref = copy.deepcopy(md)
            for n_ in fns:
                try:
                    getattr(spikeglx, n_)(md)
                except Exception:
                    pass
                if list(md) != list(ref) or any(repr(md[k_]) != repr(ref[k_]) for k_ in ref):
                    bad.append({"file": os.path.basename(m), "reader": n_, "keys_added": [k_ for k_ in md if k_ not in ref][:4], "keys_changed": [k_ for k_ in ref if k_ in md and repr(md[k_]) != repr(ref[k_])][:4]})
                    md = copy.deepcopy(ref)
            out = os.path.join(d, "w.meta")
            spikeglx.write_meta_data(md, out)
            again = spikeglx.read_meta_data(out)
            if list(again) != list(ref) or any(repr(again[k_]) != repr(ref[k_]) for k_ in ref):
                bad.append({"file": os.path.basename(m), "parse_derive_write_parse_differs_on": [k_ for k_ in set(again) ^ set(ref)][:4] + [k_ for k_ in ref if k_ in again and repr(again[k_]) != repr(ref[k_])][:4]})
    finally:
        shutil.rmtree(d, ignore_errors=True)
    return bad


def replay_s2v(vals, oid):
    bad = native_s2v_cases(np.random.default_rng(3), 6)
    return {"failed": bool(bad), "examples": bad[:3]}


@harness(PROPERTY, "sample2v_imec", functions=["spikeglx:_conversion_sample2v_from_meta", "spikeglx:_get_max_int_from_meta", "spikeglx:_get_neuropixel_version_from_meta",
                                               "spikeglx:_get_nchannels_from_meta", "spikeglx:_get_sync_trace_indices_from_meta", "spikeglx:_get_type_from_meta"],
         replay=replay_s2v, clause="per-channel volts-per-bit = full-scale range / max integer / channel gain with gain 1 on sync, for every probe type, stream and gain table")
def h_s2v(H):
    for probe in PROBES:
        for band in ("ap", "lf"):
            for with_maxint in ((True, False) if not probe.startswith("NP2") else (True,)):
                S = H.session(f"s2v.{probe}.{band}.{with_maxint}")

                def body(it, probe=probe, band=band, with_maxint=with_maxint):
                    md, nap, nsy, rng, maxint, F = sym_imec_meta(it, probe, band, with_maxint)
                    out = derive(it, spikeglx._conversion_sample2v_from_meta, md, f"sample2v.{probe}.{band}.{with_maxint}")
                    mi = z3.ToReal(maxint) if with_maxint else z3.RealVal(512)
                    tag = f"{probe}.{band}.{'maxint' if with_maxint else 'default512'}"
                    c = z3.Int("c")
                    it.ctx.oblige(f"keys.{tag}", z3.BoolVal(isinstance(out, dict) and set(out) == {"ap", "lf"}), "post")
                    for key, field in (("ap", 3), ("lf", 4)):
                        v = out[key]
                        gain = (lambda cc: z3.RealVal(80)) if probe.startswith("NP2") else (lambda cc, field=field: F(cc, z3.IntVal(field)))
                        it.ctx.oblige(f"len.{key}.{tag}", z3.And(z3.BoolVal(v.ndim == 1), A.T(v.shape[0]) == nap + nsy), "post", "one factor per saved channel")
                        it.ctx.oblige(f"gain.{key}.{tag}", A.forall([c], lambda: z3.Implies(z3.And(c >= 0, c < nap), v.read((c,)) * gain(c) * mi == rng)), "post",
                                      "factor * gain * maxint == range on every recording channel")
                        it.ctx.oblige(f"sync_is_one.{key}.{tag}", A.forall([c], lambda: z3.Implies(z3.And(c >= nap, c < nap + nsy), v.read((c,)) == 1)), "post")
                S.explore(body)


@harness(PROPERTY, "sample2v_nidq", functions=["spikeglx:_conversion_sample2v_from_meta"], replay=lambda vals, oid: (lambda b: {"failed": bool(b), "cases": b[:4]})(native_derived_readers_leave_meta()), clause="nidq: MN / MA / XA / DW segments with their gains")
def h_nidq(H):
    S = H.session("s2v.nidq")

    def body(it):
        mn, ma, xa, dw = z3.Ints("MN MA XA DW")
        gmn, gma, rng = z3.Reals("niMNGain niMAGain niAiRangeMax")
        it.ctx.assume(z3.And(mn >= 0, ma >= 0, xa >= 0, dw >= 0, gmn > 0, gma > 0, rng > 0))
        md = {"typeThis": "nidq", "niMNGain": SV(gmn), "niMAGain": SV(gma), "niAiRangeMax": SV(rng),
              "snsMnMaXaDw": [SV(z3.ToReal(mn)), SV(z3.ToReal(ma)), SV(z3.ToReal(xa)), SV(z3.ToReal(dw))], "nSavedChans": SV(z3.ToReal(mn + ma + xa + dw))}
        out = derive(it, spikeglx._conversion_sample2v_from_meta, md, "nidq.sample2v")
        v = out["nidq"]
        c = z3.Int("c")
        i2v = rng / 32768
        it.ctx.oblige("nidq.len", A.T(v.shape[0]) == mn + ma + xa + dw, "post")
        it.ctx.oblige("nidq.mn", A.forall([c], lambda: z3.Implies(z3.And(c >= 0, c < mn), v.read((c,)) * gmn == i2v)), "post")
        it.ctx.oblige("nidq.ma", A.forall([c], lambda: z3.Implies(z3.And(c >= mn, c < mn + ma), v.read((c,)) * gma == i2v)), "post")
        it.ctx.oblige("nidq.xa", A.forall([c], lambda: z3.Implies(z3.And(c >= mn + ma, c < mn + ma + xa), v.read((c,)) == i2v)), "post")
        it.ctx.oblige("nidq.dw", A.forall([c], lambda: z3.Implies(z3.And(c >= mn + ma + xa, c < mn + ma + xa + dw), v.read((c,)) == 1)), "post")
        # channel bookkeeping of the same record
        sy = run_function(it, spikeglx._get_sync_trace_indices_from_meta, [md]) if False else None
        an = run_function(it, spikeglx._get_analog_sync_trace_indices_from_meta, [dict(md, snsMnMaXaDw=[2.0, 1.0, 3.0, 1.0])])
        it.ctx.oblige("nidq.analog_indices", z3.BoolVal(an == [3, 4, 5]), "post", "analog sync lines follow the MN and MA channels")
        it.ctx.oblige("nidq.type", z3.BoolVal(derive(it, spikeglx._get_type_from_meta, md, "nidq.type") == "nidq"), "post")
        it.ctx.oblige("nidq.fs", z3.BoolVal(run_function(it, spikeglx._get_fs_from_meta, [dict(md, niSampRate=12345.5, imSampRate=1.0)]) == 12345.5), "post")
    S.explore(body)


def replay_write_lists(vals, oid):
    """real write -> read of integer lists with entries of every magnitude up to 1e15"""
    d = tempfile.mkdtemp(prefix="c09_")
    bad = []
    try:
        f = os.path.join(d, "x.meta")
        for lst in ([20210802.0, 1234567.0], [0.0, 110884048.0], [1.0], [999999.0, 1000000.0, 123456789012345.0], [384.0, 0.0, 1.0],
                    [7.0, 1e19, 36893488147419103232.0], [9223372036854775808.0, 2.0]):          # entries of 20 digits (beyond 64-bit integers) stay numbers too
            md = {"typeThis": "imec", "someList": lst, "nSavedChans": 385.0}
            spikeglx.write_meta_data(md, f)
            back = spikeglx.read_meta_data(f)
            if back.get("someList") != (lst if len(lst) > 1 else lst[0]) and back.get("someList") != lst:
                bad.append({"written": lst, "read_back": repr(back.get("someList"))[:80], "line": [ln for ln in open(f).read().splitlines() if ln.startswith("someList")]})
    finally:
        shutil.rmtree(d, ignore_errors=True)
    return {"failed": bool(bad), "cases": bad[:3]}


@harness(PROPERTY, "write_meta_data_lists", functions=["spikeglx:write_meta_data"], replay=replay_write_lists,
         clause="writing it back: an integer list is written as the plain decimal digits of its entries separated by commas (the form the parser reads back as the same list), whatever their magnitude")
def h_write_lists(H):
    from pyvc import fsmodel
    S = H.session("write_meta_data.lists")

    def body(it):
        fs_ = fsmodel.GhostFS()
        it.session.ghost_fs = fs_
        path = fsmodel.GhostPath(fs_, ("data",), "x.ap.meta")
        i0, i1, i2 = z3.Ints("entry0 entry1 entry2")
        it.ctx.assume(z3.And(i0 >= 0, i1 >= 0, i2 >= 0))
        v0, v1, v2 = z3.ToReal(i0), z3.ToReal(i1), z3.ToReal(i2)        # the parser yields integer lists as whole floats
        md = {"typeThis": "imec", "someList": [SV(v0), SV(v1), SV(v2)], "oneEntry": [SV(v0)]}
        run_function(it, spikeglx.write_meta_data, [md, path])
        files = getattr(it.session, "ghost_files", {}).get(path.key, [])
        texts = [t for f in files for t in getattr(f, "texts", [])]
        lines = {}
        for t in texts:
            parts = list(t.parts) if isinstance(t, models.SymStr) else [t]
            # merge adjacent literal pieces
            flat = []
            for p_ in parts:
                if isinstance(p_, str) and flat and isinstance(flat[-1], str):
                    flat[-1] += p_
                else:
                    flat.append(p_)
            if flat and isinstance(flat[0], str) and "=" in flat[0]:
                lines[flat[0].split("=")[0]] = flat
        it.ctx.oblige("write.lists.every_key_written_once", z3.BoolVal(sorted(lines) == sorted(md) and len(texts) == len(md)), "post", assume=False)

        def is_digits_of(p_, v):
            # the default text of an integer term equal to the entry: its decimal digits (str(int(v)), f"{int(v)}", f"{int(v):d}")
            if isinstance(p_, tuple) and len(p_) == 3 and p_[0] == "format" and p_[1] in ("", "d"):
                p_ = p_[2]
            return isinstance(p_, SV) and z3.is_int(term(p_)) and it.ctx.entails(term(p_) == v)
        for key, vs in (("someList", (i0, i1, i2)), ("oneEntry", (i0,))):
            fl = lines.get(key, [])
            want_len = 2 * len(vs) + 1          # 'key=' d0 ',' d1 ',' d2 '\n'
            ok = len(fl) == want_len and fl[0] == key + "=" and fl[-1] == "\n" and all(fl[2 * j + 1 + 1] == "," for j in range(len(vs) - 1)) and all(is_digits_of(fl[2 * j + 1], v) for j, v in enumerate(vs))
            it.ctx.oblige(f"write.lists.plain_digits.{key}", z3.BoolVal(bool(ok)), "post",
                          "key=d0,d1,...: each entry as the decimal digits of its integer value (no rounding to significant digits, no exponent, no decimal point)", assume=False)
    S.explore(body)


def replay_scalars(vals, oid):
    """native: a 3B recording saved with and without its sync channel: sync count, full-scale range per channel"""
    if "range_volts" not in oid and "sync" not in oid:
        bad = native_derived_readers_leave_meta()
        return {"failed": bool(bad), "cases": bad[:4]}
    fixm = os.path.join(os.path.dirname(spikeglx.__file__), "tests", "fixtures", "sample3B_g0_t0.imec1.ap.meta")
    bad = []
    for nsy in (1, 0):
        d = tempfile.mkdtemp(prefix="c09_")
        try:
            b = os.path.join(d, "r_g0_t0.imec1.ap.bin")
            nc = 384 + nsy
            np.zeros((10, nc), np.int16).tofile(b)
            with open(fixm) as f, open(b[:-3] + "meta", "w") as g:
                for line in f:
                    if line.startswith("nSavedChans"):
                        line = f"nSavedChans={nc}\n"
                    elif line.startswith("snsApLfSy"):
                        line = f"snsApLfSy=384,0,{nsy}\n"
                    elif line.startswith("snsSaveChanSubset"):
                        line = "snsSaveChanSubset=0:383" + (",768" if nsy else "") + "\n"
                    elif line.startswith("fileSizeBytes"):
                        line = f"fileSizeBytes={10 * nc * 2}\n"
                    elif line.startswith("fileTimeSecs"):
                        line = f"fileTimeSecs={10 / 30000:.10f}\n"
                    g.write(line)
            sr = spikeglx.Reader(b, ignore_warnings=True)
            want = np.r_[np.full(384, 0.6 / 500), np.full(nsy, 512.0)]
            first = sr.range_volts
            first *= 1e6                    # a caller converting its copy to microvolts in place
            got = np.asarray(sr.range_volts, dtype=float)
            if sr.nsync != nsy or got.shape != want.shape or not np.allclose(got, want, rtol=1e-5):
                bad.append({"sync_channels_saved": nsy, "nsync": sr.nsync, "range_volts_first_and_last": [float(got[0]), float(got[-1])] if got.size else [], "expected": [0.6 / 500, 512.0 if nsy else 0.6 / 500]})
            sr.close()
        finally:
            shutil.rmtree(d, ignore_errors=True)
    return {"failed": bool(bad), "cases": bad}


@harness(PROPERTY, "derived_scalars", replay=replay_scalars, functions=["spikeglx:_get_type_from_meta", "spikeglx:_get_fs_from_meta", "spikeglx:_get_nchannels_from_meta",
                                                 "spikeglx:_get_sync_trace_indices_from_meta", "spikeglx:_get_analog_sync_trace_indices_from_meta",
                                                 "spikeglx:_get_neuropixel_version_from_meta", "spikeglx:_get_neuropixel_major_version_from_meta", "spikeglx:Reader.range_volts"],
         clause="probe generation, stream type, channel and sync counts, sampling rate agree with an independent reading of the same fields")
def h_scalars(H):
    S = H.session("derived")

    def body(it):
        nap, nsy = z3.Ints("n nsy")
        fs = z3.Real("fs")
        it.ctx.assume(z3.And(nap >= 1, nsy >= 0, nsy <= 3))
        for band in ("ap", "lf"):
            md = {"typeThis": "imec", "imSampRate": SV(fs), "niSampRate": 7.0, "nSavedChans": SV(z3.ToReal(nap + nsy)),
                  "snsApLfSy": [SV(z3.ToReal(nap)), 0.0, SV(z3.ToReal(nsy))] if band == "ap" else [0.0, SV(z3.ToReal(nap)), SV(z3.ToReal(nsy))]}
            it.ctx.oblige(f"type.{band}", z3.BoolVal(derive(it, spikeglx._get_type_from_meta, md, f"type.{band}") == band), "post")
            it.ctx.oblige(f"fs.{band}", term(derive(it, spikeglx._get_fs_from_meta, md, f"fs.{band}")) == fs, "post")
            it.ctx.oblige(f"nc.{band}", term(derive(it, spikeglx._get_nchannels_from_meta, md, f"nc.{band}")) == nap + nsy, "post")
        for nsync in (0, 1, 2):
            md = {"typeThis": "imec", "nSavedChans": SV(z3.ToReal(nap + nsync)), "snsApLfSy": [SV(z3.ToReal(nap)), 0.0, float(nsync)]}
            idx = derive(it, spikeglx._get_sync_trace_indices_from_meta, md, f"sync_indices.{nsync}")
            ok = isinstance(idx, list) and len(idx) == nsync
            it.ctx.oblige(f"sync_indices.{nsync}", z3.And(z3.BoolVal(ok), *[term(idx[k]) == nap + k for k in range(min(len(idx), nsync))]), "post", "sync traces are the last nsync saved channels")
            it.ctx.oblige(f"analog_indices_imec.{nsync}", z3.BoolVal(derive(it, spikeglx._get_analog_sync_trace_indices_from_meta, md, f"analog_indices_imec.{nsync}") == []), "post")
        want = {"3A": ("3A", 1), "3B1": ("3B1", 1), "3B2": ("3B2", 1), "NP2.1": ("NP2.1", 2), "NP2.1b": ("NP2.1", 2), "NP2.4": ("NP2.4", 2.4), "NP2.4b": ("NP2.4", 2.4), "NPultra": ("NPultra", "NPultra")}
        for probe, md in PROBES.items():
            v = derive(it, spikeglx._get_neuropixel_version_from_meta, dict(md), f"version.{probe}")
            mv = derive(it, spikeglx._get_neuropixel_major_version_from_meta, dict(md), f"major_version.{probe}")
            it.ctx.oblige(f"version.{probe}", z3.BoolVal(v == want[probe][0] and mv == want[probe][1]), "post")
        # 3B2 is told from 3B1 by the PRESENCE of the port / slot fields, whatever their values (port / slot numbers start at 0 on some rigs)
        port, slot = z3.Reals("imDatPrb_port imDatPrb_slot")
        it.ctx.assume(z3.And(port >= 0, slot >= 0))
        v = run_function(it, spikeglx._get_neuropixel_version_from_meta, [{"imDatPrb_type": 0.0, "imDatPrb_port": SV(port), "imDatPrb_slot": SV(slot), "typeThis": "imec"}])
        it.ctx.oblige("version.3B2.any_port_and_slot", z3.BoolVal(v == "3B2"), "post", "both fields present -> 3B2, for every port and slot number (0 included)")
        # range_volts = sample2volts * maxint
        s2v = A.fresh_array("s2v", "float32", (nap + nsy,))
        maxint = z3.Int("maxint")
        it.ctx.assume(maxint > 0)
        md = dict(PROBES["NP2.4"], imMaxInt=SV(z3.ToReal(maxint)), snsApLfSy=[SV(z3.ToReal(nap)), 0.0, SV(z3.ToReal(nsy))], nSavedChans=SV(z3.ToReal(nap + nsy)), typeThis="imec")
        obj = SObj(spikeglx.Reader, meta=md, channel_conversion_sample2v={"ap": s2v})
        rv = it.getattr(obj, "range_volts")
        c = z3.Int("c")
        it.ctx.oblige("range_volts", A.forall([c], lambda: z3.Implies(z3.And(c >= 0, c < nap + nsy), rv.read((c,)) == s2v.read((c,)) * z3.ToReal(maxint))), "post")
        # the caller converts what it was handed in place (to microvolts, say) and asks again: the second answer is again the range in volts
        A.setitem(rv, (slice(None),), 1200.0)
        rv2 = it.getattr(obj, "range_volts")
        it.ctx.oblige("range_volts.asked_again_after_the_caller_edited_its_copy", A.forall([c], lambda: z3.Implies(z3.And(c >= 0, c < nap + nsy), rv2.read((c,)) == s2v.read((c,)) * z3.ToReal(maxint))), "post",
                      "derived quantities agree with an independent reading of the fields at every request: the array handed out is the caller's own", assume=False)
    S.explore(body)


# ----------------------------------------------------------------------------- bounded
FIX = os.path.join(os.path.dirname(spikeglx.__file__), "tests", "fixtures")


def native_s2v_cases(rng, n):
    """generated metas (subset of saved channels with a full 384-entry table, non uniform gains) vs an independent reading"""
    bad = []
    gains_ap = [50, 125, 250, 500, 1000, 1500, 2000, 3000]
    gains_lf = [50, 125, 250, 500, 1000]
    ga = gl = None
    for t in range(n):
        kind = ["3A", "3B2", "NP2.1", "NP2.4", "NPultra"][t % 5]
        nsaved = int(rng.choice([384, 276, 200, 96, 17]))
        if t % 3 != 1 or ga is None:
            ga = rng.choice(gains_ap, 384)
            gl = rng.choice(gains_lf, 384)
        else:
            # the same gain table (byte-identical imroTbl) and channel count as the previous file of this kind, another full-scale range / max integer:
            # derived quantities are a function of the file at hand, not of files converted earlier in the process
            kind, nsaved = prev_kind, prev_nsaved
        prev_kind, prev_nsaved = kind, nsaved
        rngmax = float(rng.choice([0.6, 0.5, 0.62, 1.2]))
        maxint = int(rng.choice([512, 1024, 2048, 8192]))
        band = ["ap", "lf"][t % 2]
        if kind.startswith("NP2"):
            imro = "(24,384)" + "".join(f"({i} 0 0 0 {i})" for i in range(384))
        else:
            imro = "(0,384)" + "".join(f"({i} 0 0 {ga[i]} {gl[i]} 1)" for i in range(384))
        md = {"typeThis": "imec", "imAiRangeMax": rngmax, "imMaxInt": float(maxint), "nSavedChans": float(nsaved + 1), "imroTbl": imro,
              "snsApLfSy": [float(nsaved), 0.0, 1.0] if band == "ap" else [0.0, float(nsaved), 1.0], "imSampRate": 30000.0}
        md.update({"3A": {"typeEnabled": "1"}, "3B2": {"imDatPrb_type": 0.0, "imDatPrb_port": float(t % 3), "imDatPrb_slot": float((t // 3) % 4)}, "NP2.1": {"imDatPrb_type": 21.0},
                   "NP2.4": {"imDatPrb_type": 2013.0}, "NPultra": {"imDatPrb_type": 1100.0}}[kind])
        if t % 2 == 0 and not kind.startswith("NP2"):
            # recent SpikeGLX headers also carry the gains of channel 0 (the table holds other gains on other channels)
            md.update({"imChan0apGain": float(ga[0]), "imChan0lfGain": float(gl[0])})
        if kind == "3B2" and spikeglx._get_neuropixel_version_from_meta(md) != "3B2":
            bad.append(("version of a 3B2 file with port / slot", md["imDatPrb_port"], md["imDatPrb_slot"]))
        out = spikeglx._conversion_sample2v_from_meta(md)
        g = {"ap": ga, "lf": gl}
        for key in ("ap", "lf"):
            want = np.r_[(rngmax / maxint / (80.0 if kind.startswith("NP2") else g[key][:nsaved].astype(float))) * np.ones(nsaved), 1.0]
            if out[key].shape != want.shape or not np.allclose(out[key], want, rtol=1e-6, atol=0):
                bad.append((kind, band, key, nsaved))
    return bad


def native_gains_of_a_channel_subset(rng):
    """a recording that saved channels 100:199 (+ sync) of a probe whose IMRO table (one entry per channel of the probe) holds other gains on other channels:
    saved channel j is probe channel 100 + j"""
    ga = rng.choice([50, 125, 250, 500, 1000, 1500, 2000, 3000], 384)
    gl = rng.choice([50, 125, 250, 500, 1000], 384)
    imro = "(0,384)" + "".join(f"({i} 0 0 {ga[i]} {gl[i]} 1)" for i in range(384))
    md = {"typeThis": "imec", "imAiRangeMax": 0.6, "imMaxInt": 512.0, "nSavedChans": 101.0, "imroTbl": imro, "snsApLfSy": [100.0, 0.0, 1.0], "imSampRate": 30000.0,
          "imDatPrb_type": 0.0, "imDatPrb_port": 1.0, "imDatPrb_slot": 2.0, "snsSaveChanSubset": "100:199,768"}
    out = spikeglx._conversion_sample2v_from_meta(md)
    want = np.r_[0.6 / 512 / ga[100:200].astype(float), 1.0]
    return out["ap"].shape == want.shape and bool(np.allclose(out["ap"], want, rtol=1e-6)), {"volts_per_bit_of_saved_channel_0": float(out["ap"][0]), "expected (probe channel 100)": float(want[0]),
                                                                                          "value_for_probe_channel_0": float(0.6 / 512 / ga[0])}


def _gen_meta(rng):
    lines = {}
    n = int(rng.integers(3, 25))
    for i in range(n):
        key = ("~" if rng.random() < 0.15 else "") + "k" + "".join(rng.choice(list("abcXYZ_09"), int(rng.integers(1, 8))))
        kind = rng.choice(["str", "int", "float", "ilist", "eq", "bigint", "small", "dots", "repr"])
        if kind == "str":
            val = "".join(rng.choice(list("abc /:;()[]-_xyz"), int(rng.integers(0, 12))))
        elif kind == "int":
            val = str(int(rng.integers(0, 10 ** int(rng.integers(1, 12)))))
        elif kind == "float":
            val = f"{rng.random() * 10 ** int(rng.integers(0, 6)):.{int(rng.integers(1, 7))}f}"
        elif kind == "ilist":
            val = ",".join(str(int(rng.integers(0, 10 ** int(rng.integers(1, 9))))) for _ in range(int(rng.integers(2, 6))))
        elif kind == "repr":
            # what another writer of the same dictionary produces: the shortest text that reads back as the same double (17 significant digits at most),
            # e.g. a duration n / fs = 0.0010666666666666667
            v = float(rng.integers(1, 10 ** 6)) / float(rng.choice([30000.0, 2500.0, 30000.37, 3.0, 7e5, 1e9]))
            val = repr(v) if "e" not in repr(v) else f"{v:.20f}".rstrip("0")
        elif kind == "eq":
            val = "a=b=" + str(int(rng.integers(0, 100)))
        elif kind == "bigint":
            val = str(int(rng.integers(10 ** 15, 10 ** 17)))
        elif kind == "dots":
            # digits, dots and commas with two or more dots (version numbers, addresses, lists of decimals): not a scalar nor an integer list, kept verbatim
            items = [f"{rng.random() * 400:.{int(rng.integers(1, 4))}f}" if rng.random() < 0.7 else str(int(rng.integers(0, 400))) for _ in range(int(rng.integers(2, 5)))]
            val = rng.choice([",", "."]).join(items)
            if val.count(".") < 2:
                val = "1." + val + ".128"
        else:
            val = f"{rng.random() * 1e-4:.9f}"
        lines[key] = val
    return lines


def _roundtrip(text, d):
    a = os.path.join(d, "a.meta")
    b = os.path.join(d, "b.meta")
    with open(a, "w") as f:
        f.write(text)
    m1 = spikeglx.read_meta_data(a)
    spikeglx.write_meta_data(m1, b)
    m2 = spikeglx.read_meta_data(b)
    keys_ok = list(m1.keys()) == list(m2.keys())
    diffs = [k for k in m1 if k in m2 and not (m1[k] == m2[k] and type(m1[k]) is type(m2[k]))]
    return keys_ok, diffs, m1, m2


@bounded(PROPERTY, "native_roundtrip_and_gains", bound="read->write->read over every shipped meta file + 300 (thorough 3000) grammar-generated files (strings, ints up to 1e17, floats with <=6 decimals and shortest-repr doubles (durations n / fs with up to 17 significant digits), "
         "integer lists with items up to 1e9, tilde keys, '=' in values, scalars < 1e-4, digit/dot/comma strings with >= 2 dots); 60 generated gain tables with channel subsets",
         clause="textual round trip; gains on channel subsets with non uniform tables")
def b_native(B):
    rng = np.random.default_rng(B.seed)
    # text values made only of digits, commas and dots that are neither a number nor a list of numbers (a note, a separator, a trailing comma): they are strings of the
    # grammar like any other - the file opens and the value survives the round trip as text
    dd = tempfile.mkdtemp(prefix="c09_")
    try:
        for txt in (",", "1,,2", "1,2,", ".", ",5", "..", "1.2.3", "192.168.0.1"):
            try:
                keys_ok, diffs, m1, m2 = _roundtrip(f"typeThis=imec\nnSavedChans=385\nuserNotes={txt}\nimSampRate=30000\n", dd)
                okt = keys_ok and not diffs and m1.get("userNotes") == txt and m1.get("nSavedChans") == 385.0
                dett = {"value": txt, "parsed_as": repr(m1.get("userNotes"))[:40], "differing_after_round_trip": diffs[:3]}
            except Exception as e:
                okt, dett = False, {"value": txt, "parser_raised": repr(e)[:100]}
            B.case(("text_of_digits_commas_dots", txt), okt, detail=dett, inputs={"kind": "digit_comma_dot_text", "value": txt})
    finally:
        shutil.rmtree(dd, ignore_errors=True)
    okg, detg = native_gains_of_a_channel_subset(np.random.default_rng(4))
    B.case("gains_of_a_saved_channel_subset_not_starting_at_0", okg, detail=detg, inputs={"kind": "nonprefix_subset_gains"})
    d = tempfile.mkdtemp(prefix="c09_")
    try:
        for root, _, files in os.walk(FIX):
            for f in sorted(files):
                if f.endswith(".meta"):
                    text = open(os.path.join(root, f)).read()
                    keys_ok, diffs, m1, m2 = _roundtrip(text, d)
                    B.case(("shipped", f), keys_ok and not diffs, detail=f"keys_ok={keys_ok} differing={diffs[:5]}")
        for t in range(300 if B.tier == "quick" else 3000):
            lines = _gen_meta(rng)
            text = "".join(f"{k}={v}\n" for k, v in lines.items())
            keys_ok, diffs, m1, m2 = _roundtrip(text, d)
            # the first parse against an independent reading of the same lines: key = text before the FIRST '=', integers by value, 'a=b=7' kept verbatim;
            # and the same file without its final newline (SpikeGLX writes some that way) parses to the same dictionary
            ind = []
            exp = {}
            for k, v in lines.items():
                exp[k.lstrip("~")] = v           # '~key' and 'key' are the same entry: the later line wins, the position is the first one's
            exp_keys = list(exp)
            if list(m1.keys())[:len(exp_keys)] != exp_keys:          # (the parser appends a few derived entries after the file's own)
                ind.append(("keys", [a_ for a_, b_ in zip(list(m1.keys()) + ["-"] * len(exp_keys), exp_keys) if a_ != b_][:3], [b_ for a_, b_ in zip(list(m1.keys()) + ["-"] * len(exp_keys), exp_keys) if a_ != b_][:3]))
            for k, v in exp.items():
                got = m1.get(k)
                if v.isdigit() and got != float(int(v)):
                    ind.append((k, v, got))
                if v.startswith("a=b=") and got != v:
                    ind.append((k, v, got))
            with open(os.path.join(d, "nonl.meta"), "w") as f_:
                f_.write(text[:-1])
            try:
                m3 = spikeglx.read_meta_data(os.path.join(d, "nonl.meta"))
                if list(m3.keys()) != list(m1.keys()) or any(not (m3[k] == m1[k]) for k in m1):
                    ind.append(("without the final newline", [k for k in m1 if k not in m3 or not (m3[k] == m1[k])][:3]))
            except Exception as e:
                ind.append(("without the final newline: raised", repr(e)[:80]))
            B.case(("generated_independent_reading", t), not ind, detail=ind[:3], inputs={"kind": "generated_independent", "text": text[:300]})
            small = [k for k in diffs if isinstance(m1[k], float) and 0 < abs(m1[k]) < 1e-4]
            other = [k for k in diffs if k not in small]
            if small:
                B.case(("generated_small", t), False, detail=f"scalar < 1e-4 does not round-trip: {[(k, m1[k], m2[k]) for k in small[:2]]}", inputs={"kind": "small_scalar"})
            B.case(("generated", t), keys_ok and not other, detail=f"keys_ok={keys_ok} differing={[(k, m1[k], m2[k]) for k in other[:3]]}", inputs={"kind": "generated", "text": text[:400]})
    finally:
        shutil.rmtree(d, ignore_errors=True)
    bad = native_s2v_cases(rng, 60 if B.tier == "quick" else 600)
    B.case("gain_tables", not bad, detail=bad[:5])


# ----------------------------------------------------------------------------- contracts of dependencies this property rests on (re-checked here)
from pyvc.api import depends  # noqa: E402
depends(PROPERTY, "C11", ["open_int16", "open_cbin"])      # "sample count ... agrees with an independent reading": the count a reader exposes is the file's complete frames, the metadata fields (duration, announced size) never override the file
