"""C17 - sliding windows cover, overlap, partition and splice exactly.

Functions under contract (ibldsp/utils.py): WindowGenerator.__init__, .firstlast, .firstlast_valid,
.firstlast_splicing, .slice, .slice_array, .tscale.
"""
import z3

import ibldsp.utils as U
from pyvc.api import harness, bounded, property_meta, run_function
from pyvc.core import SV, term, fresh_name, wrap
from pyvc import interp as I, arrays as A
from pyvc.interp import SObj, LoopSpec, SIter, GenState

PROPERTY = "C17"
WG = U.WindowGenerator
FIRSTLAST = WG.firstlast.fget

property_meta(
    PROPERTY, level="proof",
    trusted_base=["A-PY", "A-NP-INDEX", "A-REAL (float division/ceil in __init__ and tscale read as real arithmetic; sound for |ns|,|nswin| < 2^52)",
                  "A-SCIPY hann(2m+3)[1:m+1] complement identity (the code asserts it itself)"],
    explanation="Hoare-style verification of the real AST of WindowGenerator: loop invariant with ghost yield sequence for firstlast, "
                "generator contract used modularly by firstlast_valid / firstlast_splicing / slice / slice_array / tscale, "
                "relational two-iteration obligation for the splicing amplitudes.")


# ----------------------------------------------------------------------------- contract of firstlast
def pre(ns, nswin, overlap):
    return [ns >= 1, nswin >= 1, overlap >= 0, overlap < nswin]


def firstlast_post(ns, nswin, overlap, Yf, Yl, k):
    """generator contract: Y[j] = (first, last) of window j, k = number of windows"""
    j = z3.Int("j!post")
    stride = nswin - overlap
    return [
        ("count_ge1", k >= 1),
        ("first0", Yf(0) == 0),
        ("stride", z3.ForAll([j], z3.Implies(z3.And(j >= 1, j < k), Yf(j) == Yf(j - 1) + stride))),
        ("closed_form", z3.ForAll([j], z3.Implies(z3.And(j >= 0, j < k), Yf(j) == j * stride))),
        ("last_clip", z3.ForAll([j], z3.Implies(z3.And(j >= 0, j < k), Yl(j) == z3.If(Yf(j) + nswin <= ns, Yf(j) + nswin, ns)))),
        ("nonfinal_short_of_end", z3.ForAll([j], z3.Implies(z3.And(j >= 0, j < k - 1), Yl(j) < ns))),
        ("in_range", z3.ForAll([j], z3.Implies(z3.And(j >= 0, j < k), z3.And(Yf(j) >= 0, Yf(j) < Yl(j), Yl(j) <= ns)))),
        ("final_reaches_end", Yl(k - 1) == ns),
    ]


def _firstlast_inv(V, with_iw):
    """speaks about the abstraction (the windows yielded so far, the window counter); the running start index is mentioned only when the
    code keeps one in a local called `first` (a rewrite that derives it otherwise is still covered by the facts about Y and iw)"""
    S = V.self
    Yf, Yl, k = V.Y[0], V.Y[1], V.k
    stride = S.nswin - S.overlap
    j = z3.Int("j!inv")
    out = [k >= 0,
           z3.Implies(k > 0, z3.And(Yl(k - 1) < S.ns, Yf(0) == 0)),
           z3.ForAll([j], z3.Implies(z3.And(j >= 0, j < k),
                                     z3.And(Yl(j) == Yf(j) + S.nswin, Yl(j) < S.ns, Yf(j) == j * stride,
                                            z3.Implies(j > 0, Yf(j) == Yf(j - 1) + stride))))]
    if with_iw:
        out.append(S.iw == k)
    if V.has("first"):
        out += [V.first >= 0, V.first == k * stride, z3.Implies(k > 0, V.first == Yf(k - 1) + stride)]
    return out


def firstlast_inv(V):
    return _firstlast_inv(V, True)


def _firstlast_variant(V):
    return V.self.ns - (V.first if V.has("first") else V.k * (V.self.nswin - V.self.overlap))


LOOPS = {("WindowGenerator.firstlast", 0): LoopSpec(invariant=firstlast_inv, decreases=_firstlast_variant)}
# another iteration over the same object may run between two yields (tscale() inside a `for first, last in wg.firstlast` loop,
# zip(wg.firstlast, wg.firstlast_valid), two iterators advanced alternately): the window counter is then not ours
LOOPS_INTERLEAVED = {("WindowGenerator.firstlast", 0): LoopSpec(invariant=lambda V: _firstlast_inv(V, False), decreases=_firstlast_variant)}


def sym_wg(it, with_nwin=False):
    ns, nswin, overlap = z3.Ints("ns nswin overlap")
    for c in pre(ns, nswin, overlap):
        it.ctx.assume(c)
    # the object as the class itself sets it up (every attribute __init__ defines exists, whatever a later version adds), then the three
    # parameters as plain symbols again (int(ns) of an integer is ns)
    obj = SObj(WG)
    try:
        run_function(it, WG.__init__, [obj, SV(ns), SV(nswin), SV(overlap)])
    except I.Unsupported:
        obj = SObj(WG)
    obj.attrs.update(dict(ns=SV(ns), nswin=SV(nswin), overlap=SV(overlap), iw=None))
    if with_nwin:
        obj.attrs["nwin"] = SV(z3.Int("nwin"))
    return obj, ns, nswin, overlap


def firstlast_summary(it, args, kwargs):
    """what callers of `self.firstlast` may assume (the contract proved by harness `firstlast`)"""
    obj = args[0]
    ns, nswin, overlap = term(obj.ns), term(obj.nswin), term(obj.overlap)
    from pyvc.core import fresh_name
    Yf = z3.Function(fresh_name("Yf"), z3.IntSort(), z3.IntSort())
    Yl = z3.Function(fresh_name("Yl"), z3.IntSort(), z3.IntSort())
    k = z3.Int(fresh_name("K"))
    for c, (cid, f) in zip(pre(ns, nswin, overlap), [("ns", 0), ("nswin", 0), ("ov0", 0), ("ov1", 0)]):
        it.ctx.oblige(f"firstlast.pre.{cid}", c, "pre")
    posts = firstlast_post(ns, nswin, overlap, Yf, Yl, k)
    for cid, f in posts:
        it.ctx.assume(f)
    obj.attrs["iw"] = 0

    def on_iter(j):
        obj.attrs["iw"] = SV(j)          # proved: self.iw == j at the j-th yield (invariant `S.iw == k`)
        # ground instances of the contract at this window (keeps slice bounds like first:last free of clamping cases)
        for cid, f in posts:
            if z3.is_quantifier(f) and f.num_vars() == 1 and cid in ("in_range", "last_clip", "closed_form"):
                it.ctx.instantiate(f, j)
    sit = SIter(k, lambda j: (SV(Yf(j)), SV(Yl(j))), on_iter)
    sit.Y = (Yf, Yl)
    it.last_firstlast = sit
    return sit


# ----------------------------------------------------------------------------- harness: __init__ + firstlast
def replay_windows(vals, oid):
    ns, nswin, overlap = int(vals["ns"]), int(vals["nswin"]), int(vals["overlap"])
    wg = WG(ns, nswin, overlap)
    fl = list(wg.firstlast)
    out = {"inputs": [ns, nswin, overlap], "nwin": wg.nwin, "windows": len(fl), "first_windows": fl[:4]}
    stride = nswin - overlap
    bad = []
    if wg.nwin != len(fl):
        bad.append("nwin != number of windows produced")
    if fl[0][0] != 0 or fl[-1][1] != ns:
        bad.append("does not start at 0 / end at ns")
    for a, b in zip(fl, fl[1:]):
        if b[0] > a[1]:
            bad.append("gap")
        if a[1] - b[0] != overlap:
            bad.append("overlap != requested")
    out["failed"] = bool(bad)
    out["detail"] = bad
    return out


@harness(PROPERTY, "firstlast", functions=["ibldsp.utils:WindowGenerator.__init__", "ibldsp.utils:WindowGenerator.firstlast"],
         replay=replay_windows, clause="windows cover without gaps, overlap exactly, count announced == count produced")
def h_firstlast(H):
    S = H.session(loops=LOOPS)

    def body(it):
        ns, nswin, overlap = z3.Ints("ns nswin overlap")
        H.input(ns=ns, nswin=nswin, overlap=overlap)
        for c in pre(ns, nswin, overlap):
            it.ctx.assume(c)
        obj = SObj(WG)
        run_function(it, WG.__init__, [obj, SV(ns), SV(nswin), SV(overlap)])
        gen = GenState("Y")
        gen.ensure([SV(ns), SV(ns)])
        run_function(it, FIRSTLAST, [obj], gen=gen)
        Yf, Yl, k = gen[0], gen[1], gen.k
        for cid, f in firstlast_post(ns, nswin, overlap, Yf, Yl, k):
            it.ctx.oblige(f"post.{cid}", f)
        j = z3.Int("jj")
        it.ctx.oblige("lemma.cover", z3.ForAll([j], z3.Implies(z3.And(j >= 0, j < k - 1), Yf(j + 1) <= Yl(j))), "lemma")
        it.ctx.oblige("lemma.overlap", z3.ForAll([j], z3.Implies(z3.And(j >= 0, j < k - 1), Yl(j) - Yf(j + 1) == overlap)), "lemma")
        it.ctx.oblige("lemma.starts_at_0_ends_at_ns", z3.And(Yf(0) == 0, Yl(k - 1) == ns), "lemma")
        it.ctx.oblige("iw.final", term(obj.iw) == k - 1)
        it.ctx.oblige("init.nwin_eq_count", term(obj.nwin) == k, "post", "announced window count equals the number of windows produced")
    H.cover("pre", pre(*z3.Ints("ns nswin overlap")))
    S.explore(body)


def replay_interleaved(vals, oid):
    """two iterations alive on the same WindowGenerator: the windows of each must still be the windows of (ns, nswin, overlap)"""
    bad = []
    cases = [(int(vals.get("ns", 0) or 0), int(vals.get("nswin", 0) or 0), int(vals.get("overlap", 0) or 0))] if vals else []
    cases = [c for c in cases if 1 <= c[1] and 0 <= c[2] < c[1] and 1 <= c[0] <= 10 ** 6 and c[0] / max(1, c[1] - c[2]) < 5000]
    for ns, nswin, overlap in cases + [(500, 100, 10), (137, 32, 6), (400, 64, 0), (1000, 250, 125), (64, 64, 3), (65, 64, 63)]:
        want = list(WG(ns, nswin, overlap).firstlast)
        wg = WG(ns, nswin, overlap)
        # (a) tscale() evaluated inside the loop
        got, n = [], 0
        for fl in wg.firstlast:
            got.append(fl)
            wg.tscale(1.0)
            n += 1
            if n > len(want) + 5:
                break
        if got != want:
            bad.append({"inputs": [ns, nswin, overlap], "scenario": "tscale() inside the loop over firstlast", "got": got[:5], "want": want[:5]})
        # (b) two iterators advanced alternately
        wg = WG(ns, nswin, overlap)
        a, b = iter(wg.firstlast), iter(wg.firstlast)
        ga, gb = [], []
        for _ in range(len(want) + 5):
            for g_, it_ in ((ga, a), (gb, b)):
                try:
                    g_.append(next(it_))
                except StopIteration:
                    pass
        if ga != want or gb != want:
            bad.append({"inputs": [ns, nswin, overlap], "scenario": "two firstlast iterators advanced alternately", "got": ga[:5], "want": want[:5]})
    return {"failed": bool(bad), "examples": bad[:3]}


@harness(PROPERTY, "firstlast_interleaved", functions=["ibldsp.utils:WindowGenerator.firstlast"], replay=replay_interleaved,
         clause="the windows depend on (ns, nswin, overlap) only: another iteration over the same object between two yields does not disturb them")
def h_interleaved(H):
    def havoc_counter(interp, gen, vals, env):
        obj = env.lookup("self")
        obj.attrs["iw"] = SV(z3.Int(fresh_name("iw_set_by_another_iteration")))
    S = H.session(loops=LOOPS_INTERLEAVED, gen_hooks={"WindowGenerator.firstlast": havoc_counter})

    def body(it):
        ns, nswin, overlap = z3.Ints("ns nswin overlap")
        H.input(ns=ns, nswin=nswin, overlap=overlap)
        for c in pre(ns, nswin, overlap):
            it.ctx.assume(c)
        obj = SObj(WG, ns=SV(ns), nswin=SV(nswin), overlap=SV(overlap), iw=None)
        gen = GenState("Y")
        gen.ensure([SV(ns), SV(ns)])
        run_function(it, FIRSTLAST, [obj], gen=gen)
        Yf, Yl, k = gen[0], gen[1], gen.k
        for cid, f in firstlast_post(ns, nswin, overlap, Yf, Yl, k):
            it.ctx.oblige(f"interleaved.post.{cid}", f)
    S.explore(body)


# ----------------------------------------------------------------------------- firstlast_valid
def valid_spec(ns, overlap, Yf, Yl, K, j):
    fv = z3.If(Yf(j) == 0, z3.IntVal(0), Yf(j) + overlap / 2)
    lv = z3.If(Yl(j) == ns, Yl(j), Yl(j) - overlap / 2)
    return fv, lv


@harness(PROPERTY, "firstlast_valid", functions=["ibldsp.utils:WindowGenerator.firstlast_valid"],
         clause="'valid' sub-windows contain every sample exactly once")
def h_valid(H):
    caught = {}

    def hook(it, gen, vals, env):
        sit = it.last_firstlast
        Yf, Yl = sit.Y
        j = gen.k
        it.ctx.oblige("yield.first", term(vals[0]) == Yf(j))
        it.ctx.oblige("yield.last", term(vals[1]) == Yl(j))
        fv, lv = valid_spec(caught["ns"], caught["overlap"], Yf, Yl, sit.length, j)
        it.ctx.oblige("yield.first_valid", term(vals[2]) == fv)
        it.ctx.oblige("yield.last_valid", term(vals[3]) == lv)

    S = H.session(loops={("WindowGenerator.firstlast_valid", 0): LoopSpec(invariant=lambda V: [V.k == V.j])},
                  contracts={FIRSTLAST: firstlast_summary}, gen_hooks={"WindowGenerator.firstlast_valid": hook})

    def body(it):
        obj, ns, nswin, overlap = sym_wg(it)
        caught.update(ns=ns, overlap=overlap)
        it.ctx.assume(overlap % 2 == 0)
        gen = GenState("Z")
        run_function(it, WG.firstlast_valid.fget, [obj], gen=gen)
        it.ctx.oblige("count", gen.k == it.last_firstlast.length, "post", "one valid range per window")
    S.explore(body)
    # lemma over the two contracts: the valid ranges partition [0, ns)
    ns, nswin, overlap, K, j = z3.Ints("ns nswin overlap K j")
    Yf = z3.Function("Yf", z3.IntSort(), z3.IntSort())
    Yl = z3.Function("Yl", z3.IntSort(), z3.IntSort())
    hyp = pre(ns, nswin, overlap) + [overlap % 2 == 0] + [f for _, f in firstlast_post(ns, nswin, overlap, Yf, Yl, K)]
    fv = lambda jj: valid_spec(ns, overlap, Yf, Yl, K, jj)[0]   # noqa
    lv = lambda jj: valid_spec(ns, overlap, Yf, Yl, K, jj)[1]   # noqa
    H.lemma("partition.starts_at_0", hyp, fv(0) == 0)
    H.lemma("partition.ends_at_ns", hyp, lv(K - 1) == ns)
    H.lemma("partition.contiguous", hyp + [j >= 0, j < K - 1], lv(j) == fv(j + 1), "no gap and no duplicate between consecutive valid ranges")
    H.lemma("partition.non_empty", hyp + [j >= 0, j < K], fv(j) < lv(j))
    H.lemma("partition.inside_window", hyp + [j >= 0, j < K], z3.And(Yf(j) <= fv(j), lv(j) <= Yl(j)))
    H.cover("valid.pre", hyp + [K >= 3])


# ----------------------------------------------------------------------------- slice / slice_array / tscale
@harness(PROPERTY, "slice_tscale", functions=["ibldsp.utils:WindowGenerator.slice", "ibldsp.utils:WindowGenerator.slice_array", "ibldsp.utils:WindowGenerator.tscale"],
         clause="slices are the windows; time scale gives each window's centre")
def h_slice(H):
    def hook_slice(it, gen, vals, env):
        Yf, Yl = it.last_firstlast.Y
        sl = vals[0]
        ok = isinstance(sl, slice) and sl.step is None
        it.ctx.oblige("slice.eq", z3.And(z3.BoolVal(ok), term(sl.start) == Yf(gen.k), term(sl.stop) == Yl(gen.k)))

    def hook_arr(it, gen, vals, env):
        Yf, Yl = it.last_firstlast.Y
        out = vals[0]
        sig = env.lookup("sig")
        j = gen.k
        i, c = z3.Ints("i c")
        it.ctx.oblige("slice_array.shape", z3.And(A.T(out.shape[1]) == Yl(j) - Yf(j), A.T(out.shape[0]) == A.T(sig.shape[0])))
        it.ctx.oblige("slice_array.eq", A.forall([c, i], lambda: z3.Implies(z3.And(c >= 0, c < A.T(sig.shape[0]), i >= 0, i < Yl(j) - Yf(j)),
                                                                           out.read((c, i)) == sig.read((c, Yf(j) + i)))))

    loops = {("WindowGenerator.slice", 0): LoopSpec(invariant=lambda V: [V.k == V.j]),
             ("WindowGenerator.slice_array", 0): LoopSpec(invariant=lambda V: [V.k == V.j])}
    S = H.session(loops=loops, contracts={FIRSTLAST: firstlast_summary},
                  gen_hooks={"WindowGenerator.slice": hook_slice, "WindowGenerator.slice_array": hook_arr})

    def body_slice(it):
        obj, ns, nswin, overlap = sym_wg(it)
        gen = GenState("Z")
        run_function(it, WG.slice.fget, [obj], gen=gen)
        it.ctx.oblige("slice.count", gen.k == it.last_firstlast.length)
    S.explore(body_slice)

    def body_arr(it):
        obj, ns, nswin, overlap = sym_wg(it)
        nc = z3.Int("nc")
        it.ctx.assume(nc >= 1)
        sig = A.fresh_array("sig", "float32", (nc, ns))
        gen = GenState("Z")
        run_function(it, WG.slice_array, [obj, sig], gen=gen)
        it.ctx.oblige("slice_array.count", gen.k == it.last_firstlast.length)
    S.explore(body_arr)

    def body_tscale(it):
        obj, ns, nswin, overlap = sym_wg(it)
        fs = z3.Real("fs")
        it.ctx.assume(fs > 0)
        r = run_function(it, WG.tscale, [obj, SV(fs)])
        sit = it.last_firstlast
        Yf, Yl = sit.Y
        j = z3.Int("j")
        it.ctx.oblige("tscale.len", A.T(r.shape[0]) == sit.length)
        it.ctx.oblige("tscale.centre", A.forall([j], lambda: z3.Implies(z3.And(j >= 0, j < sit.length),
                                                                      r.read((j,)) == (z3.ToReal(Yf(j)) + z3.ToReal(Yl(j)) - 1) / (2 * fs))))
    S.explore(body_tscale)

    # the time scale asked for again on the same object (another rate, or the same): a function of (ns, nswin, overlap, fs) only, and a result
    # handed out earlier is not changed by a later call
    S3 = H.session("tscale.again", contracts={FIRSTLAST: firstlast_summary})

    def body_again(it):
        ns, nswin, overlap = z3.Ints("ns nswin overlap")
        for c_ in pre(ns, nswin, overlap):
            it.ctx.assume(c_)
        obj = SObj(WG)
        run_function(it, WG.__init__, [obj, SV(ns), SV(nswin), SV(overlap)])        # every attribute the class itself sets up
        fs1, fs2 = z3.Reals("fs1 fs2")
        it.ctx.assume(z3.And(fs1 > 0, fs2 > 0))
        r1 = run_function(it, WG.tscale, [obj, SV(fs1)])
        first = r1.snapshot()
        n1 = A.T(r1.shape[0])
        r2 = run_function(it, WG.tscale, [obj, SV(fs2)])
        sit = it.last_firstlast
        Yf, Yl = sit.Y
        j = z3.Int("j")
        it.ctx.oblige("tscale.again.centre", z3.And(A.T(r2.shape[0]) == sit.length, A.forall([j], lambda: z3.Implies(z3.And(j >= 0, j < sit.length),
                      r2.read((j,)) == (z3.ToReal(Yf(j)) + z3.ToReal(Yl(j)) - 1) / (2 * fs2)))), "post", "the second call gives each window's centre at ITS sampling rate")
        it.ctx.oblige("tscale.again.first_result_kept", z3.And(z3.BoolVal(not A.shares_memory(r1, r2)), A.forall([j], lambda: z3.Implies(z3.And(j >= 0, j < n1), r1.read((j,)) == first((j,))))), "post",
                      "the time scale returned by the first call is not modified by the second", assume=False)
    S3.explore(body_again)


# ----------------------------------------------------------------------------- firstlast_splicing
def replay_splicing(vals, oid):
    import numpy as np
    ns, nswin, overlap = int(vals["ns"]), int(vals["nswin"]), int(vals["overlap"])
    out = {"inputs": [ns, nswin, overlap]}
    try:
        tot = np.zeros(ns)
        for first, last, amp in WG(ns, nswin, overlap).firstlast_splicing:
            tot[first:last] += amp
        out["min_sum"], out["max_sum"] = float(tot.min()), float(tot.max())
        out["failed"] = bool(overlap * 2 <= nswin and not np.allclose(tot, 1))
    except Exception as e:
        out["raised"] = repr(e)
        out["failed"] = True
    return out


def _splice_parts():
    fn = WG.firstlast_splicing.fget
    node, filename = I.SOURCES.funcdef(fn)
    import ast
    loop = [n for n in node.body if isinstance(n, ast.For)]
    assert len(loop) == 1, "firstlast_splicing: expected exactly one top-level for loop"
    loop = loop[0]
    before = node.body[:node.body.index(loop)]
    after = node.body[node.body.index(loop) + 1:]
    assert not after, "firstlast_splicing: statements after the loop are not covered by the contract"
    return fn, node, filename, before, loop


@harness(PROPERTY, "splicing", functions=["ibldsp.utils:WindowGenerator.firstlast_splicing"], replay=replay_splicing,
         clause="for overlaps up to half a window the splicing amplitudes sum to one at every sample")
def h_splicing(H):
    # (1) structure: one yield per window, (first, last, amp) with len(amp) == last-first, no exception
    def hook(it, gen, vals, env):
        Yf, Yl = it.last_firstlast.Y
        j = gen.k
        it.ctx.oblige("yield.first", term(vals[0]) == Yf(j))
        it.ctx.oblige("yield.last", term(vals[1]) == Yl(j))
        it.ctx.oblige("yield.amp_len", z3.And(z3.BoolVal(vals[2].ndim == 1), A.T(vals[2].shape[0]) == Yl(j) - Yf(j)))

    S = H.session("splicing.structure", loops={("WindowGenerator.firstlast_splicing", 0): LoopSpec(invariant=lambda V: [V.k == V.j])},
                  contracts={FIRSTLAST: firstlast_summary}, gen_hooks={"WindowGenerator.firstlast_splicing": hook})

    def body(it):
        obj, ns, nswin, overlap = sym_wg(it)
        H.input(ns=ns, nswin=nswin, overlap=overlap)
        gen = GenState("Z")
        run_function(it, WG.firstlast_splicing.fget, [obj], gen=gen)
        it.ctx.oblige("count", gen.k == it.last_firstlast.length)
    S.explore(body)

    # (2) relational obligation over two consecutive iterations of the real loop body
    fn, node, filename, before, loop = _splice_parts()
    caught = []

    def hook2(it, gen, vals, env):
        caught.append(vals)
    S2 = H.session("splicing.pair", contracts={FIRSTLAST: firstlast_summary}, gen_hooks={"WindowGenerator.firstlast_splicing": hook2})

    def body2(it):
        del caught[:]
        obj, ns, nswin, overlap = sym_wg(it)
        H.input(ns=ns, nswin=nswin, overlap=overlap)
        it.ctx.assume(2 * overlap <= nswin)
        env = I.Env(None, fn.__globals__, qualname="WindowGenerator.firstlast_splicing", filename=filename)
        env.funcnode = node
        env.vars["self"] = obj
        it.ctx.func = env.qualname
        gen = GenState("Z")
        it.gen_stack.append(gen)
        it.exec_block(before, env)
        sit = it.to_iterable(it.eval(loop.iter, env), env)
        Yf, Yl = sit.Y
        K = sit.length
        j = z3.Int("j")
        it.ctx.assume(z3.And(j >= 0, j < K))
        # window j
        sit.on_iter(j)
        it.assign(loop.target, sit.item(j), env)
        it.exec_block(loop.body, env)
        a0 = caught[-1][2]
        i = z3.Int("i")
        L0 = Yl(j) - Yf(j)
        single = z3.And(i >= 0, i < L0, z3.Or(j == 0, i >= overlap), z3.Or(j == K - 1, i < L0 - overlap))
        it.ctx.oblige("single_cover_is_one", A.forall([i], lambda: z3.Implies(single, a0.read((i,)) == 1)), "post",
                      "samples covered by one window only have amplitude 1")
        if it.ctx.branch(j + 1 < K):
            sit.on_iter(j + 1)
            it.assign(loop.target, sit.item(j + 1), env)
            it.exec_block(loop.body, env)
            a1 = caught[-1][2]
            it.ctx.oblige("pair_sums_to_one", A.forall([i], lambda: z3.Implies(z3.And(i >= 0, i < overlap),
                                                                               a0.read((L0 - overlap + i,)) + a1.read((i,)) == 1)), "post",
                          "in the overlap of windows j and j+1 the two amplitudes sum to one")
        it.gen_stack.pop()
    S2.explore(body2)


# ----------------------------------------------------------------------------- bounded stand-in (differential: engine vs CPython, and property box)
@bounded(PROPERTY, "native_box", bound="all (ns, nswin, overlap) with ns<=60, nswin<=16 (thorough: ns<=400, nswin<=64) + 200 random large triples",
         clause="all clauses, executed natively on the real class")
def b_box(B):
    import numpy as np
    nmax, wmax = (60, 16) if B.tier == "quick" else (400, 64)
    triples = [(ns, w, o) for ns in range(1, nmax + 1) for w in range(1, wmax + 1) for o in range(0, w)]
    if B.tier == "thorough":
        triples = triples[::7]
    for _ in range(200):
        w = B.rng.randint(2, 70000)
        triples.append((B.rng.randint(1, 3000000), w, B.rng.randint(0, w - 1)))
    for ns, w, o in triples:
        try:
            wg = WG(ns, w, o)
            fl = list(wg.firstlast)
            ok = wg.nwin == len(fl) and fl[0][0] == 0 and fl[-1][1] == ns
            ok = ok and all(b[0] <= a[1] and a[1] - b[0] == o for a, b in zip(fl, fl[1:]))
            if o % 2 == 0:
                v = list(wg.firstlast_valid)
                ok = ok and v[0][2] == 0 and v[-1][3] == ns and all(a[3] == b[2] for a, b in zip(v, v[1:])) and all(a[2] < a[3] for a in v)
            detail = None
            if 2 * o <= w and ns <= 3000:
                tot = np.zeros(ns)
                for first, last, amp in wg.firstlast_splicing:
                    tot[first:last] += amp
                ok = ok and bool(np.allclose(tot, 1))
            if ns <= 3000:
                ts = wg.tscale(30000.0)
                ok = ok and len(ts) == len(fl) and bool(np.allclose(ts, [(a + b - 1) / 2 / 30000.0 for a, b in fl]))
        except Exception as e:
            ok, detail = False, repr(e)
        B.case((ns, w, o), ok, detail=None if ok else f"native contract failed for (ns, nswin, overlap)=({ns},{w},{o})", inputs={"ns": ns, "nswin": w, "overlap": o})
    # the same triples held in other number types (whole-number floats such as fs * 0.1, narrow NumPy integers): the same windows as with python ints
    import itertools
    for ns, w, o in ((400, 64, 16), (30000, 8192, 128), (1000, 100, 0), (250, 100, 20), (50, 100, 10), (100, 100, 99)):
        ref = list(WG(ns, w, o).firstlast)
        for name, conv in (("float", float), ("int16", np.int16), ("uint16", np.uint16), ("int32", np.int32), ("uint8 window", None)):
            try:
                if conv is None:
                    if w > 255 or o > 255:
                        continue
                    args = (np.uint16(ns), np.uint8(w), np.uint8(o))
                else:
                    args = (conv(ns), conv(w), conv(o))
                wg = WG(*args)
                fl = list(itertools.islice(wg.firstlast, len(ref) + 3))          # (bounded: arithmetic that wraps would never reach the end)
                ok = [(int(a), int(b)) for a, b in fl] == ref and wg.nwin == len(ref)
                sl = list(itertools.islice(wg.slice, len(ref) + 3))
                ok = ok and [len(np.ones(ns)[s_]) for s_ in sl] == [b - a for a, b in ref]
                detail = None if ok else {"windows": [(float(a), float(b)) for a, b in fl[:4]], "expected": ref[:4], "nwin": int(wg.nwin)}
            except Exception as e:
                ok, detail = False, repr(e)[:160]
            B.case(("number types", name, ns, w, o), ok, detail=detail, inputs={"ns": ns, "nswin": w, "overlap": o, "held_as": name})
