"""C18 - spectral helpers equal their textbook definitions for every length.

Functions under contract (ibldsp/fourier.py, ibldsp/utils.py): convolve (padding / inverse-transform length / crop), ns_optim_fft, freduce, fexpand, fscale,
_freq_vector, _freq_filter (filter vector algebra and broadcasting), fcn_cosine / _fcn_extrap.  The transforms themselves are opaque (A-FFT); numeric
equality with direct convolution / the FFT is a bounded stand-in on the impulse basis.
"""
import itertools

import numpy as np
import scipy.signal
import z3

import ibldsp.fourier as F
import ibldsp.utils as U
from pyvc.api import harness, bounded, property_meta, run_function
from pyvc.core import SV, term, fresh_name, Unsupported
from pyvc import arrays as A, models
from pyvc.arrays import SArr

PROPERTY = "C18"
property_meta(
    PROPERTY, level="other",
    trusted_base=["A-PY", "A-NP-INDEX", "A-REAL", "A-FFT: rfft of n samples has n//2+1 bins, irfft returns n samples when asked for n and 2(m-1) otherwise, fft/ifft keep the length; contents opaque; "
                  "conj is involutive", "A-NP-SPEC searchsorted (left)", "A-MATH: cos(0)=1, cos(pi)=-1, cos non increasing on [0,pi]"],
    explanation="convolve: the inverse transform is asked for exactly the padded length (so that it inverts the forward transform), 'full' has nsx+nsw-? samples as coded, 'same' is the centred crop of length nsx starting at (nsw-1)//2 for both parities; "
                "ns_optim_fft: exhaustive over the table intervals; freduce/fexpand mutual inverses on Hermitian spectra for every parity and axis; fscale = DFT bin frequencies; lp + hp == 1 and bp == hp*lp on the filter vectors; cosine taper monotone 0..1; "
                "filter broadcast along the axis. Numeric equality with direct convolution / FFT on the impulse basis: bounded stand-in.")


# ----------------------------------------------------------------------------- convolve
def replay_convolve(vals, oid):
    bad = native_convolve([(a, b) for a in (1, 2, 5, 20, 74) for b in (1, 2, 7, 25, 6)])
    return {"failed": bool(bad), "examples": bad[:4]}


@harness(PROPERTY, "convolve_shape", functions=["ibldsp.fourier:convolve"], replay=replay_convolve,
         clause="FFT convolution: zero-pad to the fast size, inverse transform of the padded length, crop ('same' = centred, every parity)")
def h_convolve(H):
    for mode, xdt in (("full", "float64"), ("same", "float64"), ("same", "int16"), ("full", "float32")):
        S = H.session(f"convolve.{mode}" + ("" if xdt == "float64" else "." + xdt))

        def body(it, mode=mode, xdt=xdt):
            nsx, nsw, rows = z3.Ints("nsx nsw rows")
            it.ctx.assume(z3.And(nsx >= 1, nsw >= 1, rows >= 1))
            H.input(nsx=nsx, nsw=nsw)
            x = A.fresh_array("x", xdt, (rows, nsx))
            w = A.fresh_array("w", "float64", (nsw,))
            nsopt = z3.Int("ns_optim")
            if xdt != "float64":
                mode_tag = mode
                mode = f"{mode}.{xdt}"

            def optim(it_, a, k):
                it_.ctx.oblige("ns_optim_fft.arg", term(a[0]) == nsx + nsw, "pre", "padded size is asked for nsx + nsw samples")
                it_.ctx.assume(nsopt >= nsx + nsw)          # contract of ns_optim_fft (harness ns_optim_fft)
                return SV(nsopt)
            it.session.contracts[F.ns_optim_fft] = optim
            out = run_function(it, F.convolve, [x, w], {"mode": mode.split(".")[0]})
            log = it.ctx.fft_log
            kinds = [e["kind"] for e in log]
            if kinds != ["rfft", "rfft", "irfft"]:
                raise Unsupported(f"cannot identify the two forward transforms and the inverse transform of convolve (found {kinds})")
            it.ctx.oblige(f"convolve.transforms.{mode}", z3.BoolVal(kinds == ["rfft", "rfft", "irfft"]), "post")
            if kinds == ["rfft", "rfft", "irfft"]:
                it.ctx.oblige(f"convolve.padded_inputs.{mode}", z3.And(A.T(log[0]["in_shape"][-1]) == nsopt, A.T(log[1]["in_shape"][-1]) == nsopt), "post", "both operands are zero padded to the fast size")
                it.ctx.oblige(f"convolve.inverse_length.{mode}", A.T(log[2]["out"].shape[-1]) == nsopt, "post",
                              "the inverse real transform returns exactly the padded length (otherwise it is not the inverse of the forward transform: odd fast sizes 3, 9, 27, ...)")
                i, t = z3.Ints("i t")
                for e, src, n0 in ((log[0], x, nsx),):
                    it.ctx.oblige(f"convolve.zero_padding.{mode}", A.forall([i, t], lambda: z3.Implies(z3.And(i >= 0, i < rows, t >= 0, t < nsopt), e["in"]((i, t)) == z3.If(t < n0, A.to_real(src.read((i, t))), z3.RealVal(0)))), "post", assume=False)
                it.ctx.oblige(f"convolve.kernel_padding.{mode}", z3.And(z3.BoolVal(len(log[1]["in_shape"]) == 1), A.forall([t], lambda: z3.Implies(z3.And(t >= 0, t < nsopt), A.to_real(log[1]["in"]((t,))) == z3.If(t < nsw, w.read((t,)), z3.RealVal(0))))), "post",
                              "the kernel enters the transform with its own values (whatever the signal's dtype), zero padded", assume=False)
            if mode.split(".")[0] != mode:
                return
            if mode == "full":
                it.ctx.oblige("convolve.full.length", z3.And(A.T(out.shape[0]) == rows, A.T(out.shape[-1]) == nsx + nsw), "post", "as coded: nsx + nsw samples (direct convolution has nsx+nsw-1; the extra one is the zero padding)")
            else:
                it.ctx.oblige("convolve.same.length", z3.And(A.T(out.shape[0]) == rows, A.T(out.shape[-1]) == nsx), "post", "'same' returns the length of the signal")
                full = log[2]["out"]
                it.ctx.oblige("convolve.same.centred", A.forall([z3.Int("i"), z3.Int("t")], lambda: z3.Implies(z3.And(z3.Int("i") >= 0, z3.Int("i") < rows, z3.Int("t") >= 0, z3.Int("t") < nsx),
                              out.read((z3.Int("i"), z3.Int("t"))) == full.read((z3.Int("i"), z3.Int("t") + (nsw - 1) / 2)))), "post", "'same' is full[(nsw-1)//2 : (nsw-1)//2 + nsx] for even and odd kernels", assume=False)
        S.explore(body)


def replay_optim(vals, oid):
    smooth = sorted({2 ** a * 3 ** b for a in range(0, 30) for b in range(0, 20)})
    bad = []
    for ns in list(range(1, 3001)) + [s_ + d_ for s_ in smooth if s_ < 14155776 for d_ in (0, 1)]:
        want = next(s_ for s_ in smooth if s_ >= ns)
        try:
            got = int(F.ns_optim_fft(ns))
        except Exception as e:
            got = repr(e)[:60]
        if got != want:
            bad.append({"ns": ns, "returned": got, "smallest 2^a 3^b not below it": want})
            if len(bad) >= 3:
                break
    return {"failed": bool(bad), "cases": bad}


def replay_fscale(vals, oid):
    bad = []
    for n in range(1, 65):
        for si in (0.5, 1 / 30000):
            want = np.where(np.arange(n) <= n // 2, np.arange(n), np.arange(n) - n) / n / si
            f2, f1 = F.fscale(n, si), F.fscale(n, si, one_sided=True)
            if f2.shape != (n,) or not np.allclose(f2, want, rtol=1e-12, atol=0) or f1.shape != (n // 2 + 1,) or not np.allclose(f1, want[:n // 2 + 1], rtol=1e-12, atol=0):
                bad.append({"ns": n, "si": si, "two_sided_length": int(f2.shape[0]), "one_sided_length": int(f1.shape[0])})
    return {"failed": bool(bad), "cases": bad[:3]}


@harness(PROPERTY, "ns_optim_fft", functions=["ibldsp.fourier:ns_optim_fft"], replay=replay_optim, clause="the fast-size helper returns the smallest 2^a 3^b not below its argument")
def h_optim(H):
    # the table has no free variable: it is folded natively; the function is decided on each interval (sz[k-1], sz[k]] by the searchsorted specification
    S = H.session("ns_optim")

    def body(it):
        import ast
        from pyvc import interp as I_
        ns = z3.Int("ns")
        H.input(ns=ns)
        # the table is whatever the function builds before its look-up (no free variable: built natively by the statements themselves)
        node, filename = I_.SOURCES.funcdef(F.ns_optim_fft)
        envt = I_.Env(None, F.ns_optim_fft.__globals__, qualname="ns_optim_fft", filename=filename)
        envt.vars["ns"] = 1
        it.exec_block([st for st in node.body if not isinstance(st, ast.Return)], envt)
        tabs = [v for v in envt.vars.values() if isinstance(v, np.ndarray) and v.ndim == 1 and v.dtype.kind in "iu" and v.size > 8]
        if len(tabs) != 1:
            raise Unsupported("cannot identify the table of fast sizes in ns_optim_fft()")
        sz = tabs[0]
        if not (np.all(np.diff(sz) > 0)):
            raise Unsupported("the table of fast sizes is not strictly increasing")
        # (E) exhaustive native facts about the concrete table: strictly increasing (checked above), made of numbers 2^a 3^b only, and complete:
        # every 2^a 3^b up to `limit` is an entry
        allsmooth = sorted({2 ** a * 3 ** b for a in range(0, 64) for b in range(0, 41) if 2 ** a * 3 ** b <= int(sz[-1])})
        entries = set(int(v) for v in sz.tolist())
        it.ctx.oblige("optim.table.entries_are_2a3b", z3.BoolVal(entries <= set(allsmooth)), "post", "every table entry is of the form 2^a 3^b (all entries enumerated)")
        missing = [v for v in allsmooth if v not in entries]
        limit = (missing[0] - 1) if missing else int(sz[-1])
        limit = max(v for v in entries if v <= limit)
        it.ctx.oblige("optim.table.complete_for_practical_sizes", z3.BoolVal(limit >= 10 ** 15), "post", f"every 2^a 3^b up to {limit} is in the table (enumerated)")
        # (P) the look-up, over an abstract strictly increasing table of that length (the proof uses nothing else about its values)
        n = int(np.searchsorted(sz, limit)) + 1               # entries up to and including `limit`
        T = A.fresh_array("fast_sizes", "int64", (len(sz),), ranged=False)
        k1, k2 = z3.Int(fresh_name("k")), z3.Int(fresh_name("k"))
        it.ctx.assume(z3.ForAll([k1, k2], z3.Implies(z3.And(k1 >= 0, k1 < k2, k2 < len(sz)), T.uf(k1) < T.uf(k2)), patterns=[z3.MultiPattern(T.uf(k1), T.uf(k2))]))
        lim_t = T.read((z3.IntVal(n - 1),))
        it.ctx.assume(z3.And(ns >= 1, ns <= lim_t))
        name = [k_ for k_, v in envt.vars.items() if v is sz][0]
        envt.vars[name] = T
        envt.vars["ns"] = SV(ns)
        try:
            it.exec_block([st for st in node.body if isinstance(st, ast.Return)], envt)
            raise Unsupported("ns_optim_fft() does not end with a return")
        except I_.ReturnEx as e:
            rt = term(e.v)
        it.ctx.oblige("optim.not_below", rt >= ns, "post")
        kk = z3.Int(fresh_name("k0"))
        it.ctx.assume(z3.And(kk >= 0, kk < len(sz)))
        it.ctx.oblige("optim.is_table_value", z3.Exists([k1], z3.And(k1 >= 0, k1 < len(sz), rt == T.read((k1,)))), "post", "the result is a table entry, hence of the form 2^a 3^b", assume=False)
        it.ctx.oblige("optim.smallest", z3.Implies(ns <= T.read((kk,)), rt <= T.read((kk,))), "post", "no table entry (arbitrary k0) lies in [ns, result): with completeness of the table, no smaller 2^a 3^b >= ns", assume=False)
        H.limit = limit
    S.explore(body)


# ----------------------------------------------------------------------------- freduce / fexpand / fscale
@harness(PROPERTY, "freduce_fexpand", functions=["ibldsp.fourier:freduce", "ibldsp.fourier:fexpand"], clause="half-spectrum reduction and expansion are mutual inverses on spectra of real signals, every parity and axis")
def h_reduce(H):
    for axis in (None, 0, -1):
        S = H.session(f"reduce.axis{axis}")

        def body(it, axis=axis):
            ns, other = z3.Ints("ns other")
            it.ctx.assume(z3.And(ns >= 1, other >= 1))
            shape = (other, ns) if axis in (None, -1) else (ns, other)
            X = models._fresh_complex("X", np.dtype("complex128"), shape)
            CS = A.sort_of(np.dtype("complex128"))
            cj = z3.Function("c_conj!uf", CS, CS)
            a, b = z3.Ints("a b")
            # Hermitian symmetry of the spectrum of a real signal: X[n-k] = conj(X[k])
            herm = z3.ForAll([a, b], z3.Implies(z3.And(a >= 0, a < other, b >= 1, b < ns), (X.uf(a, ns - b) if axis in (None, -1) else X.uf(ns - b, a)) == cj(X.uf(a, b) if axis in (None, -1) else X.uf(b, a))))
            it.ctx.assume(herm)
            red = run_function(it, F.freduce, [X], {"axis": axis})
            tag = f"axis{axis}"
            m = ns / 2 + 1
            it.ctx.oblige(f"freduce.length.{tag}", A.T(red.shape[-1 if axis in (None, -1) else 0]) == m, "post", "positive frequencies only: ns//2 + 1 bins")
            back = run_function(it, F.fexpand, [red], {"ns": SV(ns), "axis": axis})
            it.ctx.oblige(f"fexpand.length.{tag}", A.T(back.shape[-1 if axis in (None, -1) else 0]) == ns, "post")
            r0, k0 = z3.Int(fresh_name("r0")), z3.Int(fresh_name("k0"))
            it.ctx.assume(z3.And(r0 >= 0, r0 < other, k0 >= 0, k0 < ns))
            it.ctx.instantiate(herm, r0, ns - k0)
            idx = (r0, k0) if axis in (None, -1) else (k0, r0)
            it.ctx.oblige(f"fexpand_freduce.identity.{tag}", back.read(idx) == X.read(idx), "post", "fexpand(freduce(X), ns) == X on Hermitian spectra (arbitrary bin)", assume=False)
            red2 = run_function(it, F.freduce, [back], {"axis": axis})
            k1 = z3.Int(fresh_name("k1"))
            it.ctx.assume(z3.And(k1 >= 0, k1 < m))
            idx1 = (r0, k1) if axis in (None, -1) else (k1, r0)
            it.ctx.oblige(f"freduce_fexpand.identity.{tag}", z3.And(A.T(red2.shape[-1 if axis in (None, -1) else 0]) == m, red2.read(idx1) == red.read(idx1)), "post", assume=False)
        S.explore(body)


@harness(PROPERTY, "fscale", functions=["ibldsp.fourier:fscale"], replay=replay_fscale, clause="the frequency scale equals the DFT bin frequencies (positive Nyquist)")
def h_fscale(H):
    S = H.session("fscale")

    def body(it):
        ns = z3.Int("ns")
        si = z3.Real("si")
        it.ctx.assume(z3.And(ns >= 1, si > 0))
        f = run_function(it, F.fscale, [SV(ns)], {"si": SV(si)})
        k = z3.Int("k")
        it.ctx.oblige("fscale.length", A.T(f.shape[0]) == ns, "post")
        it.ctx.oblige("fscale.bins", A.forall([k], lambda: z3.Implies(z3.And(k >= 0, k < ns), f.read((k,)) == z3.If(k <= ns / 2, z3.ToReal(k), z3.ToReal(k - ns)) / z3.ToReal(ns) / si)), "post",
                      "bin k is k/(ns si) up to and including Nyquist, (k-ns)/(ns si) above", assume=False)
        f1 = run_function(it, F.fscale, [SV(ns)], {"si": SV(si), "one_sided": True})
        it.ctx.oblige("fscale.one_sided", z3.And(A.T(f1.shape[0]) == ns / 2 + 1, A.forall([k], lambda: z3.Implies(z3.And(k >= 0, k <= ns / 2), f1.read((k,)) == z3.ToReal(k) / z3.ToReal(ns) / si))), "post", assume=False)
    S.explore(body)


# ----------------------------------------------------------------------------- filters
def replay_filters(vals, oid):
    """the real filter on an array of the counter-model's shape: keeps the shape, and equals filtering every line along the axis on its own"""
    import re
    m = re.search(r"\.(bp|lp|hp)\.(\d)d\.axis(None|-?\d)", oid)
    if not m:
        return {"failed": False, "note": "no native replay for this obligation"}
    typ, nd, axis = m.group(1), int(m.group(2)), (None if m.group(3) == "None" else int(m.group(3)))
    dims = [vals.get(f"d{q}") for q in range(nd)]
    dims = [int(d) if isinstance(d, int) and 2 <= d <= 24 else (5, 6, 7)[q] for q, d in enumerate(dims)]
    rng = np.random.default_rng(3)
    bad = []
    for shape in (tuple(dims), tuple((5, 6, 7)[:nd]), tuple((6, 6, 6)[:nd])):
        x = rng.standard_normal(shape)
        b = [0.05, 0.1, 0.3, 0.4] if typ == "bp" else [0.1, 0.2]
        try:
            y = F._freq_filter(x, 1.0, b, axis=axis, typ=typ)
        except Exception as e:
            bad.append({"shape": shape, "axis": axis, "raised": repr(e)[:200]})
            continue
        ax = nd - 1 if axis is None else axis % nd
        if y.shape != x.shape:
            bad.append({"shape": shape, "axis": axis, "result_shape": y.shape})
            continue
        want = np.apply_along_axis(lambda line: F._freq_filter(line, 1.0, b, typ=typ), ax, x)
        if not np.allclose(y, want, atol=1e-9):
            bad.append({"shape": shape, "axis": axis, "max_difference_to_line_by_line_filtering": float(np.max(np.abs(y - want)))})
    return {"failed": bool(bad), "cases": bad[:3]}


@harness(PROPERTY, "filters", replay=replay_filters, functions=["ibldsp.fourier:_freq_vector", "ibldsp.fourier:_freq_filter", "ibldsp.utils:fcn_cosine", "ibldsp.utils:_fcn_extrap"],
         clause="low-pass plus high-pass with the same corners is the identity, band-pass is their product, the cosine soft threshold is monotone from 0 to 1 between its bounds")
def h_filters(H):
    S = H.session("freq_vector")

    def body(it):
        n = z3.Int("n")
        it.ctx.assume(n >= 1)
        f = A.fresh_array("f", "float64", (n,))
        b0, b1, b2, b3 = z3.Reals("b0 b1 b2 b3")
        it.ctx.assume(z3.And(b0 < b1, b2 < b3))
        lo = run_function(it, F._freq_vector, [f, [SV(b0), SV(b1)]], {"typ": "lp"})
        hi = run_function(it, F._freq_vector, [f, [SV(b0), SV(b1)]], {"typ": "hp"})
        k = z3.Int("k")
        it.ctx.oblige("lp_plus_hp_is_one", A.forall([k], lambda: z3.Implies(z3.And(k >= 0, k < n), lo.read((k,)) + hi.read((k,)) == 1)), "post",
                      "the two responses sum to one at every frequency, hence lp(x)+hp(x) == x by linearity of the transform (A-FFT)", assume=False)
        k0, k1 = z3.Int(fresh_name("k0")), z3.Int(fresh_name("k1"))
        it.ctx.assume(z3.And(k0 >= 0, k0 < n, k1 >= 0, k1 < n))
        it.ctx.oblige("cosine.range", z3.And(hi.read((k0,)) >= 0, hi.read((k0,)) <= 1), "post", assume=False)
        it.ctx.oblige("cosine.zero_below", z3.Implies(f.read((k0,)) <= b0, hi.read((k0,)) == 0), "post", assume=False)
        it.ctx.oblige("cosine.one_above", z3.Implies(f.read((k0,)) >= b1, hi.read((k0,)) == 1), "post", assume=False)
        it.ctx.oblige("cosine.monotone", z3.Implies(f.read((k0,)) <= f.read((k1,)), hi.read((k0,)) <= hi.read((k1,))), "post", "monotone from 0 to 1 between its bounds", assume=False)
    S.explore(body)

    _freq_filter_cases(H, ((1, None), (2, 0), (2, 1), (3, 2), (3, 1)))


@harness(PROPERTY, "filters_3d_axis0", replay=replay_filters, functions=["ibldsp.fourier:_freq_filter"], clause="filters along axis 0 of a 3-D array (known finding F-C18-3)")
def h_filters3d0(H):
    _freq_filter_cases(H, ((3, 0),))


def _uf_args(t, decl):
    """argument tuples of the applications of the uninterpreted function `decl` inside the term t"""
    out, seen, todo = [], set(), [t]
    while todo:
        x = todo.pop()
        if x.get_id() in seen or not z3.is_app(x):
            continue
        seen.add(x.get_id())
        if x.decl().eq(decl):
            out.append([x.arg(i) for i in range(x.num_args())])
        todo.extend(x.children())
    return out


def _filters_each_line_in_place(ts, log, out, ax):
    """True iff out[j] is computed from the line of ts through j along axis `ax`, at position j[ax]: the forward transform sees ts through an axis
    permutation sigma, the inverse transform works on the product in the same layout along the same axis, and the result is read back through the
    inverse permutation.  Unsupported (undecided) when the data flow cannot be recognised."""
    import itertools
    nd = ts.ndim
    if len(log) != 2 or log[0]["kind"] not in ("fft", "rfft") or log[1]["kind"] not in ("ifft", "irfft"):
        raise Unsupported("cannot identify one forward and one inverse transform in _freq_filter()")
    e1, e2 = log
    if getattr(e1["out"], "uf", None) is None or len(e1["in_shape"]) != nd or len(e2["in_shape"]) != nd:
        raise Unsupported("transform of an array of another rank")
    idx = [z3.Int(f"i!{q}") for q in range(nd)]
    xin = z3.simplify(term(e1["in"](tuple(idx))))
    sigma = None
    for cand in itertools.permutations(range(nd)):
        if z3.simplify(term(ts.read(tuple(idx[cand[d]] for d in range(nd))))).eq(xin):
            sigma = cand          # ts axis d is indexed by the transform input's index sigma[d]
            break
    if sigma is None:
        raise Unsupported("the forward transform is not applied to an axis permutation of the input")
    if sigma[ax] != e1["axis"] or e2["axis"] != e1["axis"]:
        return False
    # the inverse transform's input holds, at every position, the forward transform's output at the same position (times the response)
    pin = z3.simplify(term(e2["in"](tuple(idx))))
    apps = _uf_args(pin, e1["out"].uf)
    if not apps:
        raise Unsupported("the inverse transform is not applied to the forward transform's output")
    if any(len(a) != nd or any(not a[q].eq(idx[q]) for q in range(nd)) for a in apps):
        return False
    y = e2["out"]
    yuf = getattr(y, "uf", None)
    j = [z3.Int(f"j!{q}") for q in range(nd)]
    if out.ndim != nd:
        return False
    o = z3.simplify(term(out.read(tuple(j))))
    if yuf is None:
        raise Unsupported("inverse transform output without an index function")
    oa = _uf_args(o, yuf)
    if len(oa) != 1 or len(oa[0]) != nd:
        raise Unsupported("the result is not read from the inverse transform's output")
    tau = []
    for a in oa[0]:
        hit = [q for q in range(nd) if a.eq(j[q])]
        if len(hit) != 1:
            raise Unsupported("the result is not an axis permutation of the inverse transform's output")
        tau.append(hit[0])           # inverse transform's index m is the result's index tau[m]
    return all(tau[sigma[d]] == d for d in range(nd))


def _freq_filter_cases(H, cases):
    for typ in ("bp", "lp"):
        for ndim, axis in cases:
            S2 = H.session(f"freq_filter.{typ}.{ndim}d.axis{axis}")

            def body2(it, typ=typ, ndim=ndim, axis=axis):
                dims = [z3.Int(f"d{q}") for q in range(ndim)]
                for d in dims:
                    it.ctx.assume(d >= 2)
                H.input(**{f"d{q}": dims[q] for q in range(ndim)})
                ts = A.fresh_array("ts", "float64", tuple(dims))
                si = z3.Real("si")
                it.ctx.assume(si > 0)
                bs = [SV(z3.Real(f"c{q}")) for q in range(4)]
                it.ctx.assume(z3.And(term(bs[0]) < term(bs[1]), term(bs[2]) < term(bs[3])))
                seen = []
                real_fv = F._freq_vector

                def fv(it_, a, k):
                    r = A.fresh_array("resp_" + k.get("typ", "lp"), "float64", a[0].shape)
                    seen.append((k.get("typ", "lp"), [term(v) for v in a[1]], r))
                    return r
                it.session.contracts[F._freq_vector] = fv
                out = run_function(it, F._freq_filter, [ts, SV(si), bs if typ == "bp" else bs[:2]], {"axis": axis, "typ": typ})
                ax = ndim - 1 if axis is None else axis
                tag = f"{typ}.{ndim}d.axis{axis}"
                it.ctx.oblige(f"freq_filter.shape.{tag}", z3.And(*[A.T(out.shape[q]) == dims[q] for q in range(ndim)]) if out.ndim == ndim else z3.BoolVal(False), "post", "filtering keeps the shape")
                log = [e for e in it.ctx.fft_log if e["kind"] in ("fft", "ifft", "rfft", "irfft")]
                it.ctx.oblige(f"freq_filter.along_axis.{tag}", z3.BoolVal(_filters_each_line_in_place(ts, log, out, ax)), "post",
                              "every output sample comes from the forward and inverse transform of the line of the input through the same position along the requested axis "
                              "(whatever axis shuffling the implementation does around the transforms)")
                if typ == "bp":
                    ok = len(seen) == 2 and seen[0][0] == "hp" and seen[1][0] == "lp"
                    it.ctx.oblige(f"bp.is_hp_times_lp.{tag}", z3.And(z3.BoolVal(ok), *( [seen[0][1][0] == term(bs[0]), seen[0][1][1] == term(bs[1]), seen[1][1][0] == term(bs[2]), seen[1][1][1] == term(bs[3])] if ok else [])), "post",
                                  "band-pass response = high-pass(b[0:2]) * low-pass(b[2:4])")
                    if ok and len(log) == 2:
                        prod_in = log[1]["in"]      # ifft input = fft(ts) * fexpand(filc)
                        # the response multiplied in is the product of the two vectors on the positive-frequency half
                        pass
            S2.explore(body2)


def replay_wrappers(vals, oid):
    """native: lp / hp / bp along every axis of 2-D and 3-D arrays against filtering each line on its own"""
    rng = np.random.default_rng(5)
    bad = []
    for shape in ((6, 9), (5, 6, 7)):
        x = rng.standard_normal(shape)
        for name, b in (("lp", [0.1, 0.2]), ("hp", [0.1, 0.2]), ("bp", [0.05, 0.1, 0.3, 0.4])):
            for axis in list(range(-len(shape), len(shape))) + [None]:
                y = getattr(F, name)(x, 1.0, b, axis=axis)
                ax = len(shape) - 1 if axis is None else axis % len(shape)
                want = np.apply_along_axis(lambda line: F._freq_filter(line, 1.0, b, typ=name), ax, x)
                if y.shape != x.shape or not np.allclose(y, want, atol=1e-9):
                    bad.append({"filter": name, "shape": shape, "axis": axis})
    return {"failed": bool(bad), "cases": bad[:4]}


@harness(PROPERTY, "filter_wrappers", functions=["ibldsp.fourier:lp", "ibldsp.fourier:hp", "ibldsp.fourier:bp"], replay=replay_wrappers,
         clause="low-pass, high-pass and band-pass are the filter of their name along the requested axis: the public functions hand the series, sampling interval, corners, axis and type on to _freq_filter (contract: harness filters)")
def h_wrappers(H):
    S = H.session("filter_wrappers")

    def body(it):
        n0, n1 = z3.Ints("d0 d1")
        si = z3.Real("si")
        it.ctx.assume(z3.And(n0 >= 2, n1 >= 2, si > 0))
        ts = A.fresh_array("ts", "float64", (n0, n1))
        seen = []

        def ff(it_, a, k):
            import inspect
            ba = inspect.signature(F._freq_filter).bind(*a, **k)
            ba.apply_defaults()
            seen.append(dict(ba.arguments))
            return A.fresh_array("filtered", "float64", a[0].shape)
        it.session.contracts[F._freq_filter] = ff
        for name, nb in (("lp", 2), ("hp", 2), ("bp", 4)):
            for axis in (None, 0, 1, -1, -2):
                b = [SV(z3.Real(f"c{q}")) for q in range(nb)]
                seen.clear()
                kw = {} if axis is None else {"axis": axis}
                out = run_function(it, getattr(F, name), [ts, SV(si), b], kw)
                ok = len(seen) == 1 and seen[0]["ts"] is ts and seen[0]["typ"] == name and seen[0]["axis"] == axis and isinstance(seen[0]["si"], SV) and z3.is_true(z3.simplify(term(seen[0]["si"]) == si)) \
                    and len(it.to_list(seen[0]["b"])) == nb and all(z3.is_true(z3.simplify(term(u) == term(v))) for u, v in zip(it.to_list(seen[0]["b"]), b))
                it.ctx.oblige(f"wrapper.{name}.axis{axis}", z3.BoolVal(bool(ok) and isinstance(out, A.SArr)), "post",
                              f"{name}(ts, si, b, axis) is _freq_filter(ts, si, b, axis=axis, typ='{name}') - in particular along the caller's axis")
    S.explore(body)


@harness(PROPERTY, "filters_leave_their_arguments_alone", functions=["ibldsp.fourier:_freq_filter"],
         clause="low-pass plus high-pass with the same corners is the identity, band-pass is their product: for corners handed over as an array, and handed over again")
def h_filters_frame(H):
    for typ in ("bp", "lp", "hp"):
        S = H.session(f"freq_filter.frame.{typ}")

        def body(it, typ=typ):
            n = z3.Int("n")
            si = z3.Real("si")
            it.ctx.assume(z3.And(n >= 2, si > 0))
            ts = A.fresh_array("ts", "float64", (n,))
            nb = 4 if typ == "bp" else 2
            b = A.fresh_array("corners", "float64", (nb,))
            b0, t0 = b.snapshot(), ts.snapshot()
            seen = []

            def fv(it_, a, k):
                vals = [term(v) for v in (it_.to_list(a[1]) if isinstance(a[1], A.SArr) else a[1])]
                seen.append((k.get("typ", "lp"), vals))
                return A.fresh_array("resp_" + k.get("typ", "lp"), "float64", a[0].shape)
            it.session.contracts[F._freq_vector] = fv
            run_function(it, F._freq_filter, [ts, SV(si), b], {"typ": typ})
            q = z3.Int("q")
            it.ctx.oblige(f"filters.corners_untouched.{typ}", z3.And(*[b.read((z3.IntVal(j),)) == b0((z3.IntVal(j),)) for j in range(nb)]), "post",
                          "the caller's corner-frequency array is not modified (the next call with it filters at the same corners)")
            it.ctx.oblige(f"filters.signal_untouched.{typ}", A.forall([q], lambda: z3.Implies(z3.And(q >= 0, q < n), ts.read((q,)) == t0((q,)))), "post", assume=False)
        S.explore(body)


# ----------------------------------------------------------------------------- bounded
def native_convolve(pairs):
    bad = []
    for nsx, nsw in pairs:
        for j in range(nsx):
            x = np.zeros((2, nsx))
            x[0, j] = 1.0
            x[1, nsx - 1 - j] = -2.0
            w = np.arange(1, nsw + 1, dtype=float) * (-1.0) ** np.arange(nsw)
            full = np.array([np.convolve(r, w, "full") for r in x])
            got = F.convolve(x, w, "full")
            if got.shape[-1] != nsx + nsw or not np.allclose(got[:, :nsx + nsw - 1], full, atol=1e-9) or not np.allclose(got[:, -1], 0, atol=1e-9):
                bad.append(("full", nsx, nsw, j))
                break
            same = F.convolve(x, w, "same")
            want = np.array([scipy.signal.convolve(r, w, mode="same", method="direct") for r in x]) if nsx >= nsw else full[:, (nsw - 1) // 2:(nsw - 1) // 2 + nsx]
            if same.shape[-1] != nsx or not np.allclose(same, want, atol=1e-9):
                bad.append(("same", nsx, nsw, j))
                break
        # integer and single-precision signals with a fractional kernel (the dtype of the signal must not leak into the kernel)
        if nsx >= 3:
            wf = np.hanning(nsw + 2)[1:-1] / max(np.hanning(nsw + 2)[1:-1].sum(), 1e-9)
            for dt in (np.int16, np.int64, np.float32):
                xi = (np.arange(2 * nsx).reshape(2, nsx) % 7 * 100 - 250).astype(dt)
                wantf = np.array([np.convolve(r.astype(float), wf, "full") for r in xi])
                gotf = F.convolve(xi, wf, "full")
                if gotf.shape[-1] < nsx + nsw - 1 or not np.allclose(gotf[:, :nsx + nsw - 1], wantf, atol=1e-3 if dt == np.float32 else 1e-6):
                    bad.append(("full, %s signal with a fractional kernel" % dt.__name__, nsx, nsw))
                    break
    return bad


@bounded(PROPERTY, "native_spectral", bound="impulse basis (complete per length for a linear operator): convolve vs direct convolution for all (nsx, nsw) in [1,24]^2 (float64 impulses; int16 / int64 / float32 signals with a fractional kernel) + pairs whose padded size is 27, 81, 243 (thorough: [1,80]^2 + 300 sampled up to 300); "
         "ns_optim_fft vs brute force for 1..7000 + every table edge; lp+hp, bp=hp*lp, axes of 1-3-D arrays; dft/dft2 vs FFT for sizes <= 32; freduce/fexpand/fscale for n = 1..64",
         clause="numeric equality with the textbook definitions")
def b_native(B):
    rng = np.random.default_rng(B.seed)
    pairs = [(a, b) for a in range(1, 25) for b in range(1, 25)] + [(20, 7), (70, 11), (200, 43), (13, 14), (40, 41)]
    if B.tier == "thorough":
        pairs = [(a, b) for a in range(1, 81) for b in range(1, 81)] + [(int(rng.integers(1, 300)), int(rng.integers(1, 300))) for _ in range(300)]
    bad = native_convolve(pairs)
    B.case("convolve_impulse_basis", not bad, detail=bad[:5], inputs={"kind": "convolve"})
    # ns_optim_fft
    smooth = sorted({2 ** a * 3 ** b for a in range(0, 30) for b in range(0, 20)})
    ok = True
    worst = None
    for ns in list(range(1, 7001)) + [s + d for s in smooth if s < 14155776 for d in (0, 1)]:
        want = next(s for s in smooth if s >= ns)
        got = int(F.ns_optim_fft(ns))
        if got != want:
            ok = False
            worst = (ns, got, want)
            break
    B.case("ns_optim_fft_bruteforce", ok, detail=worst, inputs={"kind": "optim"})
    big = int(F.ns_optim_fft(14155777))
    B.case("ns_optim_fft_above_table", big == 3 ** 15, detail=f"ns_optim_fft(14155777) = {big}, smallest 2^a 3^b is 3^15 = {3 ** 15}", inputs={"kind": "optim_above_table"})
    # filters
    bad = []
    for n in list(range(4, 40)) + [64, 81, 125, 243]:
        x = rng.standard_normal(n)
        b = [0.05, 0.2]
        if not np.allclose(F.lp(x, 1.0, b) + F.hp(x, 1.0, b), x, atol=1e-9):
            bad.append(("lp+hp", n))
        for b4 in ([0.05, 0.1, 0.2, 0.3], [0.05, 0.3, 0.1, 0.4], [0.1, 0.3, 0.1, 0.3]):
            if not np.allclose(F.bp(x, 1.0, b4), F.hp(F.lp(x, 1.0, b4[2:]), 1.0, b4[:2]), atol=1e-9):
                bad.append(("bp", n, b4))
        # a sampling interval other than 1, the corners handed over as one float64 array that is used again for the next calls
        si = 1 / 2500.0
        ba = np.array([50.0, 100.0])
        ba4 = np.array([30.0, 60.0, 300.0, 400.0])
        ref = (F.lp(x, si, [50.0, 100.0]), F.hp(x, si, [50.0, 100.0]), F.bp(x, si, [30.0, 60.0, 300.0, 400.0]))
        for rep_ in range(2):
            got = (F.lp(x, si, ba), F.hp(x, si, ba), F.bp(x, si, ba4))
            if not (all(np.allclose(g_, r_, atol=1e-9) for g_, r_ in zip(got, ref)) and np.allclose(got[0] + got[1], x, atol=1e-9) and ba.tolist() == [50.0, 100.0] and ba4.tolist() == [30.0, 60.0, 300.0, 400.0]):
                bad.append(("filters called again with the same corner array", n, rep_, ba.tolist()))
                break
        ff = F.fscale(n, 0.5)
        if not np.allclose(ff, np.where(np.arange(n) <= n // 2, np.arange(n), np.arange(n) - n) / n / 0.5):
            bad.append(("fscale", n))
        X = np.fft.fft(x)
        if not np.allclose(F.fexpand(F.freduce(X), n), X) or F.freduce(X).size != n // 2 + 1:
            bad.append(("freduce/fexpand", n))
    # every axis of 2-D / 3-D arrays, counted from either end
    for shp in ((5, 8), (6, 9), (3, 4, 7), (2, 6, 5)):
        xx = rng.standard_normal(shp)
        for ax in range(-len(shp), len(shp)):
            XX = np.fft.fft(xx, axis=ax)
            red = F.freduce(XX, axis=ax)
            want = np.fft.rfft(xx, axis=ax)
            if red.shape != want.shape or not np.allclose(red, want) or not np.allclose(F.fexpand(red, shp[ax], axis=ax), XX):
                bad.append(("freduce / fexpand along an axis of a multi-dimensional array", shp, ax, red.shape, want.shape))
    x2 = rng.standard_normal((6, 9))
    for ax in (0, 1):
        if not np.allclose(F.lp(x2, 1.0, [0.1, 0.2], axis=ax), np.apply_along_axis(lambda v: F.lp(v, 1.0, [0.1, 0.2]), ax, x2)):
            bad.append(("2d axis", ax))
    x3 = rng.standard_normal((4, 5, 6))
    for ax in (1, 2):
        if not np.allclose(F.lp(x3, 1.0, [0.1, 0.2], axis=ax), np.apply_along_axis(lambda v: F.lp(v, 1.0, [0.1, 0.2]), ax, x3)):
            bad.append(("3d axis", ax))
    B.case("filters_scale_reduce", not bad, detail=bad[:5])
    try:
        y = F.lp(x3, 1.0, [0.1, 0.2], axis=0)
        ok3 = np.allclose(y, np.apply_along_axis(lambda v: F.lp(v, 1.0, [0.1, 0.2]), 0, x3))
        det = "values differ"
    except Exception as e:
        ok3, det = False, repr(e)
    B.case("filter_3d_axis0", ok3, detail=det, inputs={"kind": "filter_3d_axis0"})
    bad = []
    for n in range(2, 33):
        x = rng.standard_normal(n)
        if not np.allclose(F.dft(x), np.fft.rfft(x)):
            bad.append(("dft", n))
        # explicit sample positions / coefficients that are not whole numbers: the definition sum_x x[x] exp(-2 pi i k x / ns)
        xs_ = np.arange(n) + 0.5
        ks_ = np.arange(2 * n) / 2
        want = np.exp(-2j * np.pi / n * xs_[None, :] * ks_[:, None]) @ x
        if not np.allclose(F.dft(x, xscale=xs_, kscale=ks_), want, atol=1e-9):
            bad.append(("dft with half-integer positions / coefficients", n))
        xi_ = np.sort(rng.uniform(0, n, n))
        want = np.exp(-2j * np.pi / n * xi_[None, :] * np.arange(n)[:, None]) @ x
        if not np.allclose(F.dft(x, xscale=xi_, kscale=np.arange(n)), want, atol=1e-9):
            bad.append(("dft with irregular positions", n))
    B.case("dft_vs_fft", not bad, detail=bad[:5])
    # 2-D: full regular grids of every parity against fft2, a subset of the wavenumbers, off-grid positions against the double sum; real and complex input
    bad2 = []
    for n0, n1 in ((1, 1), (2, 3), (3, 2), (4, 4), (5, 6), (6, 5), (7, 7), (8, 3)):
        for cplx in (False, True):
            nt = 3
            img = rng.standard_normal((n0, n1, nt)) + (1j * rng.standard_normal((n0, n1, nt)) if cplx else 0)
            ii, jj = [v.flatten() for v in np.meshgrid(np.arange(n0), np.arange(n1), indexing="ij")]
            x = img.reshape(n0 * n1, nt)
            got = F.dft2(x, ii / n0, jj / n1, n0, n1)
            want = np.fft.fft2(img, axes=(0, 1))
            if got.shape != (n0, n1, nt) or not np.allclose(got, want, atol=1e-9):
                bad2.append(("full grid vs fft2", n0, n1, "complex" if cplx else "real"))
            for nk, nl in ((max(1, n0 - 1), n1), (n0, max(1, n1 // 2)), (n0 + 1, n1 + 2)):
                got = F.dft2(x, ii / n0, jj / n1, nk, nl)
                kk, ll = np.arange(nk), np.arange(nl)
                want = np.einsum("ka,lb,abt->klt", np.exp(-2j * np.pi * np.outer(kk, np.arange(n0)) / n0), np.exp(-2j * np.pi * np.outer(ll, np.arange(n1)) / n1), img)
                if got.shape != (nk, nl, nt) or not np.allclose(got, want, atol=1e-9):
                    bad2.append(("other number of wavenumbers than grid points", n0, n1, nk, nl, "complex" if cplx else "real"))
            r_, c_ = rng.uniform(0, 1, n0 * n1), rng.uniform(0, 1, n0 * n1)
            got = F.dft2(x, r_, c_, n0, n1)
            want = np.stack([[np.exp(-2j * np.pi * (r_ * k_ + c_ * l_)) @ x for l_ in range(n1)] for k_ in range(n0)])
            if got.shape != (n0, n1, nt) or not np.allclose(got, want, atol=1e-9):
                bad2.append(("irregular positions vs the double sum", n0, n1, "complex" if cplx else "real"))
    B.case("dft2_vs_fft2_and_definition", not bad2, detail=bad2[:5])
    # cosine taper
    fc = U.fcn_cosine([2.0, 5.0])
    xs = np.linspace(-1, 8, 500)
    ys = fc(xs.copy())
    B.case("cosine_monotone", bool(np.all(np.diff(ys) >= -1e-12) and ys[0] == 0 and np.isclose(ys[-1], 1) and np.all((ys >= 0) & (ys <= 1 + 1e-12))), detail="fcn_cosine not monotone 0..1")
    # the same threshold on whole-number abscissae of any type (trace / sample indices): the same values as on floats
    badc = []
    for b_ in ([0, 7], [3, 12], [2.0, 5.0]):
        for dt_ in (np.int64, np.int32, np.float32, np.float64):
            xi = np.arange(-2, 16).astype(dt_)
            got = np.asarray(U.fcn_cosine(b_)(xi.copy()), dtype=float)
            ref = np.clip((xi.astype(float) - b_[0]) / (b_[1] - b_[0]), 0, 1)
            want = (1 - np.cos(ref * np.pi)) / 2
            if got.shape != want.shape or not np.allclose(got, want, atol=1e-6):
                badc.append((b_, dt_.__name__, float(np.max(np.abs(got - want))) if got.shape == want.shape else "shape"))
    B.case("cosine_on_integer_abscissae", not badc, detail=badc[:4])
