"""C05 - destriping removes ADC-skewed common noise and keeps local spikes.

Functions under contract (ibldsp/voltage.py): car (referencing and per-collection recursion), kfilt / fk (argument propagation of the per-collection recursion),
destripe (what is shifted by which delays, what the spatial filter sees, label-3 exclusion), agc (product law).  The dB / amplitude figures are a bounded stand-in.
"""
import numpy as np
import scipy.signal
import z3

import ibldsp.voltage as V
import ibldsp.fourier as F
import neuropixel
from pyvc.api import harness, bounded, property_meta, run_function
from pyvc.core import SV, term, fresh_name
from pyvc import arrays as A, models
from pyvc.arrays import SArr

PROPERTY = "C05"
property_meta(
    PROPERTY, level="other",
    trusted_base=["A-PY", "A-NP-INDEX", "A-REAL", "A-NP-SPEC: median / mean are opaque reductions with median(x - c) = median(x) - c and mean likewise (translation equivariance; stated, not proved)",
                  "A-SCIPY / A-FFT: butter, sosfiltfilt, fshift, fourier.convolve (>= 0 for >= 0 operands), interpolate_bad_channels keep shapes, contents opaque"],
    explanation="car: exactly one channel-axis reduction with the requested operator is subtracted; per-collection call = the same function on each group with the same operator (data symbolic, three fixed groupings incl. interleaved); "
                "kfilt / fk recursion propagates the filter / gain-control / velocity settings; destripe: high-pass, then fshift by the header's sample_shift along time with a positive sign, interpolation, spatial filter on rows with label != 3 only; "
                "agc: x_out * gain == x_in on live channels, dead channels untouched. 40 dB stripe attenuation / 90 % spike retention: bounded stand-in on synthetic band-limited stripes.")

GROUPINGS = {"interleaved": np.array([0, 1, 0, 1, 1, 0]), "blocks": np.array([2, 2, 5, 5, 5]), "np24like": np.array([0, 1, 0, 1, 2, 3, 2, 3]),
             "lone_traces": np.array([0, 0, 7, 0, 3])}          # labels carried by a single trace (one channel left on a shank, a reference trace with its own label)


def replay_car(vals, oid):
    bad = native_car(np.random.default_rng(0))
    return {"failed": bool(bad), "examples": bad[:4]}


@harness(PROPERTY, "car", functions=["ibldsp.voltage:car"], replay=replay_car,
         clause="referencing leaves a zero median (or mean, as requested) at every sample within each channel group; groups are filtered on their own with the same operator")
def h_car(H):
    for operator in ("median", "average"):
        S = H.session(f"car.{operator}")

        def body(it, operator=operator):
            nc, ns = z3.Ints("nc ns")
            it.ctx.assume(z3.And(nc >= 1, ns >= 1))
            x = A.fresh_array("x", "float64", (nc, ns))
            out = run_function(it, V.car, [x], {"operator": operator})
            red = it.ctx.reduce_log
            want = "median" if operator == "median" else "mean"
            ok = len(red) == 1 and red[0]["name"] == want and red[0]["axis"] == 0
            it.ctx.oblige(f"car.operator.{operator}", z3.BoolVal(ok), "post", f"one {want} across channels (axis 0) is computed")
            if ok:
                c, t = z3.Ints("c t")
                it.ctx.oblige(f"car.reduces_input.{operator}", A.forall([c, t], lambda: z3.Implies(z3.And(c >= 0, c < nc, t >= 0, t < ns), red[0]["input"]((c, t)) == x.read((c, t)))), "post", assume=False)
                it.ctx.oblige(f"car.subtracts.{operator}", A.forall([c, t], lambda: z3.Implies(z3.And(c >= 0, c < nc, t >= 0, t < ns), out.read((c, t)) == x.read((c, t)) - red[0]["out"](t))), "post",
                              "every channel has the common reference of its sample removed: by translation equivariance the result has zero median / mean at every sample", assume=False)
        S.explore(body)
    for gname, coll in GROUPINGS.items():
        for operator in ("median", "average"):
            S = H.session(f"car.collection.{gname}.{operator}")

            def body3(it, coll=coll, operator=operator, gname=gname):
                ns = z3.Int("ns")
                it.ctx.assume(ns >= 1)
                nc = len(coll)
                x = A.fresh_array("x", "float64", (nc, ns))
                calls = []

                def rec(it_, a, k):
                    xx = k.get("x", a[0] if a else None)
                    res = A.fresh_array("car_group", "float64", xx.shape)
                    calls.append({"x": xx, "collection": k.get("collection", "missing"), "operator": k.get("operator", "median"), "res": res})
                    return res
                it.session.contracts[V.car] = rec
                out = run_function(it, V.car, [x], {"collection": coll, "operator": operator}, keep_contract=True)
                groups = [np.flatnonzero(coll == g) for g in np.unique(coll)]
                tag = f"{gname}.{operator}"
                it.ctx.oblige(f"car.collection.one_call_per_group.{tag}", z3.BoolVal(len(calls) == len(groups) and all(cl["collection"] is None for cl in calls)), "post")
                it.ctx.oblige(f"car.collection.same_operator.{tag}", z3.BoolVal(all(cl["operator"] == operator for cl in calls)), "post", "each group is referenced with the operator that was requested")
                if len(calls) == len(groups):
                    t = z3.Int("t")
                    for g, cl in zip(groups, calls):
                        gx, res = cl["x"], cl["res"]
                        it.ctx.oblige(f"car.collection.group_in.{tag}.{g[0]}", z3.And(z3.BoolVal(gx.shape[0] == len(g)), A.forall([t], lambda: z3.Implies(z3.And(t >= 0, t < ns), z3.And(*[gx.read((z3.IntVal(i), t)) == x.read((z3.IntVal(int(r)), t)) for i, r in enumerate(g)])))), "post",
                                      "the group handed to the recursive call is exactly the rows of that collection value", assume=False)
                        it.ctx.oblige(f"car.collection.group_out.{tag}.{g[0]}", A.forall([t], lambda: z3.Implies(z3.And(t >= 0, t < ns), z3.And(*[out.read((z3.IntVal(int(r)), t)) == res.read((z3.IntVal(i), t)) for i, r in enumerate(g)]))), "post",
                                      "and its result is written back to exactly those rows", assume=False)
            S.explore(body3)


def _recursion_args(H, fn, name_, base_kwargs, must_match, coll=None, tag=""):
    S = H.session(f"{name_}.collection{tag}")
    coll = GROUPINGS["interleaved"] if coll is None else coll
    ngroups = len(np.unique(coll))

    def body(it):
        name = name_ + tag
        ns = z3.Int("ns")
        it.ctx.assume(ns >= 4)
        x = A.fresh_array("x", "float64", (len(coll), ns))
        calls = []

        x0 = x.snapshot()
        gin, gout = [], []

        def rec(it_, a, k):
            xx = k.get("x", a[0] if a else None)
            calls.append(dict(k))
            gin.append((xx.shape, A.as_sarr(xx).snapshot()))
            r_ = A.fresh_array(name_ + "_group", "float64", xx.shape)
            gout.append(r_.snapshot())
            return r_
        it.session.contracts[fn] = rec
        kwargs = dict(base_kwargs)
        kwargs["collection"] = coll
        out = run_function(it, fn, [x], kwargs, keep_contract=True)
        ids = np.unique(coll)
        if len(gin) == len(ids) and isinstance(out, SArr):
            # the grouping is concrete: row by row, the term read from what a group was handed / from the result is compared with the expected one
            # (structurally after simplification; the solver is asked only about rows that do not match structurally)
            t = z3.Int("t")
            it.ctx.assume(z3.And(t >= 0, t < ns))
            for g, u in enumerate(ids):
                members = np.flatnonzero(coll == u)
                m = len(members)
                rows_in, rows_out = [], []
                for r_, ch_ in enumerate(members):
                    a_ = z3.simplify(term(gin[g][1]((z3.IntVal(r_), t))))
                    b_ = z3.simplify(term(x0((z3.IntVal(int(ch_)), t))))
                    if not a_.eq(b_):
                        rows_in.append(a_ == b_)
                    c_ = z3.simplify(term(out.read((z3.IntVal(int(ch_)), t))))
                    d_ = z3.simplify(term(gout[g]((z3.IntVal(r_), t))))
                    if not c_.eq(d_):
                        rows_out.append(c_ == d_)
                it.ctx.oblige(f"{name}.collection.group_rows.{g}", z3.And(A.T(gin[g][0][0]) == m, *rows_in[:8]), "post",
                              "a group is handed to the filter as its own channels in their own (ascending) order - the spatial filters depend on the order", assume=False)
                it.ctx.oblige(f"{name}.collection.group_back.{g}", z3.And(z3.BoolVal(True), *rows_out[:8]), "post", "and its filtered rows go back to the rows they came from", assume=False)
        it.ctx.oblige(f"{name}.collection.calls", z3.BoolVal(len(calls) == ngroups and all(c.get("collection", "missing") is None for c in calls)), "post")
        import inspect
        defaults = {k: v.default for k, v in inspect.signature(fn).parameters.items() if v.default is not inspect.Parameter.empty}
        for key in must_match:
            want = base_kwargs[key]
            got_ok = all((c.get(key, defaults.get(key)) is want) or (c.get(key, defaults.get(key)) == want) for c in calls)
            it.ctx.oblige(f"{name}.collection.same_{key}", z3.BoolVal(bool(got_ok)), "post", f"each group is filtered with the caller's {key}")
        if "ntr_pad" in defaults and "ntr_tap" in defaults:
            # lateral apodisation of a group: never wider than the mirrored padding it is given (the taper must fall on padding rows, not on the
            # group's own traces); ntr_tap=None means "as wide as the padding"
            def eff(c):
                pad = c.get("ntr_pad", defaults["ntr_pad"])
                tap = c.get("ntr_tap", defaults["ntr_tap"])
                return pad, (pad if tap is None else tap)
            okt = all(isinstance(eff(c)[0], (int, float)) and isinstance(eff(c)[1], (int, float)) and eff(c)[1] <= eff(c)[0] for c in calls)
            it.ctx.oblige(f"{name}.collection.taper_within_padding", z3.BoolVal(bool(okt)), "post", "no group is tapered on its own traces: the taper handed to a group is not wider than its padding")
    S.explore(body)


@harness(PROPERTY, "kfilt_fk_recursion", functions=["ibldsp.voltage:kfilt", "ibldsp.voltage:fk"],
         clause="filtering with channel groups equals filtering each group on its own with the same filter and gain-control settings")
def h_rec(H):
    bk = {"N": 3, "Wn": 0.05, "btype": "highpass"}
    _recursion_args(H, V.kfilt, "kfilt", {"lagc": 150, "butter_kwargs": bk, "ntr_pad": 60}, ["lagc", "butter_kwargs"])
    kf = {"bounds": [0.05, 0.1], "btype": "highpass"}
    _recursion_args(H, V.fk, "fk", {"si": 0.001, "dx": 2, "vbounds": [200, 300], "btype": "lowpass", "ntr_pad": 3, "ntr_tap": 2, "lagc": 0.25, "kfilt": kf},
                    ["si", "dx", "vbounds", "btype", "ntr_pad", "ntr_tap", "lagc", "kfilt"])


@harness(PROPERTY, "destripe_dataflow", functions=["ibldsp.voltage:destripe", "ibldsp.voltage:_get_destripe_parameters"],
         clause="sub-sample re-alignment by each channel's sampling delay before the spatial filter; channels labelled outside the brain are excluded from the spatial filter")
def h_destripe(H):
    for with_labels in (True, False):
        for k_filter in (True, False):
            S = H.session(f"destripe.labels{with_labels}.k{k_filter}")

            def body(it, with_labels=with_labels, k_filter=k_filter):
                nc, ns = z3.Ints("nc ns")
                fs = z3.Real("fs")
                it.ctx.assume(z3.And(nc >= 1, ns >= 8, fs > 3000))
                x = A.fresh_array("x", "float32", (nc, ns))
                h = {"sample_shift": A.fresh_array("sample_shift", "float64", (nc,)), "x": A.fresh_array("hx", "float64", (nc,)), "y": A.fresh_array("hy", "float64", (nc,))}
                labels = A.fresh_array("labels", "float64", (nc,)) if with_labels else None
                log = []

                def opaque(name, argpos):
                    def f(it_, a, k):
                        xx = A.as_sarr(a[argpos] if len(a) > argpos else k.get("x"))
                        out = A.fresh_array(name, "float64", xx.shape)
                        o0 = out.snapshot()           # value at return time (the caller may later write into the array)

                        class _Frozen:
                            def read(self_, idx):
                                return o0(tuple(A.T(i) for i in idx))
                        log.append({"name": name, "in": xx.snapshot(), "in_shape": xx.shape, "args": a, "kwargs": k, "out": _Frozen()})
                        return out
                    return f
                it.session.contracts[scipy.signal.butter] = lambda it_, a, k: ("SOS", dict(k))
                it.session.contracts[scipy.signal.sosfiltfilt] = opaque("hp", 1)
                it.session.contracts[F.fshift] = opaque("fshift", 0)
                it.session.contracts[V.interpolate_bad_channels] = opaque("interp", 0)
                it.session.contracts[V.kfilt] = opaque("kfilt", 0)
                it.session.contracts[V.car] = opaque("car", 0)
                out = run_function(it, V.destripe, [x, SV(fs)], {"h": h, "channel_labels": labels, "k_filter": k_filter})
                names = [e["name"] for e in log]
                tag = f"labels{with_labels}.k{k_filter}"
                spatial = "kfilt" if k_filter else "car"
                want = ["hp", "fshift"] + (["interp"] if with_labels else []) + [spatial]
                it.ctx.oblige(f"destripe.pipeline.{tag}", z3.BoolVal(names == want), "post", f"high-pass, re-alignment{', interpolation' if with_labels else ''}, then {spatial}")
                if names != want:
                    return
                c, t = z3.Ints("c t")
                e_hp, e_sh = log[0], log[1]
                it.ctx.oblige(f"destripe.hp_input.{tag}", A.forall([c, t], lambda: z3.Implies(z3.And(c >= 0, c < nc, t >= 0, t < ns), e_hp["in"]((c, t)) == x.read((c, t)))), "post", assume=False)
                sarg = e_sh["args"][1] if len(e_sh["args"]) > 1 else e_sh["kwargs"].get("s")
                axis = e_sh["kwargs"].get("axis", e_sh["args"][2] if len(e_sh["args"]) > 2 else -1)
                it.ctx.oblige(f"destripe.shift_by_header_delays.{tag}", z3.And(z3.BoolVal(isinstance(sarg, SArr) and axis in (1, -1)),
                              A.forall([c], lambda: z3.Implies(z3.And(c >= 0, c < nc), sarg.read((c,)) == h["sample_shift"].read((c,)))) if isinstance(sarg, SArr) else z3.BoolVal(False)), "post",
                              "each channel is shifted forward by its own sampling delay from the header that was passed, along time", assume=False)
                it.ctx.oblige(f"destripe.shift_input_is_hp.{tag}", A.forall([c, t], lambda: z3.Implies(z3.And(c >= 0, c < nc, t >= 0, t < ns), e_sh["in"]((c, t)) == e_hp["out"].read((c, t)))), "post", assume=False)
                e_sp = log[-1]
                if with_labels:
                    e_in = log[2]
                    w = [q for q in it.ctx.where_log if q["ndim"] == 1][-1]
                    m, wf = w["count"], w["rows"]
                    it.ctx.oblige(f"destripe.inside_brain_is_not_3.{tag}", A.forall([c], lambda: z3.Implies(z3.And(c >= 0, c < nc), w["mask"]((c,)) == (labels.read((c,)) != 3))), "post", assume=False)
                    k = z3.Int("k")
                    it.ctx.oblige(f"destripe.spatial_sees_inside_rows.{tag}", z3.And(A.T(e_sp["in_shape"][0]) == m, A.forall([k, t], lambda: z3.Implies(z3.And(k >= 0, k < m, t >= 0, t < ns), e_sp["in"]((k, t)) == e_in["out"].read((wf(k), t))))), "post",
                                  "the spatial filter receives only the rows whose label is not 3", assume=False)
                    it.ctx.oblige(f"destripe.label3_untouched.{tag}", A.forall([c, t], lambda: z3.Implies(z3.And(c >= 0, c < nc, t >= 0, t < ns, labels.read((c,)) == 3), out.read((c, t)) == e_in["out"].read((c, t)))), "post",
                                  "rows labelled outside the brain do not receive the spatial filter either", assume=False)
                    it.ctx.oblige(f"destripe.inside_rows_filtered.{tag}", A.forall([k, t], lambda: z3.Implies(z3.And(k >= 0, k < m, t >= 0, t < ns), out.read((wf(k), t)) == e_sp["out"].read((k, t)))), "post", assume=False)
                else:
                    it.ctx.oblige(f"destripe.spatial_sees_all.{tag}", A.forall([c, t], lambda: z3.Implies(z3.And(c >= 0, c < nc, t >= 0, t < ns), e_sp["in"]((c, t)) == e_sh["out"].read((c, t)))), "post", assume=False)
            S.explore(body)


def replay_destripe_options(vals, oid):
    """native: the same settings dictionaries handed to three successive calls (a loop over batches): every batch referenced / filtered the same way"""
    rng = np.random.default_rng(11)
    import neuropixel
    h = neuropixel.trace_header(version=2, nshank=4)
    bad = []
    for op in ("median", "average"):
        kk = {"collection": h["shank"].copy(), "operator": op}
        bk = {"N": 3, "Wn": 300 / 30000 * 2, "btype": "highpass"}
        kk0, bk0 = dict(kk), dict(bk)
        for b in range(3):
            x = rng.standard_normal((384, 1200)).astype(np.float32) + np.repeat(h["shank"][:, None] * 3.0, 1200, axis=1).astype(np.float32) * np.sin(np.arange(1200) / 4.0)[None, :].astype(np.float32)
            want = V.destripe(x, 30000.0, h=h, k_filter=False, k_kwargs={"collection": h["shank"].copy(), "operator": op}, butter_kwargs=dict(bk0))
            got = V.destripe(x, 30000.0, h=h, k_filter=False, k_kwargs=kk, butter_kwargs=bk)
            if not np.allclose(got, want, atol=1e-6):
                bad.append({"operator": op, "call": b, "max_difference_to_a_call_with_fresh_dictionaries": float(np.max(np.abs(got - want)))})
        if set(kk) != set(kk0) or set(bk) != set(bk0):
            bad.append({"operator": op, "settings_after_the_calls": sorted(kk), "settings_before": sorted(kk0)})
    return {"failed": bool(bad), "cases": bad[:4]}


@harness(PROPERTY, "destripe_options", functions=["ibldsp.voltage:destripe", "ibldsp.voltage:_get_destripe_parameters"], replay=replay_destripe_options,
         clause="with the same filter, gain-control settings and options: the caller's settings reach the spatial step on every call, and the settings dictionaries are left as they were given")
def h_destripe_options(H):
    for k_filter in (True, False):
        S = H.session(f"destripe.options.k{k_filter}")

        def body(it, k_filter=k_filter):
            nc, ns = z3.Ints("nc ns")
            fs = z3.Real("fs")
            it.ctx.assume(z3.And(nc >= 1, ns >= 8, fs > 3000))
            h = {"sample_shift": A.fresh_array("sample_shift", "float64", (nc,)), "x": A.fresh_array("hx", "float64", (nc,)), "y": A.fresh_array("hy", "float64", (nc,))}
            coll = A.fresh_array("collection", "float64", (nc,))
            k_kwargs = ({"ntr_pad": 40, "ntr_tap": 10, "lagc": 300, "butter_kwargs": {"N": 3, "Wn": 0.02, "btype": "highpass"}, "collection": coll} if k_filter
                        else {"collection": coll, "operator": "average"})
            butter_kwargs = {"N": 4, "Wn": 0.03, "btype": "highpass"}
            kk0, bk0 = dict(k_kwargs), dict(butter_kwargs)
            seen = {"spatial": [], "butter": []}

            def spatial(it_, a, k):
                seen["spatial"].append(dict(k))
                return A.fresh_array("spatial", "float64", A.as_sarr(a[0]).shape)

            def butter(it_, a, k):
                seen["butter"].append(dict(k))
                return ("SOS", dict(k))
            opaque = lambda name, pos: (lambda it_, a, k: A.fresh_array(name, "float64", A.as_sarr(a[pos]).shape))      # noqa
            it.session.contracts[scipy.signal.butter] = butter
            it.session.contracts[scipy.signal.sosfiltfilt] = opaque("hp", 1)
            it.session.contracts[F.fshift] = opaque("fshift", 0)
            it.session.contracts[V.kfilt] = spatial
            it.session.contracts[V.car] = spatial
            tag = f"k{k_filter}"
            for call in (1, 2):
                x = A.fresh_array(f"x{call}", "float32", (nc, ns))
                run_function(it, V.destripe, [x, SV(fs)], {"h": h, "k_filter": k_filter, "k_kwargs": k_kwargs, "butter_kwargs": butter_kwargs})
            same = lambda d, d0: set(d) == set(d0) and all(d[q] is d0[q] or (not isinstance(d0[q], (SArr, dict)) and d[q] == d0[q]) for q in d0)      # noqa
            it.ctx.oblige(f"destripe.options.settings_left_as_given.{tag}", z3.BoolVal(same(k_kwargs, kk0) and same(butter_kwargs, bk0)), "post",
                          "the k_kwargs / butter_kwargs dictionaries hold the same entries after the calls (a caller re-using them for the next batch gets the same processing)")
            ok_sp = len(seen["spatial"]) == 2 and all(set(sp) == set(kk0) and all(sp[q] is kk0[q] or (not isinstance(kk0[q], (SArr, dict)) and sp[q] == kk0[q]) or (isinstance(kk0[q], dict) and sp[q] == kk0[q]) for q in kk0) for sp in seen["spatial"])
            it.ctx.oblige(f"destripe.options.spatial_step_gets_the_callers_settings.{tag}", z3.BoolVal(bool(ok_sp)), "post",
                          "on the first and on the second call alike, the spatial step (k-filter / common reference) is given exactly the caller's settings, channel groups included")
            ok_b = len(seen["butter"]) == 2 and all({q: v for q, v in b_.items() if q != "output"} == bk0 for b_ in seen["butter"])
            it.ctx.oblige(f"destripe.options.high_pass_gets_the_callers_settings.{tag}", z3.BoolVal(bool(ok_b)), "post", assume=False)
        S.explore(body)


def replay_kfilt(vals, oid):
    """kfilt without gain control (lagc None or 0) is linear and does not depend on the amplitude scale; with it, out == filtered(agc data) * gain"""
    rng = np.random.default_rng(4)
    bad = []
    for nx, pad in ((40, 0), (48, 12), (96, 60)):
        x = rng.standard_normal((nx, 300))
        kw = dict(ntr_pad=pad, ntr_tap=0, butter_kwargs={"N": 3, "Wn": 0.1, "btype": "highpass"})
        ref = V.kfilt(x.copy(), lagc=None, **kw)
        sos = scipy.signal.butter(N=3, Wn=0.1, btype="highpass", output="sos")
        xp = np.r_[np.flipud(x[:pad]), x, np.flipud(x[-pad:])] if pad else x
        want = scipy.signal.sosfiltfilt(sos, xp, axis=0)
        want = want[pad:-pad] if pad else want
        if not np.allclose(ref, want, atol=1e-10):
            bad.append({"what": "lagc=None: not the mirrored-pad spatial high-pass of the input", "nx": nx, "ntr_pad": pad})
        for off in (0, 0.0):
            y = V.kfilt(x.copy(), lagc=off, **kw)
            if not np.allclose(y, ref, atol=1e-10):
                bad.append({"what": f"lagc={off!r} (no gain control) differs from lagc=None", "nx": nx, "ntr_pad": pad, "max_diff": float(np.abs(y - ref).max())})
    return {"failed": bool(bad), "cases": bad[:4]}


@harness(PROPERTY, "kfilt_body", functions=["ibldsp.voltage:kfilt"], replay=replay_kfilt,
         clause="spatial high-pass along channels with mirrored padding; gain control only when a window length is given (its product with the gain restored at the end)")
def h_kfilt(H):
    for mode in ("off_none", "off_zero", "on"):
        for padded in (False, True):
            S = H.session(f"kfilt.{mode}.pad{padded}")

            def body(it, mode=mode, padded=padded):
                nx, nt, pad = z3.Ints("nx nt ntr_pad")
                it.ctx.assume(z3.And(nx >= 1, nt >= 1))
                if padded:
                    it.ctx.assume(z3.And(pad >= 1, pad <= nx))
                x = A.fresh_array("x", "float64", (nx, nt))
                x0 = x.snapshot()
                lagc = {"off_none": None, "off_zero": 0, "on": SV(z3.Int("lagc"))}[mode]
                if mode == "on":
                    it.ctx.assume(term(lagc) >= 1)
                log = []

                def agc_summary(it_, a, k):
                    xx = A.as_sarr(a[0] if a else k.get("x"))
                    y, g = A.fresh_array("agc_data", "float64", xx.shape), A.fresh_array("agc_gain", "float64", xx.shape)
                    log.append({"name": "agc", "in": xx.snapshot(), "shape": xx.shape, "wl": k.get("wl", a[1] if len(a) > 1 else None), "data": y.snapshot(), "gain": g.snapshot()})
                    return y, g

                def filt_summary(it_, a, k):
                    xx = A.as_sarr(a[1])
                    out = A.fresh_array("spatial_hp", "float64", xx.shape)
                    log.append({"name": "filt", "in": xx.snapshot(), "shape": xx.shape, "axis": k.get("axis", -1), "out": out.snapshot()})
                    return out
                it.session.contracts[V.agc] = agc_summary
                it.session.contracts[scipy.signal.butter] = lambda it_, a, k: ("SOS", dict(k))
                it.session.contracts[scipy.signal.sosfiltfilt] = filt_summary
                out = run_function(it, V.kfilt, [x], {"ntr_pad": SV(pad) if padded else 0, "ntr_tap": 0, "lagc": lagc})
                tag = f"{mode}.pad{padded}"
                names = [e["name"] for e in log]
                want = (["agc"] if mode == "on" else []) + ["filt"]
                it.ctx.oblige(f"kfilt.gain_control_only_with_a_window.{tag}", z3.BoolVal(names == want), "post",
                              "lagc None / 0 means no gain control (documented): the data go to the spatial filter as they are" if mode != "on" else "gain control, then one spatial filter")
                if names != want:
                    return
                f = log[-1]
                p = pad if padded else z3.IntVal(0)
                src = (lambda r, t: log[0]["data"]((r, t))) if mode == "on" else (lambda r, t: x0((r, t)))     # noqa
                r, t = z3.Ints("r t")
                it.ctx.oblige(f"kfilt.filter_along_channels.{tag}", z3.BoolVal(f["axis"] == 0), "post")
                if mode == "on":
                    it.ctx.oblige(f"kfilt.agc_sees_the_input.{tag}", z3.And(term(log[0]["wl"]) == term(lagc), A.forall([r, t], lambda: z3.Implies(z3.And(r >= 0, r < nx, t >= 0, t < nt), log[0]["in"]((r, t)) == x0((r, t))))), "post", assume=False)
                mirrored = lambda rr, tt: z3.If(rr < p, src(p - 1 - rr, tt), z3.If(rr < p + nx, src(rr - p, tt), src(nx - 1 - (rr - p - nx), tt)))     # noqa
                it.ctx.oblige(f"kfilt.mirrored_padding.{tag}", z3.And(A.T(f["shape"][0]) == nx + 2 * p, A.T(f["shape"][1]) == nt,
                              A.forall([r, t], lambda: z3.Implies(z3.And(r >= 0, r < nx + 2 * p, t >= 0, t < nt), f["in"]((r, t)) == mirrored(r, t)))), "post",
                              "the array filtered along channels is [first ntr_pad rows reversed; the data; last ntr_pad rows reversed]", assume=False)
                gain = (lambda rr, tt: log[0]["gain"]((rr, tt))) if mode == "on" else (lambda rr, tt: z3.RealVal(1))     # noqa
                it.ctx.oblige(f"kfilt.output_rows.{tag}", z3.And(z3.BoolVal(out.ndim == 2), A.T(out.shape[0]) == nx, A.T(out.shape[1]) == nt,
                              A.forall([r, t], lambda: z3.Implies(z3.And(r >= 0, r < nx, t >= 0, t < nt), out.read((r, t)) == f["out"]((r + p, t)) * gain(r, t)))), "post",
                              "the padding rows are dropped and the gain (1 without gain control) is multiplied back", assume=False)
                it.ctx.oblige(f"kfilt.input_untouched.{tag}", A.forall([r, t], lambda: z3.Implies(z3.And(r >= 0, r < nx, t >= 0, t < nt), x.read((r, t)) == x0((r, t)))), "post", assume=False)
            S.explore(body)


@harness(PROPERTY, "agc_product", functions=["ibldsp.voltage:agc"], clause="gain control returns data and gain whose product is the input")
def h_agc(H):
    S = H.session("agc")

    def body(it):
        nc, ns = z3.Ints("nc ns")
        it.ctx.assume(z3.And(nc >= 1, ns >= 1))
        x = A.fresh_array("x", "float64", (nc, ns))
        x0 = x.snapshot()
        eps = z3.Real("epsilon")
        it.ctx.assume(eps > 0)
        conv = {}

        def convolve(it_, a, k):
            xx = A.as_sarr(a[0])
            g = A.fresh_array("smooth_abs", "float64", xx.shape)
            A.assume_range(g, 0, 10 ** 30)        # convolution of |x| with a non negative window is non negative (A-SCIPY/A-FFT)
            conv["in"] = xx.snapshot()
            return g
        it.session.contracts[F.convolve] = convolve
        out, gain = run_function(it, V.agc, [x], {"wl": 0.5, "si": 0.002, "epsilon": SV(eps)})
        c0, t0 = z3.Int(fresh_name("c0")), z3.Int(fresh_name("t0"))
        it.ctx.assume(z3.And(c0 >= 0, c0 < nc, t0 >= 0, t0 < ns))
        sums = [r for r in it.ctx.reduce_log if r["name"] == "sum"]
        # A-NP-SPEC (sum), stated for the row sums the code takes: a sum of non negative numbers is non negative and at least each of its terms
        tq = z3.Int(fresh_name("tq"))
        for q, r in enumerate(sums):
            if len(r["in_shape"]) == 2:
                it.ctx.oblige(f"agc.lemma.summands_non_negative.{q}", A.forall([tq], lambda: z3.Implies(z3.And(tq >= 0, tq < ns), r["input"]((c0, tq)) >= 0)), "lemma", "antecedent of the sum axiom")
                it.ctx.assume(z3.And(r["out"](c0) >= 0, r["out"](c0) >= r["input"]((c0, t0))))
        if len(sums) >= 2:
            # linearity of summation (A-NP-SPEC): sum_t (g[c,t] + k_c) == sum_t g[c,t] + ns * k_c  with k_c = sum_t g[c,t] * epsilon / ns
            s1, s2 = sums[-2]["out"](c0), sums[-1]["out"](c0)
            it.ctx.assume(s2 == s1 + s1 * eps)
        # stated on the returned values only (no reference to how the code decides that a channel is dead)
        it.ctx.oblige("agc.product_on_live", z3.Implies(gain.read((c0, t0)) != 0, out.read((c0, t0)) * gain.read((c0, t0)) == x0((c0, t0))), "post",
                      "wherever the returned gain is not zero, the returned data times the returned gain is the input", assume=False)
        it.ctx.oblige("agc.dead_untouched", z3.Implies(gain.read((c0, t0)) == 0, out.read((c0, t0)) == x0((c0, t0))), "post", "where the gain is zero (dead channels) the data are returned as they came", assume=False)
        it.ctx.oblige("agc.gain_non_negative", gain.read((c0, t0)) >= 0, "post", assume=False)
        it.ctx.oblige("agc.gain_from_abs", conv["in"]((c0, t0)) == z3.If(x0((c0, t0)) >= 0, x0((c0, t0)), -x0((c0, t0))), "post", "the gain is a smoothed |x|", assume=False)
    S.explore(body)


# ----------------------------------------------------------------------------- bounded
def native_car(rng):
    bad = []
    for gname, coll in list(GROUPINGS.items()) + [("np24", neuropixel.trace_header(version=2.4, nshank=4)["shank"])]:
        x = rng.standard_normal((len(coll), 50))
        for op, f in (("median", np.median), ("average", np.mean)):
            y = V.car(x.copy(), collection=coll, operator=op)
            for g in np.unique(coll):
                sel = coll == g
                if not np.allclose(f(y[sel], axis=0), 0, atol=1e-9):
                    bad.append((gname, op, "group reference not zero", float(g)))
                if not np.allclose(y[sel], V.car(x[sel].copy(), operator=op)):
                    bad.append((gname, op, "differs from per-group call", float(g)))
        y = V.car(x.copy(), operator="average")
        if not np.allclose(y.mean(axis=0), 0, atol=1e-9):
            bad.append((gname, "average without collection"))
        if len(coll) >= 100:
            # the spatial filters depend on the order of the channels inside a group: groups == each group on its own, channels in their own order
            xs = np.cumsum(rng.standard_normal((len(coll), 64)), axis=0)
            kw = dict(ntr_pad=2, ntr_tap=0, lagc=None, butter_kwargs={"N": 3, "Wn": 0.05, "btype": "highpass"})
            yk = V.kfilt(xs.copy(), collection=coll, **kw)
            for g in np.unique(coll):
                sel = coll == g
                # (a group gets no mirrored padding and hence no lateral taper: what the recursion hands over, harness kfilt_fk_recursion)
                if not np.allclose(yk[sel], V.kfilt(xs[sel].copy(), **dict(kw, ntr_pad=0, ntr_tap=None)), atol=1e-9):
                    bad.append((gname, "kfilt with groups differs from the group filtered on its own", float(g)))
    return bad


def _stripe_case(rng, version, k_filter, fs=30000.0, labels=None):
    h = neuropixel.trace_header(version=version) if version != "2.4x4" else neuropixel.trace_header(version=2.4, nshank=4)
    version = 2 if version == "2.4x4" else version
    nc, ns = 384, 2000
    t = np.arange(ns) / fs
    # band-limited disturbance hitting all channels at the same physical instant, recorded with each channel's ADC delay
    f0 = rng.uniform(800, 3000)
    env = np.exp(-0.5 * ((t - t[ns // 2]) / 0.004) ** 2)
    delay = h["sample_shift"] / fs
    # a channel whose ADC samples d seconds later records s(t + d)
    stripe = np.array([np.sin(2 * np.pi * f0 * (t + d)) * np.exp(-0.5 * ((t + d - t[ns // 2]) / 0.004) ** 2) for d in delay]) * 300e-6
    y = V.destripe(stripe.copy().astype(np.float32), fs, h=h, neuropixel_version=version, k_filter=k_filter, channel_labels=labels)
    sos = scipy.signal.butter(N=3, Wn=300 / fs * 2, btype="highpass", output="sos")
    ref = scipy.signal.sosfiltfilt(sos, stripe)
    sl = slice(200, ns - 200)
    att = 20 * np.log10(np.sqrt(np.mean(y[:, sl] ** 2)) / np.sqrt(np.mean(ref[:, sl] ** 2)) + 1e-30)
    if labels is not None:
        # worst channel, repaired ones included: an interpolated channel must carry the whole stripe for the referencing to remove it
        per = 20 * np.log10(np.sqrt(np.mean(y[:, sl] ** 2, axis=1)) / np.sqrt(np.mean(ref[:, sl] ** 2, axis=1)) + 1e-30)
        return float(per.max()), 1.0
    # local spike on 5 neighbouring channels
    spike = np.zeros((nc, ns))
    ch0 = int(rng.integers(40, 340))
    amp = np.array([0.3, 0.7, 1.0, 0.6, 0.25]) * -120e-6
    for i, a in enumerate(amp):
        spike[ch0 + i] = a * np.exp(-0.5 * ((t - t[ns // 2]) / 0.00025) ** 2)
    ys = V.destripe(spike.copy().astype(np.float32), fs, h=h, neuropixel_version=version, k_filter=k_filter)
    rs = scipy.signal.sosfiltfilt(sos, spike)
    keep = np.abs(ys[ch0 + 2]).max() / np.abs(rs[ch0 + 2]).max()
    return att, keep


@bounded(PROPERTY, "native_stripes", bound="synthetic band-limited stripes (800-3000 Hz) on 384 channels with NP1 / NP2 / NPultra delay tables x {k-filter, CAR}, 2 seeds (thorough 8): attenuation <= -40 dB, local spike keeps >= 90 % of its high-passed amplitude; "
         "car per group on 4 groupings x {median, average}; the same with 8 dead / noisy channels to repair on NP1 / NP2 / NP2.4 4-shank / NPultra (worst channel); AGC product on random data at scales 1 .. 1e-12 with a quiet stretch; label-3 rows excluded",
         clause="the dB / amplitude figures and the referencing laws natively")
def b_native(B):
    rng = np.random.default_rng(B.seed)
    bad = native_car(rng)
    B.case("car_groups", not bad, detail=bad[:5])
    for version in (1, 2, "NPultra"):
        for kf in (True, False):
            for s in range(2 if B.tier == "quick" else 8):
                att, keep = _stripe_case(rng, version, kf)
                B.case(("stripe", str(version), kf, s), att <= -40 and keep >= 0.9, detail={"attenuation_dB": round(float(att), 1), "spike_kept": round(float(keep), 3)})
    # stripes with dead / noisy channels to repair, on sparse and dense geometries, with and without the spatial filter's own gain control
    for version in (1, 2, "2.4x4", "NPultra"):
        labels = np.zeros(384)
        labels[rng.choice(np.arange(5, 379), 6, replace=False)] = [1, 1, 2, 1, 2, 1]
        labels[[120, 121]] = 1
        for kf in (False, True):
            att, _ = _stripe_case(rng, version, kf, labels=labels)
            B.case(("stripe_with_bad_channels", str(version), kf), att <= -40, detail={"worst_channel_attenuation_dB": round(float(att), 1)})
    # the spatial filter with its gain control switched off (lagc=0, as waveform extraction calls it, and lagc=None)
    r = replay_kfilt({}, "")
    B.case("kfilt_without_gain_control", not r["failed"], detail=r)
    bad = []
    for scale in (1.0, 1e-5, 1e-9, 1e-12):
        x = rng.standard_normal((20, 500)) * scale
        x[3] = 0
        x[7, 100:400] = 0            # a quiet stretch inside a live channel
        y, g = V.agc(x.copy(), wl=0.05, si=0.002)
        if not (np.allclose(y * g, x, rtol=1e-9, atol=1e-12 * scale) and np.all(y[3] == 0)):
            bad.append(("agc: data * gain != input", scale, float(np.abs(y * g - x).max() / scale)))
    B.case("agc_product", not bad, detail=bad)
    h = neuropixel.trace_header(version=1)
    xs = rng.standard_normal((384, 800)).astype(np.float32)
    labels = np.zeros(384)
    labels[-20:] = 3
    y1 = V.destripe(xs.copy(), 30000, h=h, channel_labels=labels)
    xs2 = xs.copy()
    xs2[-20:] *= 7.0
    y2 = V.destripe(xs2, 30000, h=h, channel_labels=labels)
    B.case("label3_excluded", bool(np.allclose(y1[:-20], y2[:-20], atol=1e-6)), detail="changing channels labelled outside the brain changed the others")


from pyvc.api import depends  # noqa: E402
depends(PROPERTY, "C08", ["adc_tables", "split_restriction"])      # "recorded with each channel's ADC sampling delay": the delay table destripe re-aligns with (trace_header -> adc_shifts), every channel of every generation; the header of one shank of a multi-shank probe (split_trace_header) carries each channel's own delay
depends(PROPERTY, "C15", ["interpolate_iteration"])      # destripe repairs dead / noisy channels before the spatial filter: only good or outside-brain channels are sources (a dead neighbour would carry no common signal)
