"""C08 - probe geometry is a consistent, jointly permuted description of the sites.

Functions under contract: spikeglx.geometry_from_meta, spikeglx._split_geometry_into_shanks, neuropixel.xy2rc, neuropixel.rc2xy,
neuropixel.split_trace_header, neuropixel.adc_shifts / dense_layout / trace_header (closed computations: exhaustive native
enumeration over the finite configuration space, reported as such).
"""
import os

import numpy as np
import z3

import neuropixel
import spikeglx
from pyvc.api import harness, bounded, property_meta, run_function
from pyvc.core import SV, term
from pyvc import arrays as A

PROPERTY = "C08"
property_meta(
    PROPERTY, level="other",
    trusted_base=["A-PY", "A-NP-INDEX", "A-REAL", "A-NP-SPEC lexsort (stable, last key primary), where",
                  "A-SGLX: entry j of snsShankMap / snsGeomMap describes saved channel j; geom-map x/y of a site with shank-map (col,row): "
                  "NP1 x=27+32col-16(row mod 2), y=20row; NP2 x=27+32col, y=15row (cross-checked natively on the shipped metas)",
                  "_map_channels_from_meta (regex parsing of the map string) is summarised by its contract: one value per site and key"],
    explanation="geometry_from_meta executed symbolically for every site table of symbolic length in both encodings and for split shanks: the sort is a bijection that "
                "moves every key together, ordered by (shank,row,-col); rc<->xy inverse on the three grids; encodings agree; split = restriction. ADC tables / dense layouts: "
                "exhaustive native enumeration of the finite configuration space (complete, but enumeration not proof). Level 'other' because of the one known finding "
                "(ADC delays of non-prefix channel subsets) and the enumeration part.")

KEYS_RC = ("shank", "col", "row", "flag")
KEYS_XY = ("shank", "x", "y", "flag")
VERSIONS = {"3B2": ({"imDatPrb_type": 0.0, "imDatPrb_port": 1.0, "imDatPrb_slot": 2.0}, 1),
            "NP2.1": ({"imDatPrb_type": 21.0}, 2), "NP2.4": ({"imDatPrb_type": 24.0}, 2.4), "NPultra": ({"imDatPrb_type": 1100.0}, "NPultra")}


def mk_cm(it, n, keys):
    cm = {k: A.fresh_array("cm_" + k, "float32", (n,)) for k in keys}
    return cm


def run_geometry(it, vkey, cm, sort, extra_meta=None):
    md = dict(VERSIONS[vkey][0])
    md["typeThis"] = "imec"
    md["snsShankMap" if "col" in cm else "snsGeomMap"] = "<map>"
    if extra_meta:
        md.update(extra_meta)
    it.session.contracts[spikeglx._map_channels_from_meta] = lambda it_, a, k: {k_: v.copy() for k_, v in cm.items()}
    return run_function(it, spikeglx.geometry_from_meta, [md], {"return_index": True, "sort": sort})


def replay_geom(vals, oid):
    bad = native_geometry(np.random.default_rng(5), 4)
    return {"failed": bool(bad), "examples": bad[:3]}


@harness(PROPERTY, "joint_permutation", functions=["spikeglx:geometry_from_meta", "spikeglx:_split_geometry_into_shanks", "neuropixel:rc2xy", "neuropixel:xy2rc"],
         replay=replay_geom, clause="sorting is a true permutation ordered by shank, row, descending column that moves every per-site attribute together")
def h_perm(H):
    for vkey in VERSIONS:
        for enc in ("rc", "xy"):
            S = H.session(f"geom.{vkey}.{enc}")

            def body(it, vkey=vkey, enc=enc):
                n = z3.Int("n")
                it.ctx.assume(z3.And(n >= 1, n <= 384))
                cm = mk_cm(it, n, KEYS_RC if enc == "rc" else KEYS_XY)
                un, ind_un = run_geometry(it, vkey, cm, False)
                so, inds = run_geometry(it, vkey, cm, True)
                tag = f"{vkey}.{enc}"
                i, i2, j = z3.Ints("i i2 j")
                slog = getattr(it.ctx, "sort_log", [])
                # witness of "each site listed once": the inverse permutation of the sort specification; if the code did not sort at all the
                # only candidate is the identity (and the ordering obligation below decides whether leaving the table as it is was right)
                pinv = slog[-1]["inv"] if slog else (lambda q: q)
                it.ctx.oblige(f"keys.{tag}", z3.BoolVal(set(so) == set(un) and {"x", "y", "row", "col", "shank", "adc", "sample_shift", "ind"} <= set(so)), "post")
                it.ctx.oblige(f"unsorted_identity.{tag}", z3.And(A.T(ind_un.shape[0]) == n, A.forall([i], lambda: z3.Implies(z3.And(i >= 0, i < n), ind_un.read((i,)) == i))), "post")
                it.ctx.oblige(f"perm.range.{tag}", z3.And(A.T(inds.shape[0]) == n, A.forall([i], lambda: z3.Implies(z3.And(i >= 0, i < n), z3.And(inds.read((i,)) >= 0, inds.read((i,)) < n)))), "post")
                it.ctx.oblige(f"perm.onto.{tag}", A.forall([j], lambda: z3.Implies(z3.And(j >= 0, j < n), z3.And(pinv(j) >= 0, pinv(j) < n, inds.read((pinv(j),)) == j))), "post",
                              "each recorded site is listed once (witness: inverse permutation)")
                it.ctx.oblige(f"perm.injective.{tag}", A.forall([i, i2], lambda: z3.Implies(z3.And(i >= 0, i < i2, i2 < n), inds.read((i,)) != inds.read((i2,)))), "post")
                for key in sorted(so):
                    it.ctx.oblige(f"joint.{key}.{tag}", z3.And(A.T(so[key].shape[0]) == n, A.forall([i], lambda key=key: z3.Implies(z3.And(i >= 0, i < n), so[key].read((i,)) == un[key].read((inds.read((i,)),))))), "post",
                                  f"attribute '{key}' moves with the permutation", assume=False)

                def le(a_, b_):
                    sa, ra, ca = so["shank"].read((a_,)), so["row"].read((a_,)), so["col"].read((a_,))
                    sb, rb, cb = so["shank"].read((b_,)), so["row"].read((b_,)), so["col"].read((b_,))
                    return z3.Or(sa < sb, z3.And(sa == sb, z3.Or(ra < rb, z3.And(ra == rb, ca >= cb))))
                it.ctx.oblige(f"order.{tag}", A.forall([i, i2], lambda: z3.Implies(z3.And(i >= 0, i < i2, i2 < n), le(i, i2))), "post", "ordered by shank, then row, then descending column")
                it.ctx.oblige(f"ind_is_original.{tag}", A.forall([i], lambda: z3.Implies(z3.And(i >= 0, i < n), so["ind"].read((i,)) == inds.read((i,)))), "post", "'ind' is the on-disk channel of entry i")
            S.explore(body)


@harness(PROPERTY, "rc_xy_inverse", functions=["neuropixel:rc2xy", "neuropixel:xy2rc"], clause="row/column and x/y are exact inverses on the probe grid")
def h_rcxy(H):
    S = H.session("rcxy")

    def body(it):
        n = z3.Int("n")
        it.ctx.assume(n >= 1)
        row = A.fresh_array("row", "float64", (n,))
        col = A.fresh_array("col", "float64", (n,))
        i = z3.Int("i")
        for v in (1, 2, 2.4, "NPultra"):
            xy = run_function(it, neuropixel.rc2xy, [row, col], {"version": v})
            rc = run_function(it, neuropixel.xy2rc, [xy["x"], xy["y"]], {"version": v})
            it.ctx.oblige(f"rc_xy_rc.{v}", A.forall([i], lambda: z3.Implies(z3.And(i >= 0, i < n), z3.And(rc["row"].read((i,)) == row.read((i,)), rc["col"].read((i,)) == col.read((i,))))), "post")
            rc2 = run_function(it, neuropixel.xy2rc, [row, col], {"version": v})
            xy2 = run_function(it, neuropixel.rc2xy, [rc2["row"], rc2["col"]], {"version": v})
            it.ctx.oblige(f"xy_rc_xy.{v}", A.forall([i], lambda: z3.Implies(z3.And(i >= 0, i < n), z3.And(xy2["x"].read((i,)) == row.read((i,)), xy2["y"].read((i,)) == col.read((i,))))), "post")
            g = neuropixel.CHANNEL_GRID[np.floor(v) if not isinstance(v, str) else v]
            it.ctx.oblige(f"grid_def.{v}", A.forall([i], lambda: z3.Implies(z3.And(i >= 0, i < n), z3.And(xy["x"].read((i,)) == col.read((i,)) * g["DX"] + g["X0"], xy["y"].read((i,)) == row.read((i,)) * g["DY"] + g["Y0"]))), "post")
    S.explore(body)
    # grid constants are part of the property ("exact inverses on the probe grid"): pinned against the documented site pitches
    H.lemma("grid.constants", [], z3.BoolVal(neuropixel.CHANNEL_GRID == {1: dict(DX=16, X0=11, DY=20, Y0=20), 2: dict(DX=32, X0=27, DY=15, Y0=20), "NPultra": dict(DX=6, X0=0, DY=6, Y0=0)}))


@harness(PROPERTY, "encodings_agree", functions=["spikeglx:geometry_from_meta"], clause="the two metadata encodings of a site table (shank map and geometry map) give the same geometry")
def h_enc(H):
    for vkey in ("3B2", "NP2.1", "NP2.4"):
        S = H.session(f"enc.{vkey}")

        def body(it, vkey=vkey):
            n = z3.Int("n")
            it.ctx.assume(z3.And(n >= 1, n <= 384))
            cm = mk_cm(it, n, KEYS_RC)
            s_col, s_row = cm["col"].snapshot(), cm["row"].snapshot()
            it.ctx.assume(z3.ForAll([z3.Int("q")], z3.And(z3.IsInt(s_row((z3.Int("q"),))), s_row((z3.Int("q"),)) >= 0)))
            if vkey == "3B2":
                rmod2 = lambda r: r - z3.ToReal(z3.ToInt(r / 2)) * 2     # row mod 2 (row is a non negative integer)  # noqa
                gx = lambda i: 27 + 32 * s_col((i,)) - 16 * rmod2(s_row((i,)))    # noqa
                gy = lambda i: 20 * s_row((i,))    # noqa
            else:
                gx = lambda i: 27 + 32 * s_col((i,))    # noqa
                gy = lambda i: 15 * s_row((i,))    # noqa
            cmx = {"shank": cm["shank"], "flag": cm["flag"], "x": A.SArr(np.float32, (n,), lambda idx: gx(idx[0])), "y": A.SArr(np.float32, (n,), lambda idx: gy(idx[0]))}
            a, _ = run_geometry(it, vkey, cm, False)
            b, _ = run_geometry(it, vkey, cmx, False)
            i = z3.Int("i")
            for key in ("x", "y", "row", "col", "shank", "adc", "sample_shift", "ind"):
                it.ctx.oblige(f"agree.{key}.{vkey}", A.forall([i], lambda key=key: z3.Implies(z3.And(i >= 0, i < n), a[key].read((i,)) == b[key].read((i,)))), "post", assume=False)
        S.explore(body)


def replay_split(vals, oid):
    """native: the canonical 4-shank header split shank by shank against the parent's rows of that shank"""
    bad = []
    for ver in (2, 2.4):
        h = neuropixel.trace_header(version=ver, nshank=4)
        for sh in range(4):
            hs = neuropixel.split_trace_header(h, shank=sh)
            sel = h["shank"] == sh
            for k in h:
                if k not in hs or not np.array_equal(np.asarray(hs[k]), np.asarray(h[k])[sel]):
                    bad.append({"version": ver, "shank": sh, "key": k, "first_rows_returned": np.asarray(hs.get(k, []))[:4].tolist(), "parent_rows": np.asarray(h[k])[sel][:4].tolist()})
    return {"failed": bool(bad), "cases": bad[:4]}


@harness(PROPERTY, "split_restriction", functions=["spikeglx:_split_geometry_into_shanks", "neuropixel:split_trace_header", "spikeglx:geometry_from_meta"], replay=replay_split,
         clause="a split shank's geometry is the restriction of its parent's")
def h_split(H):
    S = H.session("split")

    def body(it):
        n = z3.Int("n")
        it.ctx.assume(z3.And(n >= 1, n <= 384))
        for sh in (0, 3):
            cm = mk_cm(it, n, KEYS_RC)
            parent, _ = run_geometry(it, "NP2.4", cm, False)
            child, _ = run_geometry(it, "NP2.4", cm, False, {"NP2.4_shank": float(sh)})
            w = [x for x in it.ctx.where_log if x["ndim"] == 1][-1]
            m, wf = w["count"], w["rows"]
            i = z3.Int("i")
            it.ctx.oblige(f"split.where_is_shank.{sh}", A.forall([i], lambda: z3.Implies(z3.And(i >= 0, i < n), w["mask"]((i,)) == (parent["shank"].read((i,)) == sh))), "post")
            for key in sorted(child):
                if key == "ind":
                    continue
                it.ctx.oblige(f"split.restriction.{key}.{sh}", z3.And(A.T(child[key].shape[0]) == m, A.forall([i], lambda key=key: z3.Implies(z3.And(i >= 0, i < m), child[key].read((i,)) == parent[key].read((wf(i),))))), "post",
                              f"'{key}' of the split shank equals the parent's on that shank's sites, order preserved", assume=False)
            h = run_function(it, neuropixel.split_trace_header, [parent], {"shank": sh})
            w2 = [x for x in it.ctx.where_log if x["ndim"] == 1][-1]
            for key in sorted(h):
                it.ctx.oblige(f"split_trace_header.{key}.{sh}", z3.And(A.T(h[key].shape[0]) == w2["count"], A.forall([i], lambda key=key: z3.Implies(z3.And(i >= 0, i < w2["count"]), z3.And(h[key].read((i,)) == parent[key].read((w2["rows"](i),)), w2["mask"]((w2["rows"](i),)))))), "post", assume=False)
    S.explore(body)


# ----------------------------------------------------------------------------- exhaustive enumeration + bounded
FIX = os.path.join(os.path.dirname(spikeglx.__file__), "tests", "fixtures")


def adc_spec(version, nc):
    A_, cyc = (12, 13) if version in (1, "NPultra") else (16, 16)
    ch = np.arange(384)
    adc = 2 * (ch // (2 * A_)) + ch % 2
    shift = ((ch // 2) % A_) / cyc
    return shift[:nc], adc[:nc]


def native_geometry(rng, n):
    bad = []
    grids = {"3B2": (1, 4, 480), "NP2.1": (2, 2, 1280), "NP2.4": (2.4, 2, 720)}      # rows beyond the physical 640 too: five-digit y in the geometry map
    for t in range(n):
        for vkey, (ver, ncol, nrow) in grids.items():
            nsites = int(rng.choice([384, 300, 96, 1, 2, 5]))           # incl. a handful of saved sites (they need not reach both outer columns)
            nsh = 4 if vkey == "NP2.4" else 1
            sites = set()
            while len(sites) < nsites:
                sites.add((int(rng.integers(0, nsh)), int(rng.integers(0, ncol)), int(rng.integers(0, nrow))))
            sites = list(sites)
            rng.shuffle(sites)
            if vkey == "3B2":    # NP1 checkerboard: shank-map col 0/1, the flip uses row parity
                sites = [(s, c % 2, r) for s, c, r in sites]
                sites = list(dict.fromkeys(sites))
                if t % 3 == 2:
                    sites = [q for q in sites if q[2] % 2 == 0] or sites[:1]        # even rows only: one side of the checkerboard
            smap = f"({nsh},{ncol},{nrow})" + "".join(f"({s}:{c}:{r}:1)" for s, c, r in sites)
            if vkey == "3B2":
                gmap = "(NP1,1,0,70)" + "".join(f"({s}:{27 + 32 * c - 16 * (r % 2)}:{20 * r}:1)" for s, c, r in sites)
            else:
                gmap = f"(NP2,{nsh},250,70)" + "".join(f"({s}:{27 + 32 * c}:{15 * r}:1)" for s, c, r in sites)
            base = dict(VERSIONS[vkey][0], typeThis="imec")
            for sort in (True, False):
                g1, i1 = spikeglx.geometry_from_meta(dict(base, snsShankMap=smap), return_index=True, sort=sort)
                g2, i2 = spikeglx.geometry_from_meta(dict(base, snsGeomMap=gmap), return_index=True, sort=sort)
                g1b, _ = spikeglx.geometry_from_meta(dict(base, snsGeomMap=gmap), return_index=True, sort=sort)   # second derivation from the same map
                if sorted(i1.tolist()) != list(range(len(sites))):
                    bad.append((vkey, "not a permutation"))
                if not (np.array_equal(g1["ind"], i1) and np.array_equal(g2["ind"], i2)):
                    bad.append((vkey, sort, "'ind' is not the on-disk position of each listed site (the returned index)", g1["ind"][:6].tolist(), i1[:6].tolist()))
                for k in ("x", "y", "row", "col", "shank", "adc", "sample_shift"):
                    if not np.array_equal(g1[k], g2[k]):
                        bad.append((vkey, sort, "encodings differ", k))
                    if not np.array_equal(g2[k], g1b[k]):
                        bad.append((vkey, sort, "second derivation differs", k))
                rc = neuropixel.xy2rc(g1["x"], g1["y"], version=ver)
                if not (np.array_equal(rc["row"], g1["row"]) and np.array_equal(rc["col"], g1["col"])):
                    bad.append((vkey, "rc/xy not inverse"))
                if sort:
                    key = np.lexsort((-g1["col"], g1["row"], g1["shank"]))
                    if not np.array_equal(key, np.arange(key.size)):
                        bad.append((vkey, "order"))
                if vkey == "NP2.4":
                    for sh in range(4):
                        gs = spikeglx.geometry_from_meta(dict(base, snsShankMap=smap, **{"NP2.4_shank": float(sh)}), sort=sort)
                        sel = g1["shank"] == sh
                        for k in ("x", "y", "row", "col", "adc", "sample_shift"):
                            if not np.array_equal(gs[k], g1[k][sel]):
                                bad.append((vkey, sort, "split != restriction", k, sh))
    return bad


def _adc_history(v):
    """tables handed out are edited in place by the caller, then asked for again (directly and through trace_header)"""
    bad = []
    ws, wa = adc_spec(1 if v in (1, "NPultra") else 2, 384)
    for how in ("adc_shifts", "trace_header"):
        if how == "adc_shifts":
            s_, a_ = neuropixel.adc_shifts(version=v)
        else:
            h = neuropixel.trace_header(version=v)
            s_, a_ = h["sample_shift"], h["adc"]
        try:
            s_ /= 30000.0
            a_ += 24
        except (ValueError, TypeError):
            continue           # read-only tables cannot be edited at all
        s2, a2 = neuropixel.adc_shifts(version=v)
        h2 = neuropixel.trace_header(version=v)
        if not (np.array_equal(s2, ws) and np.array_equal(a2, wa) and np.array_equal(h2["sample_shift"], ws) and np.array_equal(h2["adc"], wa)):
            bad.append({"version": str(v), "tables_edited_in_place_were_those_of": how, "next_call_returns_the_edited_values": True})
    return bad


def replay_adc(vals, oid):
    bad = []
    for v in (1, 2, 2.1, 2.4, "NPultra"):
        bad += _adc_history(v)
    for tv, gen in ((np.int64(2), 2), (np.int32(2), 2), (np.float32(2.4), 2), (np.int64(1), 1)):
        s_, a_ = neuropixel.adc_shifts(version=tv)
        ws, wa = adc_spec(gen, 384)
        if not (np.array_equal(s_, ws) and np.array_equal(a_, wa)):
            bad.append({"version": f"{type(tv).__name__}({tv})", "table_of_another_generation": True, "delay_of_channel_2": float(s_[2]), "expected": float(ws[2])})
    for v in (1, 2, 2.1, 2.4, "NPultra"):
        s_, a_ = neuropixel.adc_shifts(version=v)
        ws, wa = adc_spec(1 if v in (1, "NPultra") else 2, 384)
        if np.shape(s_) != (384,) or not np.array_equal(s_, ws) or not np.array_equal(a_, wa):
            d = np.flatnonzero(np.asarray(s_)[:384] != ws[:len(s_)]) if len(s_) else np.array([], int)
            bad.append({"version": str(v), "channels_with_another_delay": d[:8].tolist(), "delay_returned": [float(x) for x in np.asarray(s_)[d[:3]]], "delay_expected": [float(x) for x in ws[d[:3]]]})
    return {"failed": bool(bad), "cases": bad[:3]}


@harness(PROPERTY, "adc_tables", functions=["neuropixel:adc_shifts"], replay=replay_adc,
         clause="ADC groups / delays: channel ch is served by ADC 2*(ch // 2A) + ch % 2 at cycle (ch // 2) % A of C (A, C = 12, 13 for 1.0 / Ultra; 16, 16 for 2.x); complete: the function's whole domain is enumerated")
def h_adc(H):
    """closed computation over a finite domain (5 version values x nc in 1..384): decided by exhaustive evaluation of the real function against the
    per-channel formula - complete, no solver involved; stated as obligations so that the properties that rest on the delay tables re-check it"""
    S = H.session("adc_tables")

    def body(it):
        it.session.note_function(neuropixel.adc_shifts)
        # the generation number as callers hold it: python numbers, the string, and the same numbers in NumPy scalars (a value read from an array or a table column)
        typed = [(np.int64(1), 1), (np.int32(2), 2), (np.int64(2), 2), (np.float64(2.1), 2), (np.float32(2.4), 2), (np.float64(2.4), 2), (np.float32(1.0), 1)]
        for tv, gen in typed:
            try:
                s_, a_ = neuropixel.adc_shifts(version=tv)
                ws, wa = adc_spec(gen, 384)
                okt = np.array_equal(s_, ws) and np.array_equal(a_, wa)
            except Exception:
                okt = False
            it.ctx.oblige(f"adc.table.{type(tv).__name__}({tv})", z3.BoolVal(bool(okt)), "post", "the table of the probe generation whatever numeric type holds the generation number")
        for v in (1, 2, 2.1, 2.4, "NPultra"):
            ok, why = True, ""
            for nc in range(1, 385):
                try:
                    s_, a_ = neuropixel.adc_shifts(version=v, nc=nc)
                except Exception as e:
                    ok, why = False, f"nc={nc}: raised {e!r}"[:160]
                    break
                ws, wa = adc_spec(1 if v in (1, "NPultra") else 2, nc)
                if not (np.shape(s_) == (nc,) and np.shape(a_) == (nc,) and np.array_equal(s_, ws) and np.array_equal(a_, wa)):
                    bad_ch = int(np.flatnonzero(np.asarray(s_)[:nc] != ws[:len(s_)])[0]) if np.shape(s_) == (nc,) and np.any(np.asarray(s_) != ws) else -1
                    ok, why = False, f"nc={nc}: table differs from the per-channel formula (first channel with another delay: {bad_ch})"
                    break
            it.ctx.oblige(f"adc.table.{v}", z3.BoolVal(ok), "post", "sample_shift[ch] == ((ch // 2) % A) / C and adc[ch] == 2*(ch // 2A) + ch % 2 for every ch < nc, every nc in 1..384" + (": " + why if why else ""))
            it.ctx.oblige(f"adc.table_is_the_callers_own.{v}", z3.BoolVal(not _adc_history(v)), "post",
                          "consistent description whatever was asked before: what a caller does to the tables it was handed (in-place unit conversion, renumbering) is not seen by the next header")
    S.explore(body)


def _default_layout_cases():
    """metadata without a site map: geometry_from_meta falls back on the canonical layout of the probe generation. Finite domain: generation x sort x nc"""
    bad = []
    for vkey, (fields, major) in VERSIONS.items():
        base = dict(fields, typeThis="imec")
        want = neuropixel.trace_header(version=major)
        for sort in (True, False):
            try:
                th, inds = spikeglx.geometry_from_meta(dict(base), return_index=True, sort=sort)
                th2 = spikeglx.geometry_from_meta(dict(base), sort=sort)
            except Exception as e:
                bad.append({"probe": vkey, "sort": sort, "raised": repr(e)[:120]})
                continue
            inds = np.asarray(inds)
            n = want["x"].size
            ok_perm = inds.shape == (n,) and np.array_equal(np.sort(inds), np.arange(n))
            keys = [k for k in want if k != "flag"]
            ok_joint = ok_perm and all(k in th and np.array_equal(np.asarray(th[k]), np.asarray(want[k])[inds]) for k in keys)
            ok_same = all(k in th2 and np.array_equal(np.asarray(th2[k]), np.asarray(th[k])) for k in keys)
            if not (ok_perm and ok_joint and ok_same):
                first = next((k for k in keys if k not in th or not ok_perm or not np.array_equal(np.asarray(th[k]), np.asarray(want[k])[inds])), None)
                bad.append({"probe": vkey, "sort": sort, "index_is_a_permutation": bool(ok_perm), "entry_i_describes_channel_index_i": bool(ok_joint), "first_key_out_of_step": first,
                            "with_and_without_index_agree": bool(ok_same)})
    # no probe generation in the record either: nothing to return
    try:
        r = spikeglx.geometry_from_meta({"typeThis": "nidq"}, return_index=True)
        if r != (None, None) or spikeglx.geometry_from_meta({"typeThis": "nidq"}) is not None:
            bad.append({"probe": None, "returned": repr(r)[:80]})
    except Exception as e:
        bad.append({"probe": None, "raised": repr(e)[:120]})
    return bad


@harness(PROPERTY, "default_layout", functions=["spikeglx:geometry_from_meta (branch taken when the record has no site map)"],
         replay=lambda vals, oid: (lambda b: {"failed": bool(b), "cases": b[:4]})(_default_layout_cases()),
         clause="jointly permuted description of the sites, also when the metadata carries no site map: entry i of every key describes the channel the returned index names at i "
                "(canonical layout of the probe generation, any consistent order); complete: the branch's whole domain (probe generation x sort flag) is enumerated")
def h_default_layout(H):
    """closed computation over a finite domain: decided by exhaustive evaluation of the real function, stated as obligations so that C01 (which stores the index as the reader's
    channel order) re-checks it"""
    S = H.session("default_layout")

    def body(it):
        it.session.note_function(spikeglx.geometry_from_meta)
        bad = _default_layout_cases()
        for vkey in list(VERSIONS) + [None]:
            for sort in ((True, False) if vkey else (None,)):
                mine = [b for b in bad if b.get("probe") == vkey and b.get("sort", None) == sort]
                it.ctx.oblige(f"default_layout.{vkey}.sort{sort}", z3.BoolVal(not mine), "post",
                              "every key of the returned header == the canonical header taken at the returned index; the index is a permutation; same header with and without return_index"
                              + (": " + repr(mine[0])[:200] if mine else ""))
    S.explore(body)


@bounded(PROPERTY, "native_geometry_and_tables", bound="EXHAUSTIVE: adc_shifts for versions {1,2,2.4,NPultra} x nc in 1..384, dense_layout for versions {1,2,2.1,2.4,NPultra} x {1,4} shanks against a per-channel description, trace_header for 5 configurations; "
         "BOUNDED: 6 (thorough 60) random site selections per probe family in both encodings, sorted/unsorted, split shanks, derived twice; shipped new/old encoding pair; "
         "channel subset 10:105 (known finding)",
         clause="ADC groups / delays, canonical layouts, encodings on real map strings")
def b_native(B):
    for v in (1, 2, 2.4, "NPultra"):
        ok = True
        for nc in range(1, 385):
            s, a = neuropixel.adc_shifts(version=v, nc=nc)
            ws, wa = adc_spec(v, nc)
            ok = ok and np.array_equal(s, ws) and np.array_equal(a, wa)
        full_s, full_a = neuropixel.adc_shifts(version=v)
        for g in np.unique(full_a):
            d = np.sort(full_s[full_a == g])
            ok = ok and len(np.unique(d)) == d.size and np.allclose(np.diff(d), d[1] - d[0])
        B.case(("adc_shifts", str(v)), bool(ok), detail="adc table differs from 2*floor(ch/2A)+ch%2 / ((ch//2)%A)/cycles, or delays within an ADC not distinct and evenly spaced")
    for v, nsh in ((1, 1), (2, 1), (2, 4), (2.4, 4), ("NPultra", 1)):
        h = neuropixel.trace_header(version=v, nshank=nsh)
        ok = all(len(h[k]) == 384 for k in h) and len({(s, r, c) for s, r, c in zip(h["shank"], h["row"], h["col"])}) == 384
        xy = neuropixel.rc2xy(h["row"], h["col"], version=v)
        ok = ok and np.array_equal(xy["x"], h["x"]) and np.array_equal(xy["y"], h["y"])
        ws, wa = adc_spec(1 if v in (1, "NPultra") else 2, 384)
        ok = ok and np.array_equal(h["sample_shift"], ws) and np.array_equal(h["adc"], wa)
        B.case(("trace_header", str(v), nsh), bool(ok), detail="canonical layout: sites not distinct / x,y not on grid / adc table")
    # the canonical layouts against an independent per-channel description, for every version x shank-count combination
    def layout_spec(v, nsh):
        ch = np.arange(384)
        if v == 1:
            return np.zeros(384), ch // 2, np.array([2, 0, 3, 1])[ch % 4]
        if v == "NPultra":
            return np.zeros(384), ch // 8, ch % 8
        if nsh == 4:        # blocks of 48 channels alternate between two shanks and between the lower / upper 24 rows
            blk = ch // 48
            return np.array([0, 1, 0, 1, 2, 3, 2, 3])[blk], (ch % 48) // 2 + 24 * np.array([0, 0, 1, 1, 0, 0, 1, 1])[blk], ch % 2
        return np.zeros(384), ch // 2, ch % 2
    for v in (1, 2, 2.1, 2.4, "NPultra"):
        for nsh in (1, 4):
            h = neuropixel.dense_layout(version=v, nshank=nsh)
            ws, wr, wc = layout_spec(v, nsh)
            ok = np.array_equal(h["shank"], ws) and np.array_equal(h["row"], wr) and np.array_equal(h["col"], wc) and np.array_equal(h["ind"], np.arange(384))
            B.case(("dense_layout", str(v), nsh), bool(ok), detail="shank / row / col of the canonical layout differ from the per-channel description (single shank: row ch//2, col ch%2; four shanks: blocks of 48)")
    rng = np.random.default_rng(B.seed)
    try:
        bad = native_geometry(rng, 2 if B.tier == "quick" else 20)
    except (IndexError, ValueError, KeyError) as e:     # tables of the wrong shape / a derivation that raises on a valid map
        bad = [("derivation raised or returned tables of inconsistent shape", repr(e)[:200])]
    B.case("random_site_tables", not bad, detail=bad[:5])
    # shipped pair: same probe in old (shank map) and 2023-04 (geometry map) encodings
    hnew = spikeglx.read_geometry(os.path.join(FIX, "sample3B_version202304.ap.meta"))
    href = spikeglx.read_geometry(os.path.join(FIX, "sample3A_g0_t0.imec.ap.meta"))
    B.case("shipped_encoding_pair", all(np.array_equal(hnew[k], href[k]) for k in href if k != "flag"), detail="2023-04 geometry-map file vs shank-map file")
    # F-C08-1: delays must follow the original channel number
    smap = "(1,2,480)" + "".join(f"(0:{c % 2}:{c // 2}:1)" for c in range(10, 106))
    md = dict(VERSIONS["3B2"][0], typeThis="imec", snsShankMap=smap, snsSaveChanSubset="10:105,768")
    g = spikeglx.geometry_from_meta(md, sort=False)
    ws, wa = adc_spec(1, 384)
    B.case("subset_10_105", np.array_equal(g["sample_shift"], ws[10:106]) and np.array_equal(g["adc"], wa[10:106]),
           detail=f"entry 0 is original channel 10: expected delay {ws[10]:.4f}, got {g['sample_shift'][0]:.4f}", inputs={"kind": "nonprefix_subset"})
