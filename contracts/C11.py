"""C11 - truncated or inconsistent files open and expose exactly the complete samples.

Functions under contract (spikeglx.py): Reader.open (flat and mtscomp branches), Reader.ns, Reader.rl,
Reader.shape, Reader.fs, Reader.nc, OnlineReader.ns (+ the helpers _get_fs_from_meta,
_get_nchannels_from_meta, unfolded).
"""
import os
import tempfile

import numpy as np
import z3

import spikeglx
from pyvc.api import harness, bounded, property_meta, run_function
from pyvc.core import SV, term
from pyvc import arrays as A, fsmodel
from pyvc.interp import SObj, PyRaise

PROPERTY = "C11"
property_meta(
    PROPERTY, level="proof",
    trusted_base=["A-PY", "A-FS (np.memmap(file, shape): element [n,c] is item n*nc+c of the file, raises when the mapping exceeds the file)",
                  "A-REAL (sizes / rates / durations as real arithmetic; the binary64 round trip ns -> fileTimeSecs -> ns is checked natively in the bounded stand-in, not proved)",
                  "A-MTSCOMP (mtscomp.Reader.shape[0] is the number of samples stored in the compressed stream)"],
    explanation="Reader.open / ns / rl / shape and OnlineReader.ns executed symbolically for every file size, channel count, item size, sampling rate and "
                "announced duration; post-conditions: memmap fits (no raise), ns == floor(bytes/(nc*itemsize)), prefix values, rl == ns/fs.")


def sym_reader(it, cls, suffix, itemsize, online=False):
    fs_ = fsmodel.GhostFS()
    it.session.ghost_fs = fs_
    nbytes, nc = z3.Ints("nbytes nc")
    rate, ftsec = z3.Reals("fs fileTimeSecs")
    it.ctx.assume(z3.And(nc >= 1, nbytes >= nc * itemsize, rate > 0, ftsec >= 0))
    path = fsmodel.GhostPath(fs_, ("data",), "rec.imec0.ap" + suffix)
    fs_.exists[path.key] = True
    fs_.size[path.key] = SV(nbytes)
    meta = {"typeThis": "imec", "imSampRate": SV(rate), "nSavedChans": SV(nc), "fileTimeSecs": SV(ftsec),
            "fileSizeBytes": SV(z3.Int("fileSizeBytes"))}
    dtype = np.dtype("int16") if itemsize == 2 else np.dtype("float32")
    cached = SV(nbytes)
    if online:
        # the size cached by __init__ may be stale: the recording has grown since (file sizes only grow while acquiring)
        n0 = z3.Int("nbytes_at_init")
        it.ctx.assume(z3.And(n0 >= 0, n0 <= nbytes))
        cached = SV(n0)
    obj = SObj(cls, file_bin=path, nbytes=cached, dtype=dtype, meta=meta, ignore_warnings=SV(z3.Bool("ignore_warnings")), ch_file=None, _raw=None)
    return obj, nbytes, nc, rate, ftsec


def _mkfile(nbytes, nc, fs, claimed_ns, itemsize, cls):
    """real files for replay: `nbytes` bytes, metadata claiming claimed_ns samples"""
    d = tempfile.mkdtemp(prefix="c11_")
    b = os.path.join(d, "rec.imec0.ap.bin")
    rng = np.random.default_rng(nbytes)
    raw = rng.integers(0, 256, size=nbytes, dtype=np.uint8)
    raw.tofile(b)
    nap = nc - 1 if nc >= 2 else nc
    with open(os.path.join(d, "rec.imec0.ap.meta"), "w") as f:
        imro = "(0,384)" + "".join(f"({i} 0 0 500 250 1)" for i in range(max(nap, 1)))
        shank = f"(1,2,480)" + "".join(f"(0:{i % 2}:{i // 2}:1)" for i in range(max(nap, 0)))
        f.write(f"typeThis=imec\nimSampRate={fs}\nnSavedChans={nc}\nfileTimeSecs={claimed_ns / fs:.10f}\n"
                f"fileSizeBytes={claimed_ns * nc * itemsize}\nsnsApLfSy={nap},0,{nc - nap}\nimDatPrb_type=0\nimAiRangeMax=0.6\nimAiRangeMin=-0.6\n"
                f"~imroTbl={imro}\n~snsShankMap={shank}\nimDatPrb_port=1\nimDatPrb_slot=2\n")
    return d, b, raw


def replay_open(vals, oid, cls=None, itemsize=2):
    import shutil
    nbytes, nc = int(vals["nbytes"]), int(vals["nc"])
    fs = float(vals.get("fs", 30000.0)) or 30000.0
    ft = float(vals.get("fileTimeSecs", 0.0))
    claimed = int(round(ft * fs))
    d, b, raw = _mkfile(nbytes, nc, fs, claimed, itemsize, cls)
    out = {"inputs": {"nbytes": nbytes, "nc": nc, "fs": fs, "claimed_ns": claimed, "itemsize": itemsize}}
    try:
        kls = cls or spikeglx.Reader
        iw = vals.get("ignore_warnings", True)
        iw = True if not isinstance(iw, bool) else iw
        out["inputs"]["ignore_warnings"] = iw
        entry = (b[:-3] + "meta") if vals.get("open_through_the_meta_file") else b          # the metadata file is a documented entry point of the reader
        out["inputs"]["open_through_the_meta_file"] = bool(vals.get("open_through_the_meta_file"))
        sr = kls(entry, ignore_warnings=iw, dtype="int16" if itemsize == 2 else "float32")
        want = nbytes // (nc * itemsize)
        out["ns"], out["expected_ns"] = sr.ns, want
        ok = sr.ns == want and sr._raw.shape == (want, nc)
        if ok and want:
            view = np.frombuffer(raw.tobytes()[: want * nc * itemsize], dtype=sr.dtype).reshape(want, nc)
            ok = bool(np.array_equal(np.asarray(sr._raw), view, equal_nan=True)) if itemsize == 4 else bool(np.array_equal(np.asarray(sr._raw), view))
            ok = ok and abs(sr.rl - sr.ns / sr.fs) < 1e-9
        out["failed"] = not ok
        sr.close()
    except Exception as e:
        out["raised"] = repr(e)
        out["failed"] = True
    finally:
        shutil.rmtree(d, ignore_errors=True)
    return out


def _open_harness(H, itemsize):
    S = H.session(f"open.flat{itemsize}")

    def body(it):
        obj, nbytes, nc, rate, ftsec = sym_reader(it, spikeglx.Reader, ".bin", itemsize)
        H.input(nbytes=nbytes, nc=nc, fs=rate, fileTimeSecs=ftsec, ignore_warnings=z3.Bool("ignore_warnings"))
        run_function(it, spikeglx.Reader.open, [obj])
        ns = term(it.getattr(obj, "ns"))
        frame = nc * itemsize
        it.ctx.oblige("open.ns_eq_floor", z3.And(ns * frame <= nbytes, nbytes < (ns + 1) * frame), "post",
                      "exposed sample count == floor(bytes / (channels * bytes per sample))")
        raw = obj._raw
        it.ctx.oblige("open.raw_shape", z3.And(z3.BoolVal(raw.ndim == 2), A.T(raw.shape[0]) == ns, A.T(raw.shape[1]) == nc), "post")
        sh = it.getattr(obj, "shape")
        it.ctx.oblige("shape.eq", z3.And(term(sh[0]) == ns, term(sh[1]) == nc), "post")
        rl = term(it.getattr(obj, "rl"))
        it.ctx.oblige("rl.matches_ns", rl == z3.ToReal(ns) / rate, "post", "duration reported afterwards matches the exposed sample count")
        n, c = z3.Ints("n c")
        content = it.session.ghost_fs.content[obj.file_bin.key]
        it.ctx.oblige("lemma.mul_mono", z3.ForAll([n], z3.Implies(z3.And(n >= 0, n < ns), (ns - n - 1) * nc >= 0)), "lemma",
                      "product of non negatives (isolated non-linear step)")
        it.ctx.oblige("open.prefix_values", A.forall([n, c], lambda: z3.Implies(z3.And(n >= 0, n < ns, c >= 0, c < nc),
                                                                                z3.And(raw.read((n, c)) == content(n * nc + c), (n * nc + c + 1) * itemsize <= nbytes))),
                      "post", "values are the file's prefix and no element lies beyond the file")
    S.explore(body)
    H.cover("open.pre", [z3.Int("nc") >= 1, z3.Int("nbytes") >= z3.Int("nc") * itemsize])
    S2 = H.session(f"open.flat{itemsize}.size_cached_on_another_file")

    def body2(it):
        # a reader built on the compressed file and decompressed in place (or built with open=False on a file that was completed since): the size cached at
        # construction is not the size of the file now opened, and disagrees with what the metadata announce - the sample count comes from the file as it is
        obj, nbytes, nc, rate, ftsec = sym_reader(it, spikeglx.Reader, ".bin", itemsize)
        c0 = z3.Int("bytes_cached_at_construction")
        it.ctx.assume(c0 >= 0)
        obj.attrs["nbytes"] = SV(c0)
        ns0 = term(it.getattr(obj, "ns"))
        it.ctx.assume(nc * ns0 * itemsize != c0)
        H.input(nbytes=nbytes, nc=nc, fs=rate, fileTimeSecs=ftsec, bytes_cached_at_construction=c0)
        run_function(it, spikeglx.Reader.open, [obj])
        ns = term(it.getattr(obj, "ns"))
        frame = nc * itemsize
        it.ctx.oblige("open.stale_cache.ns_eq_floor", z3.And(ns * frame <= nbytes, nbytes < (ns + 1) * frame), "post",
                      "exposed sample count == floor(bytes of the file being opened / frame), whatever size was cached when the reader was built")
        raw = obj._raw
        it.ctx.oblige("open.stale_cache.raw_shape", z3.And(z3.BoolVal(raw.ndim == 2), A.T(raw.shape[0]) == ns, A.T(raw.shape[1]) == nc), "post")
    S2.explore(body2)


@harness(PROPERTY, "open_int16", functions=["spikeglx:Reader.open", "spikeglx:Reader.ns", "spikeglx:Reader.rl", "spikeglx:Reader.shape", "spikeglx:Reader.fs", "spikeglx:Reader.nc"],
         replay=lambda v, o: replay_open(v, o, None, 2), clause="opening succeeds and exposes floor(bytes/frame) samples equal to the file prefix; duration matches")
def h_open2(H):
    _open_harness(H, 2)


@harness(PROPERTY, "open_float32", functions=["spikeglx:Reader.open"], replay=lambda v, o: replay_open(v, o, None, 4),
         clause="same for 4-byte samples")
def h_open4(H):
    _open_harness(H, 4)


@harness(PROPERTY, "online_ns", functions=["spikeglx:OnlineReader.ns"], replay=lambda v, o: replay_open(v, o, spikeglx.OnlineReader, 2),
         clause="online reader: sample count is the floor of the file size in frames")
def h_online(H):
    for itemsize in (2, 4):
        S = H.session(f"online{itemsize}")

        def body(it, itemsize=itemsize):
            obj, nbytes, nc, rate, ftsec = sym_reader(it, spikeglx.OnlineReader, ".bin", itemsize, online=True)
            H.input(nbytes=nbytes, nc=nc, fs=rate, fileTimeSecs=ftsec)
            ns = term(it.getattr(obj, "ns"))
            frame = nc * itemsize
            it.ctx.oblige(f"online.ns_eq_floor.{itemsize}", z3.And(ns * frame <= nbytes, nbytes < (ns + 1) * frame), "post")
            run_function(it, spikeglx.Reader.open, [obj])
            raw = obj._raw
            it.ctx.oblige(f"online.open_shape.{itemsize}", z3.And(A.T(raw.shape[0]) == ns, A.T(raw.shape[1]) == nc), "post")
        S.explore(body)


def replay_acquiring(vals, oid):
    """the shipped metadata of a recording still being acquired (no fileSizeBytes / fileTimeSecs yet) + a binary with a partial trailing frame"""
    import shutil
    import pathlib
    m = pathlib.Path(spikeglx.__file__).parent / "tests" / "fixtures" / "sampleNP2.4_4shanks_while_acquiring_incomplete.ap.meta"
    bad = []
    for extra in (0, 1, 7, 769):
        for iw in (False, True):
            d = tempfile.mkdtemp(prefix="c11_")
            try:
                b = os.path.join(d, "x.imec0.ap.bin")
                nc = int(spikeglx.read_meta_data(m)["nSavedChans"])
                data = np.random.default_rng(extra).integers(-100, 100, size=(50 * nc + extra,), dtype=np.int16)
                data.tofile(b)
                shutil.copy(m, b[:-3] + "meta")
                try:
                    sr = spikeglx.OnlineReader(b, ignore_warnings=iw)
                    nfr = (50 * nc + extra) // nc
                    if sr.shape != (nfr, nc) or not np.array_equal(np.asarray(sr._raw), data[:nfr * nc].reshape(nfr, nc)):
                        bad.append({"trailing_int16_words": extra, "ignore_warnings": iw, "shape": sr.shape})
                    sr.close()
                except Exception as e:
                    bad.append({"trailing_int16_words": extra, "ignore_warnings": iw, "raised": repr(e)})
            finally:
                shutil.rmtree(d, ignore_errors=True)
    return {"failed": bool(bad), "cases": bad[:4]}


@harness(PROPERTY, "online_open_while_acquiring", functions=["spikeglx:Reader.open", "spikeglx:OnlineReader.ns"], replay=replay_acquiring,
         clause="recording still in progress (metadata without the final size / duration fields, binary possibly ending in a partial frame): opening succeeds and exposes the complete frames")
def h_acquiring(H):
    S = H.session("online.acquiring")

    def body(it):
        obj, nbytes, nc, rate, ftsec = sym_reader(it, spikeglx.OnlineReader, ".bin", 2, online=True)
        # A-SGLX: while SpikeGLX is acquiring, the .meta has no fileSizeBytes / fileTimeSecs (shipped fixture ..._while_acquiring_incomplete.ap.meta)
        for k_ in ("fileSizeBytes", "fileTimeSecs"):
            obj.attrs["meta"].pop(k_, None)
        iw = z3.Bool("ignore_warnings")
        obj.attrs["ignore_warnings"] = SV(iw)
        H.input(nbytes=nbytes, nc=nc, fs=rate, ignore_warnings=iw)
        try:
            run_function(it, spikeglx.Reader.open, [obj])
        except PyRaise as e:
            it.ctx.oblige(f"acquiring.open_does_not_raise.{type(e.exc).__name__}", z3.BoolVal(False), "post", f"open() raises {type(e.exc).__name__}: {str(e.exc)[:80]}", assume=False)
            return
        raw = obj._raw
        ns = term(it.getattr(obj, "ns"))
        it.ctx.oblige("acquiring.ns_eq_floor", z3.And(ns * nc * 2 <= nbytes, nbytes < (ns + 1) * nc * 2), "post")
        it.ctx.oblige("acquiring.open_shape", z3.And(A.T(raw.shape[0]) == ns, A.T(raw.shape[1]) == nc), "post")
    S.explore(body, may_raise=True)


class GhostMtscomp:
    _pyvc_ok = True
    """A-MTSCOMP: mtscomp.Reader after open(): .shape == (samples stored in the stream, channels)"""

    def __init__(self, shape, sample_rate=None):
        self.shape = shape
        # what the .ch header records next to the chunk table: stream length, channel count and the sampling rate given to the compressor
        # (Reader.compress_file passes the metadata rate; a file compressed by another tool may carry the nominal rate)
        self.n_samples = shape[0]
        self.n_channels = shape[1]
        self.sample_rate = sample_rate

    def open(self, *a, **k):
        self.opened_with = (a, k)
        return None


def replay_cbin(vals, oid):
    """real .cbin files whose stream length disagrees with the metadata: compressed by the reader itself and by mtscomp directly with the
    nominal rate in the .ch header; opened with and without ignore_warnings; compared with the .bin of the same samples"""
    import shutil
    import mtscomp
    bad = []
    for fs_meta, ch_rate in ((30000.0, None), (30003.0003, 30000.0), (30000.39, 30000)):
        for nstream, announced in ((7000, 9000), (7000, 5000), (45000, 90000)):
            for iw in (False, True):
                d, b, raw = _mkfile(nstream * 2 * 2, 2, fs_meta, announced, 2, None)
                try:
                    cb = b[:-3] + "cbin"
                    mtscomp.compress(b, cb, b[:-3] + "ch", sample_rate=ch_rate if ch_rate is not None else fs_meta, n_channels=2, dtype=np.int16, chunk_duration=0.1, n_threads=1, check_after_compress=False)
                    a = spikeglx.Reader(b, ignore_warnings=iw)
                    os.rename(b, b + ".away")
                    c = spikeglx.Reader(cb, ignore_warnings=iw)
                    tail = c[nstream - 50:, :] if c.ns >= 50 else None
                    ok = c.shape == (nstream, 2) == a.shape and c.ns == nstream and abs(c.rl - nstream / c.fs) < 1e-6 and tail is not None and tail.shape[0] == 50 and np.array_equal(tail, a[nstream - 50:, :])
                    if not ok:
                        bad.append({"meta_rate": fs_meta, "ch_rate": ch_rate, "samples_in_stream": nstream, "announced": announced, "ignore_warnings": iw, "cbin_shape": c.shape, "bin_shape": a.shape, "rl": c.rl})
                    c.close()
                    if nstream == 7000 and announced == 9000:
                        # the header kept in another folder and handed over explicitly (no .ch next to the data)
                        hd = os.path.join(d, "headers")
                        os.makedirs(hd)
                        moved = os.path.join(hd, "session_42.ch")
                        os.rename(cb[:-4] + "ch", moved)
                        c2 = spikeglx.Reader(cb, ch_file=moved, ignore_warnings=iw)
                        if c2.shape != (nstream, 2) or not np.array_equal(c2[nstream - 50:, :], a[nstream - 50:, :]):
                            bad.append({"explicit_header_in_another_folder": True, "cbin_shape": c2.shape})
                        c2.close()
                    a.close()
                except Exception as e:
                    bad.append({"meta_rate": fs_meta, "ch_rate": ch_rate, "samples_in_stream": nstream, "announced": announced, "ignore_warnings": iw, "raised": repr(e)[:120]})
                finally:
                    shutil.rmtree(d, ignore_errors=True)
    return {"failed": bool(bad), "cases": bad[:4]}


@harness(PROPERTY, "open_cbin", functions=["spikeglx:Reader.open"], replay=replay_cbin, clause="compressed stream shorter/longer than announced: sample count follows the stream")
def h_cbin(H):
    import mtscomp
    from pyvc import models

    S = H.session("open.cbin")

    def body(it):
        obj, nbytes, nc, rate, ftsec = sym_reader(it, spikeglx.Reader, ".cbin", 2)
        nstream = z3.Int("nstream")
        it.ctx.assume(nstream >= 1)
        # the compression header handed to the constructor (ch_file=...) is kept apart from the data: not the file a companion look-up would find
        ch = fsmodel.GhostPath(it.session.ghost_fs, ("headers",), "session_42.ch")
        obj.attrs["ch_file"] = ch
        ch_rate = z3.Real("ch_sample_rate")
        it.ctx.assume(ch_rate > 0)
        made = []

        def mk(it_, a, k):
            g = GhostMtscomp((SV(nstream), SV(nc)), SV(ch_rate))
            made.append(g)
            return g

        def dec(it_, a, k):
            # mtscomp.decompress(cdata, cmeta): a Reader opened on that pair
            g = mk(it_, (), {})
            g.open(*a, **k)
            return g
        it.session.contracts[mtscomp.Reader] = mk
        it.session.contracts[mtscomp.decompress] = dec
        # both settings of ignore_warnings (streaming readers set it): it silences the warning, it must not change what is exposed
        iw = z3.Bool("ignore_warnings")
        obj.attrs["ignore_warnings"] = SV(iw)
        H.input(nstream=nstream, nc=nc, fs=rate, fileTimeSecs=ftsec, ch_sample_rate=ch_rate, ignore_warnings=iw)
        run_function(it, spikeglx.Reader.open, [obj])
        ns = term(it.getattr(obj, "ns"))
        it.ctx.oblige("cbin.ns_eq_stream", ns == nstream, "post", "exposed sample count == samples present in the compressed stream")
        it.ctx.oblige("cbin.rl", term(it.getattr(obj, "rl")) == z3.ToReal(nstream) / rate, "post")
        used = [g.opened_with for g in made if hasattr(g, "opened_with")]
        hdr = [(a[1] if len(a) > 1 else k.get("cmeta")) for a, k in used]
        it.ctx.oblige("cbin.opened_with_the_given_header", z3.BoolVal(len(used) == 1 and hdr[0] is ch and used[0][0][0] is obj.file_bin), "post",
                      "the stream is opened once, on this reader's file, with the compression header handed to the constructor (not with whatever .ch lies next to the data)")
    S.explore(body)


@bounded(PROPERTY, "native_truncation", bound="nc in {1,2,5,17,385}, 1..5 complete frames + every trailing byte count 0..frame-1 (quick: sampled to <=12 per nc), "
         "announced length in {exact, -1, +3, 0}, fs in {30000, 2500, 30000.533, 1953.1}, Reader + OnlineReader; float32 files and int16 files with warnings on (nc in {1,3,17}); .cbin streams of 7000 / 45000 samples announced as 9000 / 5000 / 90000, .ch rate == / != metadata rate, ignore_warnings on / off; large ns up to 3e9 for the ns->fileTimeSecs->ns round trip",
         clause="file-level replay of truncation; binary64 round trip of the sample count")
def b_native(B):
    for nc in (1, 2, 5, 17, 385):
        frame = nc * 2
        trail = list(range(frame)) if B.tier == "thorough" or frame <= 12 else sorted(set([0, 1, 2, frame // 2 - 1, frame // 2, frame // 2 + 1, frame - 2, frame - 1] + [B.rng.randrange(frame) for _ in range(4)]))
        for nfr in (1, 2, 5):
            for t in trail:
                for claimed_delta in (0, -1, 3, None):
                    for fs in (30000.0, 30000.533) if B.tier == "quick" else (30000.0, 2500.0, 30000.533, 1953.1):
                        for cls in (spikeglx.Reader, spikeglx.OnlineReader):
                            nbytes = nfr * frame + t
                            claimed = 0 if claimed_delta is None else max(nfr + claimed_delta, 0)
                            r = replay_open({"nbytes": nbytes, "nc": nc, "fs": fs, "fileTimeSecs": claimed / fs}, "", cls, 2)
                            B.case((nc, nfr, t, claimed, fs, cls.__name__), not r["failed"], detail=r,
                                   inputs={"nbytes": nbytes, "nc": nc, "fs": fs, "fileTimeSecs": claimed / fs})
    # 4-byte samples and warnings left on: same law (the frame is channels x bytes per sample, whatever the option)
    for itemsize, iw in ((4, True), (4, False), (2, False)):
        for nc in (1, 3, 17):
            frame = nc * itemsize
            for nfr in (1, 5):
                for t in sorted({0, 1, frame // 2, frame - 1}):
                    for claimed_delta in (0, -1, 3):
                        for cls in (spikeglx.Reader, spikeglx.OnlineReader):
                            nbytes, claimed = nfr * frame + t, max(nfr + claimed_delta, 0)
                            v = {"nbytes": nbytes, "nc": nc, "fs": 30000.0, "fileTimeSecs": claimed / 30000.0, "ignore_warnings": iw}
                            r = replay_open(v, "", cls, itemsize)
                            B.case((nc, nfr, t, claimed, itemsize, iw, cls.__name__), not r["failed"], detail=r, inputs=v)
    # the same recordings opened through their .meta file (documented entry point): same frames
    for nc in (2, 385):
        for nfr, t, claimed in ((5, 0, 5), (5, 3, 5), (40, 1, 90), (40, 0, 12)):
            for cls in (spikeglx.Reader, spikeglx.OnlineReader):
                v = {"nbytes": nfr * nc * 2 + t, "nc": nc, "fs": 30000.0, "fileTimeSecs": claimed / 30000.0, "open_through_the_meta_file": True}
                r = replay_open(v, "", cls, 2)
                B.case((nc, nfr, t, claimed, "via .meta", cls.__name__), not r["failed"], detail=r, inputs=v)
    r = replay_cbin({}, "")
    B.case("compressed_stream_length_disagrees_with_metadata", not r["failed"], detail=r)
    # several readers alive on the same recording while it grows / on two binaries sharing one metadata file: each reader keeps exposing
    # exactly what it mapped (its own count, shape, duration), whatever the others found
    import shutil
    bads = []
    for fs in (30000.0, 30003.0003):
        d, b, raw = _mkfile(61 * 4 * 2 + 3, 4, fs, 200, 2, None)
        try:
            a = spikeglx.Reader(b, ignore_warnings=True)
            na = a.ns
            with open(b, "ab") as f:
                f.write(np.random.default_rng(1).integers(0, 256, size=37 * 8 + 5, dtype=np.uint8).tobytes())
            c = spikeglx.Reader(b, ignore_warnings=True)
            other = os.path.join(d, "copy.imec0.ap.bin")
            np.random.default_rng(2).integers(0, 256, size=17 * 8, dtype=np.uint8).tofile(other)
            e = spikeglx.Reader(other, meta_file=__import__("pathlib").Path(b[:-3] + "meta"), ignore_warnings=True)
            for name, rd, want in (("first reader (before the file grew)", a, 61), ("second reader (after)", c, (61 * 8 + 3 + 37 * 8 + 5) // 8), ("reader of another binary with the same metadata file", e, 17)):
                try:
                    ok = rd.ns == want == rd._raw.shape[0] and rd.shape == (want, 4) and abs(rd.rl - want / rd.fs) < 1e-9 and rd[want - 1, :].shape == (4,) and rd[:, :].shape[0] == want
                except Exception as ex:
                    ok = False
                    name += " raised " + repr(ex)[:60]
                if not ok:
                    bads.append({"fs": fs, "reader": name, "ns": rd.ns, "mapped": rd._raw.shape[0], "frames_at_open": want})
            if na != 61:
                bads.append({"fs": fs, "reader": "first", "ns_at_open": na})
            for rd in (a, c, e):
                rd.close()
        finally:
            shutil.rmtree(d, ignore_errors=True)
    B.case("several_readers_on_a_growing_recording", not bads, detail=bads[:4])
    # round trip of the count through the float duration (what open() stores and ns reads back)
    for _ in range(3000 if B.tier == "quick" else 100000):
        k = B.rng.randrange(1, 3 * 10 ** 9)
        fs = B.rng.choice([30000.0, 2500.0, 30000.533, 29999.99, 1953.125, 25000.1])
        back = int(np.round((k / fs) * fs))
        B.case(("roundtrip", k, fs), back == k, detail=f"int(round(({k}/{fs})*{fs})) = {back}", inputs={"k": k, "fs": fs})
