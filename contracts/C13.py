"""C13 - extracted waveforms equal the source data and the saved files agree row by row.

Functions under contract: ibldsp.waveform_extraction.extract_wfs_array, .write_wfs_chunk (chunk-local offsets, rows written by waveform_index).
_make_wfs_table / extract_wfs_cbin / WaveformsLoader (pandas, random choice, parquet, joblib) and make_channel_index: bounded stand-in on real files.
"""
import os
import shutil
import tempfile

import numpy as np
import pandas as pd
import z3

import ibldsp.waveform_extraction as WE
import ibldsp.utils as U
import spikeglx
from pyvc.api import harness, bounded, property_meta, run_function
from pyvc.core import SV, term, fresh_name, NAN, Unsupported
from pyvc import arrays as A, pdmodel
from pyvc.arrays import SArr
from pyvc.interp import SObj, LoopSpec

PROPERTY = "C13"
property_meta(
    PROPERTY, level="other",
    trusted_base=["A-PY", "A-NP-INDEX", "A-REAL (NaN is a distinguished token: only its placement is proved)", "A-PANDAS (DataFrame = dict of equal-length columns; groupby(cluster).aggregate(count) on a frame sorted by cluster = one row per run of equal unit ids, count = run length: ASSUMED contract of aggregate_by_clusters in the running-index harness, its pre-conditions obliged)",
                  "C01 (reader slices are NumPy slices of the calibrated array)", "_make_wfs_table under its own contract at the call site of extract_wfs_cbin (harness make_wfs_table)"],
    explanation="extract_wfs_array: loop invariant over the output stack: wfs[i,c,t] == traces[neigh[peak_i,c], sample_i - trough + t], the pad index reads the NaN row, all reads in bounds; "
                "write_wfs_chunk (no preprocessing): the chunk-local offsets for chunk 0 and later chunks both address samples [sample-trough, sample-trough+length) of the recording and rows land at waveform_index. "
                "Selection per unit, table/traces/channels/templates agreement, chunk and worker independence, loader: bounded stand-in on real files.")


def mk_inputs(it, nan_row_present):
    nc, ns, n, ncn, nx = z3.Ints("nc ns nwf ncn nx")
    it.ctx.assume(z3.And(nc >= 1, ns >= 1, n >= 1, nx >= 1))
    arr = A.fresh_array("traces", "float32", (nc + (1 if nan_row_present else 0), ns))
    cn = A.fresh_array("neighbors", "int64", (nc, nx), ranged=False)
    A.assume_range(cn, 0, nc)              # nc is the pad index (row of NaN)
    sample = A.fresh_array("sample", "int64", (n,), ranged=False)
    peak = A.fresh_array("peak", "int64", (n,), ranged=False)
    A.assume_range(peak, 0, nc - 1)
    return nc, ns, n, nx, arr, cn, sample, peak


def wfs_inv(V):
    """rows already filled equal the gathered window; the rest is still zero"""
    wfs, arr, cind, sind = V.raw("wfs"), V.raw("arr"), V.raw("cind"), V.raw("sind")
    i, c, t = z3.Ints("ii cc tt")
    j = V.j
    n, nch, L = (A.T(d) for d in wfs.shape)
    return [A.forall_hyp([i, c, t], lambda: z3.Implies(z3.And(i >= 0, i < n, c >= 0, c < nch, t >= 0, t < L),
                                                       wfs.read((i, c, t)) == z3.If(i < j, arr.read((cind.read((i, c)), sind.read((i, t)))), z3.RealVal(0))))]


LOOPS = {("extract_wfs_array", 0): LoopSpec(invariant=wfs_inv)}


def replay_gather(vals, oid):
    bad = native_gather(np.random.default_rng(2), 20)
    return {"failed": bool(bad), "examples": bad[:3]}


@harness(PROPERTY, "extract_wfs_array", functions=["ibldsp.waveform_extraction:extract_wfs_array"], replay=replay_gather,
         clause="every extracted waveform equals the source traces over the spike's sample window on the neighbourhood channels, padded with NaN")
def h_gather(H):
    for add_nan in (True, False):
        S = H.session(f"gather.nan{add_nan}", loops=LOOPS)

        def body(it, add_nan=add_nan):
            nc, ns, n, nx, arr, cn, sample, peak = mk_inputs(it, nan_row_present=not add_nan)
            trough, L = z3.Ints("trough_offset spike_length")
            it.ctx.assume(z3.And(trough >= 0, L >= 1, trough < L))
            k = z3.Int(fresh_name("k"))
            # valid spikes (selection rule of _make_wfs_table): the window lies inside the recording
            it.ctx.assume(z3.ForAll([k], z3.Implies(z3.And(k >= 0, k < n), z3.And(sample.uf(k) >= trough, sample.uf(k) + (L - trough) < ns)), patterns=[sample.uf(k)]))
            if not add_nan:
                it.ctx.assume(z3.ForAll([k], z3.Implies(z3.And(k >= 0, k < ns), arr.uf(nc, k) == NAN)))
            it.session.contracts[pd.DataFrame] = pdmodel.dataframe_summary
            df = pdmodel.SFrame({"sample": sample, "peak_channel": peak})
            wfs, cind, tr = run_function(it, WE.extract_wfs_array, [arr, df, cn], {"trough_offset": SV(trough), "spike_length_samples": SV(L), "add_nan_trace": add_nan})
            tag = f"nan{add_nan}"
            i, c, t = z3.Ints("i c t")
            it.ctx.oblige(f"gather.shape.{tag}", z3.And(z3.BoolVal(wfs.ndim == 3), A.T(wfs.shape[0]) == n, A.T(wfs.shape[1]) == nx, A.T(wfs.shape[2]) == L), "post")
            src = lambda ch, s: z3.If(ch == nc, NAN, arr.read((ch, s)))    # noqa
            it.ctx.oblige(f"gather.values.{tag}", A.forall([i, c, t], lambda: z3.Implies(z3.And(i >= 0, i < n, c >= 0, c < nx, t >= 0, t < L),
                          wfs.read((i, c, t)) == src(cn.read((peak.read((i,)), c)), sample.read((i,)) - trough + t))), "post",
                          "wfs[i,c,t] is the trace of the c-th neighbour of spike i's peak channel at sample_i - trough + t; the pad index gives NaN", assume=False)
            it.ctx.oblige(f"gather.channels.{tag}", A.forall([i, c], lambda: z3.Implies(z3.And(i >= 0, i < n, c >= 0, c < nx), cind.read((i, c)) == cn.read((peak.read((i,)), c)))), "post")
            it.ctx.oblige(f"gather.returns_trough.{tag}", term(tr) == trough, "post")
        S.explore(body)


def extract_wfs_array_summary(it, a, k):
    """contract of extract_wfs_array as proved by harness `extract_wfs_array` (used modularly at its call sites)"""
    arr, df, cn = a[0], a[1], a[2]
    trough = term(k.get("trough_offset", a[3] if len(a) > 3 else 42))
    L = term(k.get("spike_length_samples", a[4] if len(a) > 4 else 128))
    add_nan = k.get("add_nan_trace", False)
    assert add_nan is True, "summary only covers add_nan_trace=True"
    sample, peak = df["sample"].to_numpy(), df["peak_channel"].to_numpy()
    n = A.T(sample.shape[0])
    nc, ns = A.T(arr.shape[0]), A.T(arr.shape[1])
    i = z3.Int(fresh_name("i"))
    it.ctx.oblige("extract_wfs_array.pre.window_inside_snippet", A.forall([i], lambda: z3.Implies(z3.And(i >= 0, i < n), z3.And(sample.read((i,)) - trough >= 0, sample.read((i,)) + (L - trough) < ns))), "pre",
                  "every spike window lies inside the array handed to extract_wfs_array (its own assert checks the last spike only)")
    it.ctx.oblige("extract_wfs_array.pre.peak_in_table", A.forall([i], lambda: z3.Implies(z3.And(i >= 0, i < n), z3.And(peak.read((i,)) >= 0, peak.read((i,)) < A.T(cn.shape[0])))), "pre")
    nx = cn.shape[1]
    asnap, csnap, ssnap, psnap = arr.snapshot(), cn.snapshot(), sample.snapshot(), peak.snapshot()

    def elem(idx):
        ch = csnap((psnap((idx[0],)), idx[1]))
        return z3.If(ch == nc, NAN, asnap((ch, ssnap((idx[0],)) - trough + idx[2])))
    wfs = SArr(arr.dtype, (A.dim(n), nx, A.dim(L)), elem)
    cind = SArr(np.int64, (A.dim(n), nx), lambda idx: csnap((psnap((idx[0],)), idx[1])))
    return wfs, cind, SV(trough) if not isinstance(k.get("trough_offset", 42), int) else k.get("trough_offset", 42)


def replay_chunk(vals, oid):
    """extract_wfs_cbin on a real file with the window parameters of the counter-model: rows must equal the recording over [s-trough, s-trough+L)"""
    import joblib
    import pathlib
    tr, L = int(vals.get("trough_offset", 42)), int(vals.get("spike_length", 128))
    tr = max(1, min(tr, 60))
    L = max(tr + 1, min(L, 160))
    rng = np.random.default_rng(0)
    d = tempfile.mkdtemp(prefix="c13_")
    out = {"trough_offset": tr, "spike_length_samples": L}
    try:
        ap, x = _rec(d, 6000, rng)
        sr = spikeglx.Reader(ap)
        V = x[:, :384].astype(np.float32)[:, sr.raw_channel_order[:384]] * sr.sample2volts[sr.raw_channel_order[:384]]
        h = sr.geometry
        sr.close()
        s = np.sort(rng.choice(np.arange(300, 5600), 20, replace=False))
        o = pathlib.Path(d) / "o"
        o.mkdir()
        try:
            with joblib.parallel_backend("threading"):
                WE.extract_wfs_cbin(ap, o, s, np.zeros(20, int), rng.integers(0, 384, 20), max_wf=64, trough_offset=tr, spike_length_samples=L, chunksize_samples=1000, n_jobs=1, preprocess_steps=[], seed=1)
            tab = WE.WaveformsLoader(o).df_wav
            traces = np.load(o / "waveforms.traces.npy")
            cn = U.make_channel_index(np.c_[h["x"], h["y"]])
            bad = 0
            for r in range(len(tab)):
                sm, pc = int(tab["sample"].iloc[r]), int(tab["peak_channel"].iloc[r])
                c0 = cn[pc][0]
                if traces.shape[2] != L or not np.array_equal(traces[r, 0], V[sm - tr: sm - tr + L, c0]):
                    bad += 1
            out["rows_with_wrong_window"] = bad
            out["failed"] = bad > 0
        except Exception as e:
            out["raised"] = repr(e)
            out["failed"] = True
    finally:
        shutil.rmtree(d, ignore_errors=True)
    return out


@harness(PROPERTY, "write_wfs_chunk", functions=["ibldsp.waveform_extraction:write_wfs_chunk"], replay=replay_chunk,
         clause="chunk-local sample offsets (chunk 0 and later chunks) address the spike's own window; rows are written at waveform_index")
def h_chunk(H):
    for first_chunk in (True, False):
        S = H.session(f"chunk.first{first_chunk}")

        def body(it, first_chunk=first_chunk):
            nc, ns, n, nx, _, cn, sample, peak = mk_inputs(it, nan_row_present=False)
            trough, L = z3.Ints("trough_offset spike_length")
            H.input(trough_offset=trough, spike_length=L)
            it.ctx.assume(z3.And(trough >= 1, L >= 1, trough < L))
            chunk, ichunk, nsync = z3.Ints("chunksize i_chunk nsync")
            # chunks are at least as long as the pre-peak margin (the property quantifies over chunk sizes 500..10000, trough_offset 42):
            # a shorter chunk would make the slice start s0 - trough_offset negative for chunk 1
            it.ctx.assume(z3.And(chunk >= trough, nsync >= 1))
            if first_chunk:
                it.ctx.assume(ichunk == 0)
            else:
                it.ctx.assume(ichunk >= 1)
            s0 = ichunk * chunk                      # extract_wfs_cbin: s0_arr = arange(0, ns, chunksize)
            s1 = z3.Int("s1")
            it.ctx.assume(s1 >= s0)
            V = A.fresh_array("recording", "float32", (ns, nc + nsync))     # calibrated samples x channels (C01)

            class VReader:
                _pyvc_ok = True
                nsync_ = None

                def __getitem__(self_, idx):
                    return A.getitem(V, idx).copy()
            rd = VReader()
            rd.nsync = SV(nsync)
            rd.fs = 30000.0
            it.session.contracts[spikeglx.Reader] = lambda it_, a, k: rd
            it.session.contracts[pd.DataFrame] = pdmodel.dataframe_summary
            it.session.contracts[WE.extract_wfs_array] = extract_wfs_array_summary
            k = z3.Int(fresh_name("k"))
            # spikes of this chunk (searchsorted slice of extract_wfs_cbin) that passed the validity filter
            it.ctx.assume(z3.ForAll([k], z3.Implies(z3.And(k >= 0, k < n), z3.And(sample.uf(k) >= s0, sample.uf(k) < s1, sample.uf(k) > trough, sample.uf(k) < ns - (L - trough))), patterns=[sample.uf(k)]))
            nwf_total = z3.Int("nwf_total")
            iw = A.fresh_array("waveform_index", "int64", (n,), ranged=False)
            A.assume_range(iw, 0, nwf_total - 1)
            k2 = z3.Int(fresh_name("k"))
            it.ctx.assume(z3.ForAll([k, k2], z3.Implies(z3.And(k >= 0, k < k2, k2 < n), iw.uf(k) != iw.uf(k2)), patterns=[z3.MultiPattern(iw.uf(k), iw.uf(k2))]))
            out = A.fresh_array("wfs_mmap", "float32", (nwf_total, nx, L))
            before = out.snapshot()
            wf_flat = pdmodel.SFrame({"sample": sample, "peak_channel": peak, "waveform_index": iw})
            run_function(it, WE.write_wfs_chunk, [SV(ichunk), "CBIN", out, {}, None, cn, wf_flat, (SV(s0), SV(s1)), SV(chunk), SV(trough), SV(L), {}, []])
            tag = f"first{first_chunk}"
            i, c, t, w = z3.Ints("i c t w")
            src = lambda ch, s: z3.If(ch == nc, NAN, V.read((s, ch)))    # noqa
            it.ctx.oblige(f"chunk.rows_at_waveform_index.{tag}", A.forall([i, c, t], lambda: z3.Implies(z3.And(i >= 0, i < n, c >= 0, c < nx, t >= 0, t < L),
                          out.read((iw.read((i,)), c, t)) == src(cn.read((peak.read((i,)), c)), sample.read((i,)) - trough + t))), "post",
                          "row waveform_index[i] of the traces file holds the recording over [sample_i - trough_offset, sample_i - trough_offset + length) on the neighbourhood of the peak channel", assume=False)
        S.explore(body)


# ----------------------------------------------------------------------------- _make_wfs_table: selection per unit, table rows, waveform_index
def _table_pieces():
    import ast
    from pyvc import interp as I
    FN = WE._make_wfs_table
    node, filename = I.SOURCES.funcdef(FN)
    loops = [n for n in node.body if isinstance(n, ast.For)]
    if len(loops) != 1:
        raise I.Unsupported("cannot identify the per-unit loop of _make_wfs_table()")
    loop = loops[0]
    k = node.body.index(loop)
    return FN, node, filename, loop, node.body[:k], node.body[k + 1:]


def _table_inputs(it, H_=None, sample_dtype="int64"):
    from pyvc import interp as I
    from pyvc import models as M
    nsp, ns, max_wf, trough, L = z3.Ints("nspikes ns max_wf trough_offset spike_length")
    it.ctx.assume(z3.And(nsp >= 1, ns >= 1, max_wf >= 1, trough >= 0, L >= 1, trough < L))
    if H_ is not None:
        H_.input(nspikes=nsp, ns=ns, max_wf=max_wf, trough_offset=trough, spike_length=L)
    samples = A.fresh_array("spike_samples", sample_dtype, (nsp,), ranged=False)
    if sample_dtype == "uint64":
        A.assume_range(samples, 0, 2 ** 62)            # spike times as saved by the sorters (unsigned): non negative, far below 2^63
    clusters = A.fresh_array("spike_clusters", "int64", (nsp,), ranged=False)
    channels = A.fresh_array("spike_channels", "int64", (nsp,), ranged=False)

    class SR:
        _pyvc_ok = True
    sr = SR()
    sr.ns = SV(ns)
    it.session.contracts[np.random.default_rng] = M.default_rng_summary
    it.session.contracts[pd.DataFrame] = pdmodel.dataframe_summary
    FN, node, filename, loop, before, after = _table_pieces()
    it.session.note_function(FN)
    env = I.Env(None, FN.__globals__, qualname="_make_wfs_table", filename=filename)
    env.funcnode = node
    env.vars.update(dict(sr=sr, spike_samples=samples, spike_clusters=clusters, spike_channels=channels, max_wf=SV(max_wf),
                         trough_offset=SV(trough), spike_length_samples=SV(L), seed=None))
    it.ctx.func = env.qualname
    it.exec_block(before, env)
    uq = getattr(it.ctx, "unique_log", [])
    if len(uq) != 1:
        raise I.Unsupported("cannot identify the distinct unit ids (np.unique) in _make_wfs_table()")
    return dict(nsp=nsp, ns=ns, max_wf=max_wf, trough=trough, L=L, samples=samples, clusters=clusters, channels=channels, env=env, uq=uq[0], loop=loop, after=after)


def _table_var(env, name, what):
    from pyvc import interp as I
    v = env.vars.get(name)
    if not isinstance(v, SArr):
        raise I.Unsupported(f"cannot identify {what} (local '{name}') in _make_wfs_table()")
    return v


def native_table(rng, ncases, max_wf=None, trough=None, L=None):
    """_make_wfs_table on generated spike trains (edge samples at both margins, units below / at / above max_wf, spike index 0 valid and
    certainly selected): per-unit counts, distinct rows, columns, waveform_index bijection grouped by unit in table order"""
    bad = []

    class SR:
        pass
    for t in range(ncases):
        tr = int(trough) if trough is not None and 0 <= int(trough) <= 60 else int(rng.integers(0, 50))
        ln = int(L) if L is not None and tr < int(L) <= 200 else int(rng.integers(tr + 1, tr + 90))
        mw = int(max_wf) if max_wf is not None and 1 <= int(max_wf) <= 64 else int(rng.integers(1, 12))
        ns = int(rng.integers(3 * ln + 50, 4000))
        sr = SR()
        sr.ns = ns
        hi = ns - (ln - tr)
        edge = [0, max(tr - 1, 0), tr, tr + 1, tr + 2, hi - 2, hi - 1, hi, min(hi + 1, ns - 1), ns - 1]
        nrand = int(rng.integers(0, 40))
        smp = np.sort(np.r_[np.array(edge, dtype=np.int64), rng.integers(0, ns, nrand)]).astype(np.int64)
        if t % 3 == 0:
            smp = smp[smp > tr]                    # spike index 0 is valid
        nsp = smp.size
        nun = int(rng.integers(1, 5))
        # unit labels as sorters write them: any integers, the noise / unsorted labels -1 and 0 among them
        ids = np.sort(rng.choice(np.arange(0, 50), nun, replace=False)) if t % 2 else np.sort(rng.choice(np.r_[-2, -1, 0, 1, np.arange(5, 40)], nun, replace=False))
        clu = ids[rng.integers(0, nun, nsp)].astype(np.int64)
        if t % 3 == 0:
            clu[0] = ids[0]
            if np.sum((clu == ids[0]) & (smp > tr) & (smp < hi)) > mw:     # keep unit 0 at or below max_wf so that spike 0 is certainly selected
                keep = np.flatnonzero(clu == ids[0])[:mw]
                oth = np.flatnonzero(clu != ids[0])
                sel = np.sort(np.r_[keep, oth])
                smp, clu = smp[sel], clu[sel]
                nsp = smp.size
        chn = rng.integers(0, 384, nsp).astype(np.int64)
        if t % 4 == 1:
            smp = smp.astype(np.uint64)            # spike times as the sorters save them
        try:
            tab, units = WE._make_wfs_table(sr, smp, clu, chn, max_wf=mw, trough_offset=tr, spike_length_samples=ln, seed=int(rng.integers(0, 1 << 30)))
        except Exception as e:
            bad.append(("raised", repr(e)[:120], dict(ns=ns, max_wf=mw, trough=tr, L=ln)))
            continue
        key = dict(ns=ns, max_wf=mw, trough=tr, L=ln, nspikes=int(nsp), dtype=str(smp.dtype))
        smp = smp.astype(np.int64)
        valid = (smp > tr) & (smp < hi)
        if not np.array_equal(np.asarray(units), np.unique(clu)):
            bad.append(("unit_ids", key))
        for u in np.unique(clu):
            want = min(mw, int(np.sum(valid & (clu == u))))
            got = int(np.sum(tab["cluster"].to_numpy() == u))
            if got != want:
                bad.append(("count", int(u), got, want, key))
        # every row is a distinct valid spike with its own unit / channel
        rows = list(zip(tab["sample"].to_numpy().tolist(), tab["cluster"].to_numpy().tolist(), tab["peak_channel"].to_numpy().tolist()))
        pool = {}
        for i in np.flatnonzero(valid):
            pool[(int(smp[i]), int(clu[i]), int(chn[i]))] = pool.get((int(smp[i]), int(clu[i]), int(chn[i])), 0) + 1
        used = {}
        for r_ in rows:
            used[r_] = used.get(r_, 0) + 1
        if any(used[r_] > pool.get(r_, 0) for r_ in used):
            bad.append(("row is not a (distinct) valid spike", key))
        if list(tab["sample"].to_numpy()) != sorted(tab["sample"].to_numpy()):
            bad.append(("table not in ascending spike order", key))
        wi = tab["waveform_index"].to_numpy()
        n = len(tab)
        if sorted(wi.tolist()) != list(range(n)):
            bad.append(("waveform_index is not a bijection onto the rows", key))
        else:
            order = np.lexsort((np.arange(n), tab["cluster"].to_numpy()))
            if not np.array_equal(wi[order], np.arange(n)):
                bad.append(("waveform_index not grouped by unit in table order", key))
    return bad


def replay_table(vals, oid):
    g = lambda k_: (int(vals[k_]) if isinstance(vals.get(k_), (int, np.integer)) or (isinstance(vals.get(k_), str) and vals[k_].lstrip("-").isdigit()) else None)   # noqa
    bad = native_table(np.random.default_rng(5), 60, max_wf=g("max_wf"), trough=g("trough_offset"), L=g("spike_length"))
    bad += native_table(np.random.default_rng(6), 120)
    return {"failed": bool(bad), "examples": bad[:3]}


@harness(PROPERTY, "make_wfs_table", functions=["ibldsp.waveform_extraction:_make_wfs_table"], replay=replay_table,
         clause="each unit receives min(max_wf, number of its spikes lying farther than the window margins from both ends) distinct spikes; the table lists exactly the selected spikes, each once, "
                "in ascending spike order with their own sample / unit / peak channel; waveform_index is a bijection onto the rows of the traces file, grouped by unit")
def h_table(H):
    from pyvc import interp as I

    # ---- one symbolic iteration of the per-unit loop (state before it: rows of later units still hold the padding value);
    #      spike times signed (int64) and unsigned (uint64, as the sorters save them: arithmetic on them wraps at 0)
    for sdt in ("int64", "uint64"):
        S = H.session(f"table.iteration.{sdt}")

        def body(it, sdt=sdt):
            P = _table_inputs(it, H, sdt)
            env, uq, loop = P["env"], P["uq"], P["loop"]
            nu, nsp, max_wf = uq["m"], P["nsp"], P["max_wf"]
            U = _table_var(env, "unit_wf_idx", "the per-unit index table")
            r, c, c2, p_ = z3.Ints("r c c2 p")
            it.ctx.oblige("table.init.shape", z3.And(z3.BoolVal(U.ndim == 2), A.T(U.shape[0]) == nu, A.T(U.shape[1]) == max_wf), "post", "one row per unit, max_wf slots")
            it.ctx.oblige("table.init.padding", A.forall([r, c], lambda: z3.Implies(z3.And(r >= 0, r < nu, c >= 0, c < max_wf), U.read((r, c)) < 0)), "post",
                          "before the loop every slot holds a value that is not a spike index")
            i = z3.Int("i_unit")
            it.ctx.assume(z3.And(i >= 0, i < nu))
            # loop state at iteration i: rows of earlier units are arbitrary (havoc), rows i.. still hold the padding
            pad = U.read((i, z3.IntVal(0)))
            U0 = A.fresh_array("unit_wf_idx_at_i", "int64", (nu, max_wf), ranged=False)
            it.ctx.assume(z3.ForAll([r, c], z3.Implies(z3.And(r >= i, r < nu, c >= 0, c < max_wf), U0.uf(r, c) == -1), patterns=[U0.uf(r, c)]))
            env.vars["unit_wf_idx"] = U0
            u0 = U0.snapshot()
            nw0 = len([q for q in it.ctx.where_log if q["ndim"] == 1])
            it.assign(loop.target, (SV(i), wrap_elem(uq, i)), env)
            it.exec_block(list(loop.body), env)
            U1 = env.vars["unit_wf_idx"]
            w = [q for q in it.ctx.where_log if q["ndim"] == 1][nw0:]
            rng = getattr(it.ctx, "rng_log", [])
            if len(w) != 1 or len(rng) != 1 or len(rng[0].draws) != 1:
                raise I.Unsupported("cannot identify the selection of one unit's valid spikes / the random draw in the loop of _make_wfs_table()")
            w, draw = w[0], rng[0].draws[0]
            sm, cl = P["samples"], P["clusters"]
            uid = uq["values"](i)
            valid = lambda q: z3.And(cl.read((q,)) == uid, sm.read((q,)) > P["trough"], sm.read((q,)) < P["ns"] - (P["L"] - P["trough"]))    # noqa
            it.ctx.oblige("table.valid_spikes_of_unit", A.forall([p_], lambda: z3.Implies(z3.And(p_ >= 0, p_ < nsp), w["mask"]((p_,)) == valid(p_))), "post",
                          "the candidates of unit i are exactly its spikes lying farther than the window margins from both ends of the recording")
            cnt = w["count"]
            kk = z3.If(max_wf <= cnt, max_wf, cnt)
            it.ctx.oblige("table.draw_size", z3.And(draw["k"] == kk, draw["n"] == cnt), "post", "min(max_wf, number of valid spikes) spikes are drawn from the candidates, without replacement")
            it.ctx.oblige("table.row.selected_valid_distinct", z3.And(
                A.forall([c], lambda: z3.Implies(z3.And(c >= 0, c < kk), z3.And(U1.read((i, c)) >= 0, U1.read((i, c)) < nsp, valid(U1.read((i, c)))))),
                A.forall([c, c2], lambda: z3.Implies(z3.And(c >= 0, c < c2, c2 < kk), U1.read((i, c)) != U1.read((i, c2))))), "post",
                "the first min(max_wf, nvalid) slots of row i hold pairwise distinct valid spikes of unit i", assume=False)
            it.ctx.oblige("table.row.padding_after", A.forall([c], lambda: z3.Implies(z3.And(c >= kk, c < max_wf), U1.read((i, c)) == -1)), "post", "the remaining slots keep the padding value", assume=False)
            it.ctx.oblige("table.row.frame", A.forall([r, c], lambda: z3.Implies(z3.And(r >= 0, r < nu, r != i, c >= 0, c < max_wf), U1.read((r, c)) == u0((r, c)))), "post",
                          "iteration i writes row i only", assume=False)
        S.explore(body)

    # ---- the code after the loop, from the loop's post-state (every row as established by the iteration obligations)
    S2 = H.session("table.tail")

    def tail(it):
        P = _table_inputs(it, H)
        env, uq = P["env"], P["uq"]
        nu, nsp, max_wf = uq["m"], P["nsp"], P["max_wf"]
        cl = P["clusters"]
        kk = z3.Function("nsel", z3.IntSort(), z3.IntSort())           # ghost: number of spikes selected for unit r
        U = A.fresh_array("unit_wf_idx_final", "int64", (nu, max_wf), ranged=False)
        r, c, c2, q, q2 = z3.Ints("r c c2 q q2")
        it.ctx.assume(z3.ForAll([r], z3.Implies(z3.And(r >= 0, r < nu), z3.And(kk(r) >= 0, kk(r) <= max_wf)), patterns=[kk(r)]))
        it.ctx.assume(z3.ForAll([r, c], z3.Implies(z3.And(r >= 0, r < nu, c >= 0, c < max_wf),
                                                   z3.If(c < kk(r), z3.And(U.uf(r, c) >= 0, U.uf(r, c) < nsp, cl.uf(U.uf(r, c)) == uq["values"](r)), U.uf(r, c) == -1)), patterns=[U.uf(r, c)]))
        it.ctx.assume(z3.ForAll([r, c, c2], z3.Implies(z3.And(r >= 0, r < nu, c >= 0, c < c2, c2 < kk(r)), U.uf(r, c) != U.uf(r, c2)), patterns=[z3.MultiPattern(U.uf(r, c), U.uf(r, c2))]))
        env.vars["unit_wf_idx"] = U
        try:
            it.exec_block(P["after"], env)
        except I.ReturnEx as e:
            ret = e.v
        else:
            raise I.Unsupported("_make_wfs_table() does not return after the loop")
        wf_flat, unit_ids = ret
        if not isinstance(wf_flat, pdmodel.SFrame):
            raise I.Unsupported("_make_wfs_table() does not return a DataFrame built from a dict of columns")
        widx = _table_var(env, "wf_idx", "the sorted list of selected spike indices")
        fl, so = getattr(it.ctx, "flatten_log", []), [x for x in getattr(it.ctx, "sort_log", []) if x.get("kind") == "sort"]
        wh = [x for x in it.ctx.where_log if x["ndim"] == 1]
        if len(fl) != 1 or len(so) != 1 or not wh:
            raise I.Unsupported("cannot identify flatten -> sort -> padding filter in the tail of _make_wfs_table()")
        fl, so, wh = fl[0], so[0], wh[0]
        n = A.T(wf_flat.n)
        it.ctx.oblige("table.rows.count", n == A.T(widx.shape[0]), "post", "one table row per listed spike index")
        f_of = lambda qq: so["perm"](wh["rows"](qq))          # noqa  flat slot holding the qq-th listed index
        it.ctx.oblige("table.rows.are_selected", A.forall([q], lambda: z3.Implies(z3.And(q >= 0, q < n), (lambda rr, cc: z3.And(rr >= 0, rr < nu, cc >= 0, cc < kk(rr), U.read((rr, cc)) == widx.read((q,))))(fl["row"](f_of(q)), fl["col"](f_of(q))))), "post",
                      "every table row is one of the spikes selected for some unit (witness: the slot it was sorted from)", assume=False)
        q_of = lambda rr, cc: wh["rank"](so["inv"](fl["flat"](rr, cc)))    # noqa
        it.ctx.oblige("table.selected.are_rows", A.forall([r, c], lambda: z3.Implies(z3.And(r >= 0, r < nu, c >= 0, c < kk(r)), z3.And(q_of(r, c) >= 0, q_of(r, c) < n, widx.read((q_of(r, c),)) == U.read((r, c))))), "post",
                      "every selected spike has a table row (witness: the rank of its slot after sorting and removing the padding)", assume=False)
        it.ctx.oblige("table.rows.strictly_ascending", A.forall([q, q2], lambda: z3.Implies(z3.And(q >= 0, q < q2, q2 < n), widx.read((q,)) < widx.read((q2,)))), "post",
                      "spike indices are listed in ascending order, none twice: with the two obligations above the rows are in bijection with the selected spikes", assume=False)
        cols = {k_: wf_flat[k_].to_numpy() for k_ in ("sample", "cluster", "peak_channel", "waveform_index")}
        it.ctx.oblige("table.columns.describe_the_spike", A.forall([q], lambda: z3.Implies(z3.And(q >= 0, q < n), z3.And(
            cols["sample"].read((q,)) == P["samples"].read((widx.read((q,)),)), cols["cluster"].read((q,)) == cl.read((widx.read((q,)),)),
            cols["peak_channel"].read((q,)) == P["channels"].read((widx.read((q,)),))))), "post", "row q carries the sample, unit and peak channel of the q-th listed spike", assume=False)
        wi = cols["waveform_index"]
        it.ctx.oblige("table.waveform_index.range", A.forall([q], lambda: z3.Implies(z3.And(q >= 0, q < n), z3.And(wi.read((q,)) >= 0, wi.read((q,)) < n))), "post", assume=False)
        it.ctx.oblige("table.waveform_index.injective", A.forall([q, q2], lambda: z3.Implies(z3.And(q >= 0, q < q2, q2 < n), wi.read((q,)) != wi.read((q2,)))), "post",
                      "no two table rows share a row of the traces file (injective into [0, n): a bijection)", assume=False)
        cq = lambda x: cols["cluster"].read((x,))     # noqa
        it.ctx.oblige("table.waveform_index.grouped_by_unit", A.forall([q, q2], lambda: z3.Implies(z3.And(q >= 0, q < n, q2 >= 0, q2 < n, z3.Or(cq(q) < cq(q2), z3.And(cq(q) == cq(q2), q < q2))), wi.read((q,)) < wi.read((q2,)))), "post",
                      "rows of the traces file are ordered by unit, then by table order (so each unit owns a contiguous block)", assume=False)
        ua = A.as_sarr(unit_ids)
        it.ctx.oblige("table.unit_ids", z3.And(A.T(ua.shape[0]) == nu, A.forall([r], lambda: z3.Implies(z3.And(r >= 0, r < nu), ua.read((r,)) == uq["values"](r)))), "post", "the returned unit ids are the distinct unit labels")
    S2.explore(tail)


def wrap_elem(uq, i):
    from pyvc.core import wrap
    return wrap(uq["values"](i))


# ----------------------------------------------------------------------------- extract_wfs_cbin: chunks tile the recording, each table row goes to one chunk, job arguments
def replay_chunks(vals, oid):
    bad = []
    for ns, chunk, jobs, kw in ((6100, 500, 1, {}), (6100, 6100, 1, {}), (6001, 3000, 3, {}), (5000, 7000, 2, {}), (6100, 3000, 1, dict(trough=60, length=128)), (6100, 1000, 2, dict(trough=20, length=90)),
                                (9000, 3000, 1, dict(quiet_until=3000))):
        b, _ = native_e2e(np.random.default_rng(ns + chunk), ns, chunk, jobs, sizes=[5, 16, 30], max_wf=16, seed=2, tail_spikes=True, **kw)
        bad += [x + (("options", kw),) for x in b if not (x[0] == "count" and x[-1] == "first_valid_index_selected")]
    return {"failed": bool(bad), "examples": [repr(x)[:200] for x in bad[:3]]}


@harness(PROPERTY, "extract_wfs_cbin_chunks", functions=["ibldsp.waveform_extraction:extract_wfs_cbin"], replay=replay_chunks,
         clause="results do not depend on chunk size or worker count: the chunks tile the recording, every table row is handed to exactly one chunk job, with that chunk's bounds and the caller's window parameters")
def h_chunks(H):
    import ast
    from pyvc import interp as I
    S = H.session("cbin.chunks")
    FN = WE.extract_wfs_cbin

    def body(it):
        ns, chunk, n, trough, L = z3.Ints("ns chunksize nrows trough_offset spike_length")
        it.ctx.assume(z3.And(ns >= 1, chunk >= 1, n >= 0, trough >= 0, L >= 1, trough < L))
        H.input(ns=ns, chunksize=chunk, nrows=n, trough_offset=trough, spike_length=L)
        sample = A.fresh_array("sample", "int64", (n,), ranged=False)
        k, k2 = z3.Int(fresh_name("k")), z3.Int(fresh_name("k"))
        # the table of _make_wfs_table (harness make_wfs_table): rows in ascending spike order; spike times ascending (precondition of extract_wfs_cbin); valid spikes only
        it.ctx.assume(z3.ForAll([k, k2], z3.Implies(z3.And(k >= 0, k < k2, k2 < n), sample.uf(k) <= sample.uf(k2)), patterns=[z3.MultiPattern(sample.uf(k), sample.uf(k2))]))
        it.ctx.assume(z3.ForAll([k], z3.Implies(z3.And(k >= 0, k < n), z3.And(sample.uf(k) > trough, sample.uf(k) < ns - (L - trough))), patterns=[sample.uf(k)]))
        table = pdmodel.SFrame({"sample": sample, "peak_channel": A.fresh_array("peak_channel", "int64", (n,), ranged=False), "waveform_index": A.fresh_array("waveform_index", "int64", (n,), ranged=False)})

        class SR:
            _pyvc_ok = True
        sr = SR()
        sr.ns = SV(ns)
        node, filename = I.SOURCES.funcdef(FN)
        it.session.note_function(FN)
        env = I.Env(None, FN.__globals__, qualname="extract_wfs_cbin", filename=filename)
        env.funcnode = node
        tokens = {nm: "ARG:" + nm for nm in ("bin_file", "wfs", "h", "channel_labels", "channel_neighbors", "reader_kwargs", "preprocess_steps", "spike_samples", "spike_clusters", "spike_channels", "max_wf", "seed")}
        env.vars.update(tokens)
        requested = []

        def table_summary(it_, a, k_):
            # _make_wfs_table under its own contract (harness make_wfs_table): what it is asked for is recorded, the table of its post-condition returned
            import inspect
            ba = inspect.signature(WE._make_wfs_table).bind(*a, **k_)
            ba.apply_defaults()
            requested.append(dict(ba.arguments))
            return table, "RESULT:unit_ids"
        it.session.contracts[WE._make_wfs_table] = table_summary
        env.vars.update(dict(sr=sr, chunksize_samples=SV(chunk), trough_offset=SV(trough), spike_length_samples=SV(L)))
        it.ctx.func = env.qualname
        want = {"s0_arr", "s1_arr", "num_chunks"}

        def targets(st):
            out = set()
            for t_ in (st.targets if isinstance(st, ast.Assign) else []):
                base = t_.value if isinstance(t_, ast.Subscript) else t_
                if isinstance(base, ast.Name):
                    out.add(base.id)
            return out
        done = set()
        slices_node, par_node = None, None
        for st in node.body:
            tg = targets(st)
            if tg and tg <= want:
                it.exec_stmt(st, env)
                done |= tg
            elif tg == {"slices"} and isinstance(st.value, ast.ListComp):
                slices_node = st.value
            elif isinstance(st, ast.Assign) and isinstance(st.value, ast.Call) and ast.unparse(st.value.func) == "_make_wfs_table":
                it.exec_stmt(st, env)
            else:
                for sub in ast.walk(st):
                    if isinstance(sub, ast.GeneratorExp) and "write_wfs_chunk" in ast.unparse(sub.elt):
                        par_node = sub
        if done != want or slices_node is None or par_node is None or len(slices_node.generators) != 1 or len(par_node.generators) != 1:
            raise I.Unsupported("cannot identify the chunk arrays / the per-chunk slices / the per-chunk jobs in extract_wfs_cbin()")
        if len(requested) != 1 or env.vars.get("wf_flat") is not table:
            raise I.Unsupported("cannot identify the single request wf_flat, ... = _make_wfs_table(...) in extract_wfs_cbin()")
        rq = requested[0]
        same = lambda v, sym: isinstance(v, (SV, z3.ExprRef, int)) and z3.is_true(z3.simplify(term(v) == sym))      # noqa
        it.ctx.oblige("chunks.table_request", z3.BoolVal(bool(rq.get("sr") is sr and rq.get("spike_samples") == tokens["spike_samples"] and rq.get("spike_clusters") == tokens["spike_clusters"]
                                                              and rq.get("spike_channels") == tokens["spike_channels"] and rq.get("max_wf") == tokens["max_wf"] and rq.get("seed") == tokens["seed"]
                                                              and same(rq.get("trough_offset"), trough) and same(rq.get("spike_length_samples"), L))), "post",
                      "the table of waveforms is requested for the caller's recording, spikes, count per unit, seed and - as the chunk jobs cut their windows with them - the caller's window offset and length")
        s0, s1 = env.vars["s0_arr"], env.vars["s1_arr"]
        nchunk = term(env.vars["num_chunks"])
        i = z3.Int("i_chunk")
        it.ctx.oblige("chunks.count", z3.And(nchunk == A.T(s0.shape[0]), nchunk == A.T(s1.shape[0]), nchunk >= 1), "post")
        it.ctx.assume(z3.And(i >= 0, i < nchunk))
        it.ctx.oblige("chunks.cover_every_valid_spike_once", z3.And(s0.read((i,)) == i * chunk, s1.read((i,)) >= s0.read((i,)),
                      z3.Implies(i < nchunk - 1, s1.read((i,)) == s0.read((i + 1,))), z3.Implies(i == nchunk - 1, s1.read((i,)) >= ns - (L - trough))), "post",
                      "chunks start at multiples of the chunk size, follow each other without gap or overlap, and the last one reaches past the last sample a valid spike can have")
        # rows handed to chunk i
        cenv = I.Env(env, env.globs, qualname=env.qualname, filename=env.filename)
        it.assign(slices_node.generators[0].target, SV(i), cenv)
        sl = it.eval(slices_node.elt, cenv)
        if not isinstance(sl, slice) or sl.step is not None:
            raise I.Unsupported("the per-chunk selection of table rows is not a slice")
        lo, hi = term(sl.start), term(sl.stop)
        q = z3.Int("q")
        it.ctx.oblige("chunks.rows_of_chunk", z3.And(lo >= 0, lo <= hi, hi <= n, A.forall([q], lambda: z3.Implies(z3.And(q >= 0, q < n), z3.And(q >= lo, q < hi) == z3.And(sample.read((q,)) >= s0.read((i,)), sample.read((q,)) < s1.read((i,)))))), "post",
                      "the rows given to chunk i are exactly the spikes whose sample lies in the chunk (each row therefore goes to exactly one chunk, whatever the chunk size)", assume=False)

        class PerChunk:
            _pyvc_ok = True

            def __getitem__(self_, j_):
                cj = I.Env(env, env.globs, qualname=env.qualname, filename=env.filename)
                it.assign(slices_node.generators[0].target, j_, cj)
                return it.eval(slices_node.elt, cj)
        env.vars["slices"] = PerChunk()
        genv = I.Env(env, env.globs, qualname=env.qualname, filename=env.filename)
        it.assign(par_node.generators[0].target, SV(i), genv)
        call = par_node.elt
        if not (isinstance(call, ast.Call) and isinstance(call.func, ast.Call)):
            raise I.Unsupported("the per-chunk job is not delayed(write_wfs_chunk)(...)")
        import inspect
        names = list(inspect.signature(WE.write_wfs_chunk).parameters)
        vals = {}
        for nm, a_ in zip(names, call.args):
            vals[nm] = it.eval(a_, genv)
        for kw in call.keywords:
            vals[kw.arg] = it.eval(kw.value, genv)
        ok_tokens = all(vals.get(k_) == v_ for k_, v_ in (("cbin", tokens["bin_file"]), ("wfs_mmap", tokens["wfs"]), ("geom_dict", tokens["h"]), ("channel_labels", tokens["channel_labels"]),
                                                         ("channel_neighbors", tokens["channel_neighbors"]), ("reader_kwargs", tokens["reader_kwargs"]), ("preprocess_steps", tokens["preprocess_steps"])))
        it.ctx.oblige("chunks.job.shared_arguments", z3.BoolVal(bool(ok_tokens)), "post", "every job gets the same file, output array, header, labels, neighbour table and options")
        srsl = vals.get("sr_sl")
        it.ctx.oblige("chunks.job.own_chunk", z3.And(term(vals.get("i_chunk")) == i, z3.BoolVal(isinstance(srsl, tuple) and len(srsl) == 2), term(srsl[0]) == s0.read((i,)), term(srsl[1]) == s1.read((i,)),
                      term(vals.get("chunksize_samples")) == chunk, term(vals.get("trough_offset")) == trough, term(vals.get("spike_length_samples")) == L), "post",
                      "job i gets chunk index i, the bounds of chunk i, the chunk size and the caller's window offset / length")
        sub = vals.get("wf_flat")
        if not isinstance(sub, pdmodel.SFrame):
            raise I.Unsupported("the rows handed to a job are not a row slice of the table")
        m = A.T(sub.n)
        col = sub["sample"].to_numpy()
        wi = sub["waveform_index"].to_numpy()
        it.ctx.oblige("chunks.job.own_rows", z3.And(m == hi - lo, A.forall([q], lambda: z3.Implies(z3.And(q >= 0, q < hi - lo), z3.And(col.read((q,)) == sample.read((lo + q,)), wi.read((q,)) == table["waveform_index"].to_numpy().read((lo + q,)))))), "post",
                      "job i gets the table rows of chunk i (all columns of the same rows)", assume=False)
        # what write_wfs_chunk's contract requires of its caller (harness write_wfs_chunk)
        it.ctx.oblige("chunks.job.meets_write_wfs_chunk_precondition", A.forall([q], lambda: z3.Implies(z3.And(q >= 0, q < hi - lo), z3.And(col.read((q,)) >= s0.read((i,)), col.read((q,)) < s1.read((i,)), s0.read((i,)) == i * chunk))), "post", assume=False)
    S.explore(body)


# ----------------------------------------------------------------------------- extract_wfs_cbin, after the jobs: the saved table is re-sorted so that row r describes traces row r
@harness(PROPERTY, "extract_wfs_cbin_rows", functions=["ibldsp.waveform_extraction:extract_wfs_cbin"], replay=replay_chunks,
         clause="the saved table, traces and channel map describe the same waveforms row by row")
def h_rows(H):
    import ast
    from pyvc import interp as I
    S = H.session("cbin.rows")
    FN = WE.extract_wfs_cbin

    def body(it):
        n, nx, ncg = z3.Ints("nrows nx nchan_geom")
        it.ctx.assume(z3.And(n >= 1, nx >= 1, ncg >= 1))
        sample = A.fresh_array("sample", "int64", (n,), ranged=False)
        cluster = A.fresh_array("cluster", "int64", (n,), ranged=False)
        peak = A.fresh_array("peak_channel", "int64", (n,), ranged=False)
        A.assume_range(peak, 0, ncg - 1)
        it.ctx.assume(ncg <= 30000)
        wi = A.fresh_array("waveform_index", "int64", (n,), ranged=False)
        k, k2 = z3.Int(fresh_name("k")), z3.Int(fresh_name("k"))
        # post-condition of _make_wfs_table (harness make_wfs_table) + ascending spike times (precondition of extract_wfs_cbin)
        it.ctx.assume(z3.ForAll([k, k2], z3.Implies(z3.And(k >= 0, k < k2, k2 < n), sample.uf(k) <= sample.uf(k2)), patterns=[z3.MultiPattern(sample.uf(k), sample.uf(k2))]))
        it.ctx.assume(z3.ForAll([k], z3.Implies(z3.And(k >= 0, k < n), z3.And(wi.uf(k) >= 0, wi.uf(k) < n)), patterns=[wi.uf(k)]))
        it.ctx.assume(z3.ForAll([k, k2], z3.Implies(z3.And(k >= 0, k < n, k2 >= 0, k2 < n, z3.Or(cluster.uf(k) < cluster.uf(k2), z3.And(cluster.uf(k) == cluster.uf(k2), k < k2))), wi.uf(k) < wi.uf(k2)),
                                   patterns=[z3.MultiPattern(wi.uf(k), wi.uf(k2))]))
        w0, s0_, c0, p0 = wi.snapshot(), sample.snapshot(), cluster.snapshot(), peak.snapshot()
        table = pdmodel.SFrame({"sample": sample, "cluster": cluster, "peak_channel": peak, "waveform_index": wi})
        neigh = A.fresh_array("channel_neighbors", "int64", (ncg, nx), ranged=False)
        node, filename = I.SOURCES.funcdef(FN)
        it.session.note_function(FN)
        env = I.Env(None, FN.__globals__, qualname="extract_wfs_cbin", filename=filename)
        env.funcnode = node
        env.vars.update(dict(wf_flat=table, channel_neighbors=neigh))
        it.ctx.func = env.qualname
        sort_st = [st for st in node.body if isinstance(st, ast.Expr) and "wf_flat.sort_values" in ast.unparse(st)]
        map_st = [st for st in node.body if isinstance(st, ast.Assign) and isinstance(st.targets[0], ast.Name) and st.targets[0].id in ("peak_channel", "chan_map")]
        if len(sort_st) != 1 or len(map_st) != 2 or node.body.index(sort_st[0]) > node.body.index(map_st[0]):
            raise I.Unsupported("cannot identify the final re-sort of the table / the channel map in extract_wfs_cbin()")
        it.exec_stmt(sort_st[0], env)
        ls = getattr(table, "last_sort", None)
        if ls is None:
            raise I.Unsupported("the table is not re-sorted with sort_values")
        perm = ls["perm"]
        f = lambda r_: w0((perm.read((r_,)),))          # noqa  traces row of the waveform now described by table row r_
        r, r2 = z3.Ints("r r2")
        it.ctx.oblige("rows.lemma.strictly_increasing", A.forall([r, r2], lambda: z3.Implies(z3.And(r >= 0, r < r2, r2 < n), f(r) < f(r2))), "lemma",
                      "after the re-sort by (unit, sample) the traces rows of consecutive table rows increase (ties in sample keep table order; unit blocks are contiguous)")
        # a strictly increasing map of [0, n) into [0, n) is the identity: two inductions (upwards f(r) >= r, downwards f(r) <= r), applied here
        it.ctx.oblige("rows.lemma.induction_up.base", f(z3.IntVal(0)) >= 0, "lemma", assume=False)
        it.ctx.oblige("rows.lemma.induction_up.step", A.forall([r], lambda: z3.Implies(z3.And(r >= 0, r + 1 < n, f(r) >= r), f(r + 1) >= r + 1)), "lemma", assume=False)
        it.ctx.oblige("rows.lemma.induction_down.base", f(n - 1) <= n - 1, "lemma", assume=False)
        it.ctx.oblige("rows.lemma.induction_down.step", A.forall([r], lambda: z3.Implies(z3.And(r >= 1, r < n, f(r) <= r), f(r - 1) <= r - 1)), "lemma", assume=False)
        rr = z3.Int(fresh_name("r"))
        it.ctx.assume(z3.ForAll([rr], z3.Implies(z3.And(rr >= 0, rr < n), f(rr) == rr), patterns=[perm.read((rr,))]))
        cols = {c_: table[c_].to_numpy() for c_ in ("sample", "cluster", "peak_channel", "waveform_index")}
        it.ctx.oblige("rows.table_row_r_describes_traces_row_r", A.forall([r], lambda: z3.Implies(z3.And(r >= 0, r < n), cols["waveform_index"].read((r,)) == r)), "post",
                      "row r of the saved table is the waveform written to row r of the traces file (write_wfs_chunk puts a waveform at its waveform_index)", assume=False)
        it.ctx.oblige("rows.columns_move_together", A.forall([r], lambda: z3.Implies(z3.And(r >= 0, r < n), z3.And(cols["sample"].read((r,)) == s0_((perm.read((r,)),)), cols["cluster"].read((r,)) == c0((perm.read((r,)),)),
                      cols["peak_channel"].read((r,)) == p0((perm.read((r,)),))))), "post", "the re-sort moves whole rows", assume=False)
        it.exec_block(map_st, env)
        cm = env.vars["chan_map"]
        c = z3.Int("c")
        it.ctx.oblige("rows.channel_map_row_r", z3.And(A.T(cm.shape[0]) == n, A.T(cm.shape[1]) == nx, A.forall([r, c], lambda: z3.Implies(z3.And(r >= 0, r < n, c >= 0, c < nx), cm.read((r, c)) == neigh.read((cols["peak_channel"].read((r,)), c))))), "post",
                      "row r of the channel map is the neighbourhood of the peak channel of table row r", assume=False)
    S.explore(body)


# ----------------------------------------------------------------------------- extract_wfs_cbin: the running index of a waveform within its unit
def groupby_cluster_contract(it, n, cluster, sample):
    """ASSUMED (pandas): df.loc[df['sample'] >= 0, :].groupby('cluster').aggregate(count=('cluster', 'count'), ...) on a frame whose 'cluster'
    column is non decreasing and whose samples are all >= 0 (both OBLIGED here): one row per run of equal unit ids, in row order;
    count[j] = length of run j.  The runs are described by their first rows rb(0) = 0 < rb(1) < ... < rb(nu) = n."""
    r, r2 = z3.Int(fresh_name("r")), z3.Int(fresh_name("r"))
    it.ctx.oblige("running_index.groupby.pre.units_contiguous", A.forall([r, r2], lambda: z3.Implies(z3.And(r >= 0, r < r2, r2 < n), cluster.read((r,)) <= cluster.read((r2,)))), "pre",
                  "the table handed to the per-unit aggregation is sorted by unit", assume=True)
    it.ctx.oblige("running_index.groupby.pre.all_rows_counted", A.forall([r], lambda: z3.Implies(z3.And(r >= 0, r < n), sample.read((r,)) >= 0)), "pre",
                  "the aggregation only counts rows with a sample >= 0: all rows of the table have one", assume=True)
    nu = z3.Int(fresh_name("nunits"))
    rb = z3.Function(fresh_name("run_start"), z3.IntSort(), z3.IntSort())
    runof = z3.Function(fresh_name("run_of"), z3.IntSort(), z3.IntSort())
    j, j2, q = z3.Int(fresh_name("j")), z3.Int(fresh_name("j")), z3.Int(fresh_name("q"))
    cs = cluster.snapshot()
    A.note_fact(nu >= 1, nu <= n, rb(z3.IntVal(0)) == 0, rb(nu) == n,
                z3.ForAll([j, j2], z3.Implies(z3.And(j >= 0, j < j2, j2 <= nu), rb(j) < rb(j2)), patterns=[z3.MultiPattern(rb(j), rb(j2))]),
                z3.ForAll([q], z3.Implies(z3.And(q >= 0, q < n), z3.And(runof(q) >= 0, runof(q) < nu, rb(runof(q)) <= q, q < rb(runof(q) + 1))), patterns=[runof(q)]),
                # a run is a maximal stretch of equal unit ids: a row starts a run iff its unit differs from the row before
                z3.ForAll([q], z3.Implies(z3.And(q >= 1, q < n), (cs((q,)) != cs((q - 1,))) == (rb(runof(q)) == q)), patterns=[runof(q)]),
                # (consequences, stated for the solver's benefit) the run of a first row is that run
                z3.ForAll([j], z3.Implies(z3.And(j >= 0, j < nu), runof(rb(j)) == j), patterns=[rb(j)]))
    count = SArr(np.dtype("int64"), (A.dim(nu),), lambda idx: rb(idx[0] + 1) - rb(idx[0]))
    return nu, rb, runof, count


def _uf_apps_of(t, var):
    """applications f(var) of uninterpreted functions inside t (usable as quantifier patterns)"""
    out, seen, todo = [], set(), [z3.simplify(t)]
    while todo:
        x = todo.pop()
        if x.get_id() in seen or not z3.is_app(x):
            continue
        seen.add(x.get_id())
        if x.decl().kind() == z3.Z3_OP_UNINTERPRETED and x.num_args() == 1 and x.arg(0).eq(var):
            out.append(x)
        todo.extend(x.children())
    return out[:4]


def _run_start_lemma(it, n, pos, rank, cnt, rb, runof, nu):
    """proof hint: the rows where the unit changes, enumerated in order (pos), are the first rows of runs 1, 2, ... (rb): two strictly increasing
    enumerations of the same set.  g(k) = run of pos(k) and h(j) = rank of rb(j) are inverse of each other and increasing, so g(k) = k + 1 (induction)"""
    k, j = z3.Int(fresh_name("k")), z3.Int(fresh_name("j"))
    g = lambda k_: runof(pos(k_))       # noqa
    h = lambda j_: rank(rb(j_))         # noqa
    it.ctx.oblige("running_index.lemma.a_change_starts_a_run", z3.ForAll([k], z3.Implies(z3.And(k >= 0, k < cnt), z3.And(g(k) >= 1, g(k) < nu, rb(g(k)) == pos(k))), patterns=[pos(k)]), "lemma")
    it.ctx.oblige("running_index.lemma.a_run_starts_at_a_change", z3.ForAll([j], z3.Implies(z3.And(j >= 1, j < nu), z3.And(h(j) >= 0, h(j) < cnt, pos(h(j)) == rb(j))), patterns=[rb(j)]), "lemma")
    it.ctx.oblige("running_index.lemma.changes_are_run_starts.base", z3.Implies(cnt >= 1, g(z3.IntVal(0)) == 1), "lemma", assume=False)
    jj = z3.Int(fresh_name("j"))
    it.ctx.oblige("running_index.lemma.changes_are_run_starts.step",
                  A.forall([jj], lambda: z3.Implies(z3.And(jj >= 0, jj + 1 < cnt, g(jj) == jj + 1), g(jj + 1) == jj + 2)), "lemma", assume=False)
    j3 = z3.Int(fresh_name("j"))
    it.ctx.assume(z3.ForAll([j3], z3.Implies(z3.And(j3 >= 0, j3 < cnt), z3.And(g(j3) == j3 + 1, pos(j3) == rb(j3 + 1))), patterns=[pos(j3)]))
    it.ctx.oblige("running_index.lemma.changes_count", cnt == nu - 1, "lemma", "as many unit changes as units but one")


@harness(PROPERTY, "extract_wfs_cbin_running_index", functions=["ibldsp.waveform_extraction:extract_wfs_cbin"], replay=replay_chunks,
         clause="the saved table numbers the waveforms of each unit 0, 1, 2, ... in row order (the loader selects waveforms of a unit through this column)")
def h_running(H):
    import ast
    from pyvc import interp as I
    S = H.session("cbin.running_index")
    FN = WE.extract_wfs_cbin

    def body(it):
        n = z3.Int("nrows")
        it.ctx.assume(z3.And(n >= 1, n <= 2 ** 40))
        sample = A.fresh_array("sample", "int64", (n,), ranged=False)
        cluster = A.fresh_array("cluster", "int64", (n,), ranged=False)
        wi = A.fresh_array("waveform_index", "int64", (n,), ranged=False)
        k = z3.Int(fresh_name("k"))
        it.ctx.assume(z3.ForAll([k], z3.Implies(z3.And(k >= 0, k < n), sample.uf(k) >= 0), patterns=[sample.uf(k)]))      # spike times are sample numbers (>= 0): _make_wfs_table copies them
        table = pdmodel.SFrame({"sample": sample, "cluster": cluster, "waveform_index": wi})
        node, filename = I.SOURCES.funcdef(FN)
        it.session.note_function(FN)
        env = I.Env(None, FN.__globals__, qualname="extract_wfs_cbin", filename=filename)
        env.funcnode = node
        env.vars.update(dict(wf_flat=table))
        it.ctx.func = env.qualname
        src = [ast.unparse(st) for st in node.body]
        i_sort = [i for i, t in enumerate(src) if "wf_flat.sort_values" in t]
        i_agg = [i for i, t in enumerate(src) if t.startswith("df_clusters = aggregate_by_clusters(")]
        i_last = [i for i, t in enumerate(src) if "index_within_clusters" in t]
        if len(i_sort) != 1 or len(i_agg) != 1 or not i_last or not (i_sort[0] < i_agg[0] < i_last[0]):
            raise I.Unsupported("cannot identify the re-sort / aggregation / running index statements of extract_wfs_cbin()")
        got = {}

        def agg_summary(it_, a, k_):
            f = a[0]
            if f is not env.vars["wf_flat"]:
                raise I.Unsupported("aggregate_by_clusters() of another table")
            cl, sm = f["cluster"].to_numpy(), f["sample"].to_numpy()
            got["cluster"] = cl.snapshot()
            nu, rb, runof, count = groupby_cluster_contract(it_, n, cl, sm)
            got.update(nu=nu, rb=rb, runof=runof)
            fi = A.fresh_array("first_index", "int64", (A.dim(nu),), ranged=False)
            li = A.fresh_array("last_index", "int64", (A.dim(nu),), ranged=False)
            return pdmodel.SFrame({"count": count, "first_index": fi, "last_index": li})
        it.session.contracts[WE.aggregate_by_clusters] = agg_summary
        it.exec_stmt(node.body[i_sort[0]], env)
        it.exec_stmt(node.body[i_agg[0]], env)
        if "rb" not in got:
            raise I.Unsupported("the per-unit aggregation is not aggregate_by_clusters(wf_flat)")
        rb, runof, nu = got["rb"], got["runof"], got["nu"]
        r = z3.Int("r")
        want = lambda r_: r_ - rb(runof(r_))        # noqa  position of row r_ within its run
        # the statements that build the column: everything from the first to the last statement mentioning it
        for st in node.body[i_last[0]:i_last[-1] + 1]:
            tgt = st.targets[0] if isinstance(st, ast.Assign) and len(st.targets) == 1 else None
            masks = []
            if isinstance(tgt, ast.Subscript) and isinstance(tgt.value, ast.Attribute) and tgt.value.attr == "loc" and isinstance(tgt.slice, ast.Tuple) and len(tgt.slice.elts) == 2 \
                    and isinstance(tgt.slice.elts[1], ast.Constant) and tgt.slice.elts[1].value == "index_within_clusters":
                m_ = it.eval(tgt.slice.elts[0], env)
                m_ = m_.arr if isinstance(m_, pdmodel.SSeries) else m_
                if isinstance(m_, SArr) and m_.ndim == 1 and m_.dtype.kind == "b":
                    masks.append(A.where1d(m_).where_of[0])
            # hint for a mask assignment into the column: the rows the mask selects, enumerated in order, are the first rows of runs 1, 2, ...
            # whenever the mask marks the unit changes (two strictly increasing enumerations of the same set); by induction on j, applied here
            for w_ in masks:
                pos, cnt, ms_ = w_["rows"], w_["count"], w_["mask"]
                cl_ = got["cluster"]
                q_ = z3.Int(fresh_name("q"))
                is_change_mask = z3.Implies(z3.And(q_ >= 0, q_ < n), ms_((q_,)) == z3.And(q_ >= 1, cl_((q_,)) != cl_((q_ - 1,))))      # q_ is a fresh constant: holds for every row
                if not it.ctx.entails(is_change_mask):
                    continue
                _run_start_lemma(it, n, pos, w_["rank"], cnt, rb, runof, nu)
            it.exec_stmt(st, env)
        col = env.vars["wf_flat"]["index_within_clusters"].to_numpy()
        qq, ju = z3.Int(fresh_name("q")), z3.Int(fresh_name("j"))
        it.ctx.oblige("running_index.lemma.run_of_a_row_is_unique", z3.ForAll([qq, ju], z3.Implies(z3.And(qq >= 0, qq < n, ju >= 0, ju < nu, rb(ju) <= qq, qq < rb(ju + 1)), runof(qq) == ju),
                                                                             patterns=[z3.MultiPattern(runof(qq), rb(ju))]), "lemma")
        it.ctx.oblige("running_index.shape", A.T(col.shape[0]) == n, "post", assume=False)
        it.ctx.oblige("running_index.induction.base", col.read((z3.IntVal(0),)) == 0, "lemma", "the first row of the table is waveform 0 of its unit", assume=False)
        cl = got["cluster"]
        it.ctx.oblige("running_index.induction.step.same_unit", A.forall([r], lambda: z3.Implies(z3.And(r >= 0, r + 1 < n, col.read((r,)) == want(r), cl((r + 1,)) == cl((r,))), col.read((r + 1,)) == want(r + 1))), "lemma",
                      "row r+1 continues the numbering of its unit", assume=False)
        it.ctx.oblige("running_index.induction.step.new_unit", A.forall([r], lambda: z3.Implies(z3.And(r >= 0, r + 1 < n, col.read((r,)) == want(r), cl((r + 1,)) != cl((r,))), col.read((r + 1,)) == want(r + 1))), "lemma",
                      "row r+1 restarts the numbering at 0 when the unit changes", assume=False)
        rr = z3.Int(fresh_name("r"))
        it.ctx.assume(z3.ForAll([rr], z3.Implies(z3.And(rr >= 0, rr < n), col.read((rr,)) == want(rr)), patterns=[runof(rr)] + _uf_apps_of(col.read((rr,)), rr)))
        cl = got["cluster"]
        r2 = z3.Int("r2")
        it.ctx.oblige("running_index.numbers_each_unit_from_zero", A.forall([r], lambda: z3.Implies(z3.And(r >= 0, r < n), z3.And(
            col.read((r,)) >= 0, z3.Implies(z3.Or(r == 0, cl((r,)) != cl((r - 1,))), col.read((r,)) == 0),
            z3.Implies(z3.And(r >= 1, cl((r,)) == cl((r - 1,))), col.read((r,)) == col.read((r - 1,)) + 1)))), "post",
            "0 on the first row of a unit, one more than the row before otherwise", assume=False)
    S.explore(body)


# ----------------------------------------------------------------------------- WaveformsLoader.load_waveforms (data version 2)
def replay_loader(vals, oid):
    b, _ = native_e2e(np.random.default_rng(21), 6100, 1000, 1, sizes=[5, 16, 30], max_wf=16, seed=4)
    b = [x for x in b if x[0].startswith("loader")]
    return {"failed": bool(b), "examples": [repr(x)[:200] for x in b[:3]]}


@harness(PROPERTY, "load_waveforms", functions=["ibldsp.waveform_extraction:WaveformsLoader.load_waveforms"], replay=replay_loader,
         clause="the loader returns what was saved: the rows of the requested units (and running indices), with their own traces, table rows and channel maps")
def h_loader(H):
    import iblutil.numerical
    for with_indices in (False, True):
        S = H.session(f"loader.indices{with_indices}")

        def body(it, with_indices=with_indices):
            nw, nc, L, nl, ni = z3.Ints("nwaveforms nc spike_length nlabels nindices")
            it.ctx.assume(z3.And(nw >= 1, nc >= 1, L >= 1, nl >= 1, ni >= 1))
            traces = A.fresh_array("traces", "float32", (nw, nc, L))
            chans = A.fresh_array("channels", "int64", (nw, nc), ranged=False)
            cluster = A.fresh_array("cluster", "int64", (nw,), ranged=False)
            running = A.fresh_array("index_within_clusters", "int64", (nw,), ranged=False)
            sample = A.fresh_array("sample", "int64", (nw,), ranged=False)
            labels = A.fresh_array("labels", "int64", (nl,), ranged=False)
            indices = A.fresh_array("indices", "int64", (ni,), ranged=False) if with_indices else None
            table = pdmodel.SFrame({"sample": sample, "cluster": cluster, "index_within_clusters": running})

            def ismember_summary(it_, a, k):
                # A-IBLUTIL ismember(a, b)[0] == np.isin(a, b) (its first line); the locations are not used by the loader
                return pdmodel.membership(a[0], a[1]), None
            it.session.contracts[iblutil.numerical.ismember] = ismember_summary
            it.session.contracts[WE.ismember] = ismember_summary
            ldr = SObj(WE.WaveformsLoader, data_version=2, traces=traces, channels=chans, df_wav=table, df_clusters=None)
            wfs, info, ch = run_function(it, WE.WaveformsLoader.load_waveforms, [ldr], {"labels": labels, "indices": indices})
            tag = f"indices{with_indices}"
            it.ctx.oblige(f"loader.returns_copies.{tag}", z3.BoolVal(not A.shares_memory(wfs, traces) and not A.shares_memory(ch, chans)), "post",
                          "what the loader returns does not share memory with the saved (memory-mapped) arrays: post-processing a result in place cannot rewrite the files")
            ml = getattr(it.ctx, "member_log", [])
            wl = [w_ for w_ in it.ctx.where_log if w_["ndim"] == 1]
            if len(ml) != (2 if with_indices else 1) or not wl:
                raise Unsupported("cannot identify the label / index membership tests and the row selection of load_waveforms()")
            in_labels = lambda r_: z3.Exists([z3.Int("jl")], z3.And(z3.Int("jl") >= 0, z3.Int("jl") < nl, labels.read((z3.Int("jl"),)) == cluster.read((r_,))))       # noqa
            in_indices = (lambda r_: z3.Exists([z3.Int("ji")], z3.And(z3.Int("ji") >= 0, z3.Int("ji") < ni, indices.read((z3.Int("ji"),)) == running.read((r_,))))) if with_indices else (lambda r_: z3.BoolVal(True))  # noqa
            wanted = lambda r_: z3.And(in_labels(r_), in_indices(r_))     # noqa
            n_out = A.T(wfs.shape[0])
            k, k2, c, t, r = z3.Ints("k k2 c t r")
            # the selected rows as a function of the output position: recovered from the returned table (its 'sample' column is a gather of the table's)
            rows = _loader_rows(it, wl, with_indices)
            it.ctx.oblige(f"loader.rows.sound_and_ordered.{tag}", z3.And(A.T(info.n) == n_out, A.T(ch.shape[0]) == n_out,
                          A.forall([k], lambda: z3.Implies(z3.And(k >= 0, k < n_out), z3.And(rows(k) >= 0, rows(k) < nw, wanted(rows(k))))),
                          A.forall([k, k2], lambda: z3.Implies(z3.And(k >= 0, k < k2, k2 < n_out), rows(k) < rows(k2)))), "post",
                          "every returned row belongs to a requested unit (and running index); rows come in table order, none twice", assume=False)
            it.ctx.oblige(f"loader.rows.complete.{tag}", A.forall([r], lambda: z3.Implies(z3.And(r >= 0, r < nw, wanted(r)), z3.Exists([k], z3.And(k >= 0, k < n_out, rows(k) == r)))), "post",
                          "every saved row of a requested unit (and running index) is returned", assume=False)
            it.ctx.oblige(f"loader.same_rows_everywhere.{tag}", z3.And(
                A.forall([k, c, t], lambda: z3.Implies(z3.And(k >= 0, k < n_out, c >= 0, c < nc, t >= 0, t < L), wfs.read((k, c, t)) == traces.read((rows(k), c, t)))),
                A.forall([k, c], lambda: z3.Implies(z3.And(k >= 0, k < n_out, c >= 0, c < nc), ch.read((k, c)) == chans.read((rows(k), c)))),
                A.forall([k], lambda: z3.Implies(z3.And(k >= 0, k < n_out), z3.And(info["sample"].to_numpy().read((k,)) == sample.read((rows(k),)), info["cluster"].to_numpy().read((k,)) == cluster.read((rows(k),)))))), "post",
                "waveforms, table rows and channel maps returned at position k all come from the same saved row", assume=False)
        S.explore(body)


def _loader_rows(it, wl, with_indices):
    """position k of the output -> saved row: the where() enumeration of the label mask, then (with indices) of the running-index mask within it"""
    first = wl[0]
    if not with_indices:
        return lambda k: first["rows"](k)
    if len(wl) < 2:
        raise Unsupported("cannot identify the second selection (running indices) of load_waveforms()")
    second = wl[-1]
    return lambda k: first["rows"](second["rows"](k))


# ----------------------------------------------------------------------------- make_channel_index: neighbours within the radius, ascending, padded
def replay_channel_index(vals, oid):
    """brute-force reference on lattice geometries where several distances equal the radius exactly (Pythagorean spacings)"""
    rng = np.random.default_rng(7)
    bad = []
    for t in range(40):
        nc = int(rng.integers(1, 40))
        geom = np.c_[rng.integers(0, 4, nc) * 3.0, rng.integers(0, 12, nc) * 4.0]          # 3-4-5 lattice: distance 5.0, 10.0, ... occur exactly
        radius = float(rng.choice([0.0, 3.0, 4.0, 5.0, 10.0, 12.5]))
        pad = [None, None, -1, 10 ** 6][t % 4]          # the padding value is the caller's: the index of its NaN row (default: one past the last channel; -1 = last row of an array)
        got = U.make_channel_index(geom, radius=radius) if pad is None else U.make_channel_index(geom, radius=radius, pad_val=pad)
        d2 = ((geom[:, None, :] - geom[None, :, :]) ** 2).sum(-1)
        rows = [np.flatnonzero(d2[c] <= radius ** 2) for c in range(nc)]
        width = max(len(r_) for r_ in rows)
        want = np.full((nc, width), nc if pad is None else pad, dtype=int)
        for c, r_ in enumerate(rows):
            want[c, :len(r_)] = r_
        if got.shape != want.shape or not np.array_equal(got, want):
            bad.append({"nc": nc, "radius": radius, "pad_val": pad, "shape": got.shape, "expected_shape": want.shape})
    return {"failed": bool(bad), "examples": bad[:3]}


@harness(PROPERTY, "make_channel_index", functions=["ibldsp.utils:make_channel_index"], replay=replay_channel_index,
         clause="the channels lying within the neighbourhood radius of a channel, in ascending order and padded with the index of the NaN row")
def h_channel_index(H):
    import ast
    import scipy.spatial.distance as SD
    from pyvc import interp as I
    S = H.session("channel_index")
    FN = U.make_channel_index

    def body(it):
        nc = z3.Int("nc")
        radius = z3.Real("radius")
        it.ctx.assume(z3.And(nc >= 1, radius >= 0))
        geom = A.fresh_array("geom", "float64", (nc, 2))
        D = A.fresh_array("pairwise_distance", "float64", (nc, nc))
        i, j = z3.Ints("i j")
        # A-SCIPY squareform(pdist(geom)): a symmetric matrix of non negative distances with a zero diagonal (values opaque)
        it.ctx.assume(z3.ForAll([i, j], z3.Implies(z3.And(i >= 0, i < nc, j >= 0, j < nc), z3.And(D.uf(i, j) == D.uf(j, i), D.uf(i, j) >= 0)), patterns=[D.uf(i, j)]))
        it.ctx.assume(z3.ForAll([i], z3.Implies(z3.And(i >= 0, i < nc), D.uf(i, i) == 0), patterns=[D.uf(i, i)]))
        calls = []

        def pdist_summary(it_, a, k):
            calls.append(a[0])
            return "PDIST"
        it.session.contracts[SD.pdist] = pdist_summary
        it.session.contracts[SD.squareform] = lambda it_, a, k: D
        node, filename = I.SOURCES.funcdef(FN)
        it.session.note_function(FN)
        loops = [n_ for n_ in node.body if isinstance(n_, ast.For)]
        if len(loops) != 1:
            raise I.Unsupported("cannot identify the per-channel loop of make_channel_index()")
        loop = loops[0]
        before = node.body[:node.body.index(loop)]
        env = I.Env(None, FN.__globals__, qualname="make_channel_index", filename=filename)
        env.funcnode = node
        env.vars.update(dict(geom=geom, radius=SV(radius), pad_val=None))
        it.ctx.func = env.qualname
        it.exec_block(before, env)
        it.ctx.oblige("neighbours.distances_of_the_geometry", z3.BoolVal(len(calls) == 1 and calls[0] is geom), "post")
        tab = _chan_var(env)
        width = A.T(tab.shape[1])
        r, c2 = z3.Ints("r c2")
        it.ctx.oblige("neighbours.table_shape_and_padding", z3.And(z3.BoolVal(tab.ndim == 2 and tab.dtype.kind == "i"), A.T(tab.shape[0]) == nc,
                      A.forall([r, c2], lambda: z3.Implies(z3.And(r >= 0, r < nc, c2 >= 0, c2 < width), tab.read((r, c2)) == nc))), "post",
                      "before the loop every slot holds the pad value nc (the index of the NaN row)")
        # the column counts the width is the maximum of (np.sum(neighbors, 0)) and the row counts (flatnonzero of a row) count the same thing:
        sums = [q for q in it.ctx.reduce_log if q["name"] == "sum"]
        if len(sums) != 1:
            raise I.Unsupported("cannot identify the neighbour counts (np.sum over one axis) in make_channel_index()")
        sm = sums[0]
        c = z3.Int("c_channel")
        it.ctx.assume(z3.And(c >= 0, c < nc))
        t0 = tab.snapshot()
        nw0 = len([q for q in it.ctx.where_log if q["ndim"] == 1])
        # one symbolic iteration; rows of other channels are arbitrary at this point (havoc) except for their shape
        it.assign(loop.target, SV(c), env)
        near = lambda a_, b_: D.read((a_, b_)) <= radius       # noqa
        # lemma (counting is extensional): the mask of row c and the mask summed for column c are the same set (symmetry), so their counts agree.
        other = 1 - sm["axis"]
        col_mask = (lambda q: sm["input"]((q, c))) if sm["axis"] == 0 else (lambda q: sm["input"]((c, q)))
        it.ctx.oblige("neighbours.lemma.column_mask_is_row_mask", A.forall([i], lambda: z3.Implies(z3.And(i >= 0, i < nc), col_mask(i) == near(c, i))), "lemma",
                      "the boolean column summed for channel c marks exactly the channels within the radius of c (distance symmetric)")
        # the first statement of the body (the selection of this row's neighbours), to get at its where() specification;
        # the assignment into the table is the business of the second session, which may use the counting lemma
        it.exec_stmt(loop.body[0], env)
        w = [q for q in it.ctx.where_log if q["ndim"] == 1][nw0:]
        if len(w) != 1:
            raise I.Unsupported("cannot identify the selection of one channel's neighbours")
        w = w[0]
        it.ctx.oblige("neighbours.row_mask", A.forall([i], lambda: z3.Implies(z3.And(i >= 0, i < nc), w["mask"]((i,)) == near(c, i))), "post",
                      "the neighbours of channel c are the channels within the radius (itself included)")
    S.explore(body)

    # the row itself (second session: the counting lemma above is used as a hypothesis: A-NP-SPEC sum(mask) == len(flatnonzero(mask)))
    S2 = H.session("channel_index.row")

    def row(it):
        nc = z3.Int("nc")
        radius = z3.Real("radius")
        it.ctx.assume(z3.And(nc >= 1, radius >= 0))
        geom = A.fresh_array("geom", "float64", (nc, 2))
        D = A.fresh_array("pairwise_distance", "float64", (nc, nc))
        i, j = z3.Ints("i j")
        it.ctx.assume(z3.ForAll([i, j], z3.Implies(z3.And(i >= 0, i < nc, j >= 0, j < nc), z3.And(D.uf(i, j) == D.uf(j, i), D.uf(i, j) >= 0)), patterns=[D.uf(i, j)]))
        it.ctx.assume(z3.ForAll([i], z3.Implies(z3.And(i >= 0, i < nc), D.uf(i, i) == 0), patterns=[D.uf(i, i)]))
        it.session.contracts[SD.pdist] = lambda it_, a, k: "PDIST"
        it.session.contracts[SD.squareform] = lambda it_, a, k: D
        node, filename = I.SOURCES.funcdef(FN)
        loop = [n_ for n_ in node.body if isinstance(n_, ast.For)]
        if len(loop) != 1:
            raise I.Unsupported("cannot identify the per-channel loop of make_channel_index()")
        loop = loop[0]
        env = I.Env(None, FN.__globals__, qualname="make_channel_index", filename=filename)
        env.funcnode = node
        env.vars.update(dict(geom=geom, radius=SV(radius), pad_val=None))
        it.ctx.func = env.qualname
        it.exec_block(node.body[:node.body.index(loop)], env)
        tab = _chan_var(env)
        width = A.T(tab.shape[1])
        sums = [q for q in it.ctx.reduce_log if q["name"] == "sum"]
        if len(sums) != 1:
            raise I.Unsupported("cannot identify the neighbour counts in make_channel_index()")
        sm = sums[0]
        c = z3.Int("c_channel")
        it.ctx.assume(z3.And(c >= 0, c < nc))
        t0 = tab.snapshot()
        it.assign(loop.target, SV(c), env)
        # A-NP-SPEC: np.sum of a boolean vector == number of True entries == len(flatnonzero(it)); the two vectors are equal (lemma of the first session)
        sel = loop.body[0]
        it.exec_stmt(sel, env)
        w = [q for q in it.ctx.where_log if q["ndim"] == 1]
        if not w:
            raise I.Unsupported("cannot identify the selection of one channel's neighbours")
        w = w[-1]
        it.ctx.assume(sm["out"](c) == w["count"])
        it.exec_block(list(loop.body[1:]), env)
        k, k2, r, c2 = z3.Ints("k k2 r c2")
        cnt = w["count"]
        near = lambda a_, b_: D.read((a_, b_)) <= radius       # noqa
        it.ctx.oblige("neighbours.row.ascending_members", z3.And(cnt <= width,
                      A.forall([k], lambda: z3.Implies(z3.And(k >= 0, k < cnt), z3.And(tab.read((c, k)) >= 0, tab.read((c, k)) < nc, near(c, tab.read((c, k)))))),
                      A.forall([k, k2], lambda: z3.Implies(z3.And(k >= 0, k < k2, k2 < cnt), tab.read((c, k)) < tab.read((c, k2))))), "post",
                      "row c lists channels within the radius of c, in strictly ascending order", assume=False)
        it.ctx.oblige("neighbours.row.complete", A.forall([i], lambda: z3.Implies(z3.And(i >= 0, i < nc, near(c, i)), z3.And(w["rank"](i) >= 0, w["rank"](i) < cnt, tab.read((c, w["rank"](i))) == i))), "post",
                      "every channel within the radius is listed (witness: its rank among them)", assume=False)
        it.ctx.oblige("neighbours.row.padding", A.forall([k], lambda: z3.Implies(z3.And(k >= cnt, k < width), tab.read((c, k)) == nc)), "post", "the rest of the row holds the pad value nc", assume=False)
        it.ctx.oblige("neighbours.row.frame", A.forall([r, c2], lambda: z3.Implies(z3.And(r >= 0, r < nc, r != c, c2 >= 0, c2 < width), tab.read((r, c2)) == t0((r, c2)))), "post", "only row c is written", assume=False)
    S2.explore(row)

    # the padding value is the caller's (index of its NaN row: -1 for the last row of an array, any other number): prologue + one row with a symbolic pad_val
    S3 = H.session("channel_index.pad_val")

    def padded(it):
        nc, pad = z3.Ints("nc pad_val")
        radius = z3.Real("radius")
        it.ctx.assume(z3.And(nc >= 1, radius >= 0))
        H.input(nc=nc, pad_val=pad)
        geom = A.fresh_array("geom", "float64", (nc, 2))
        D = A.fresh_array("pairwise_distance", "float64", (nc, nc))
        i, j = z3.Ints("i j")
        it.ctx.assume(z3.ForAll([i, j], z3.Implies(z3.And(i >= 0, i < nc, j >= 0, j < nc), z3.And(D.uf(i, j) == D.uf(j, i), D.uf(i, j) >= 0)), patterns=[D.uf(i, j)]))
        it.ctx.assume(z3.ForAll([i], z3.Implies(z3.And(i >= 0, i < nc), D.uf(i, i) == 0), patterns=[D.uf(i, i)]))
        it.session.contracts[SD.pdist] = lambda it_, a, k: "PDIST"
        it.session.contracts[SD.squareform] = lambda it_, a, k: D
        node, filename = I.SOURCES.funcdef(FN)
        loop = [n_ for n_ in node.body if isinstance(n_, ast.For)]
        if len(loop) != 1:
            raise I.Unsupported("cannot identify the per-channel loop of make_channel_index()")
        loop = loop[0]
        env = I.Env(None, FN.__globals__, qualname="make_channel_index", filename=filename)
        env.funcnode = node
        env.vars.update(dict(geom=geom, radius=SV(radius), pad_val=SV(pad)))
        it.ctx.func = env.qualname
        it.exec_block(node.body[:node.body.index(loop)], env)
        tab = _chan_var(env)
        width = A.T(tab.shape[1])
        sums = [q for q in it.ctx.reduce_log if q["name"] == "sum"]
        if len(sums) != 1:
            raise I.Unsupported("cannot identify the neighbour counts in make_channel_index()")
        c = z3.Int("c_channel")
        it.ctx.assume(z3.And(c >= 0, c < nc))
        it.assign(loop.target, SV(c), env)
        it.exec_stmt(loop.body[0], env)
        w = [q for q in it.ctx.where_log if q["ndim"] == 1]
        if not w:
            raise I.Unsupported("cannot identify the selection of one channel's neighbours")
        w = w[-1]
        it.ctx.assume(sums[0]["out"](c) == w["count"])
        it.exec_block(list(loop.body[1:]), env)
        k = z3.Int("k")
        cnt = w["count"]
        it.ctx.oblige("neighbours.pad_val.members_first", A.forall([k], lambda: z3.Implies(z3.And(k >= 0, k < cnt), z3.And(tab.read((c, k)) == w["rows"](k), tab.read((c, k)) >= 0, tab.read((c, k)) < nc))), "post",
                      "whatever the padding value, row c starts with the channels within the radius, ascending", assume=False)
        it.ctx.oblige("neighbours.pad_val.rest_is_the_callers_value", A.forall([k], lambda: z3.Implies(z3.And(k >= cnt, k < width), tab.read((c, k)) == pad)), "post",
                      "and the rest of the row holds the caller's padding value (below, within or above the channel numbers)", assume=False)
    S3.explore(padded)


def _chan_var(env):
    from pyvc import interp as I
    v = env.vars.get("channel_idx")
    if not isinstance(v, SArr):
        raise I.Unsupported("cannot identify the neighbour table (local 'channel_idx') in make_channel_index()")
    return v


# ----------------------------------------------------------------------------- bounded
def native_gather(rng, n):
    bad = []
    for t in range(n):
        nc, ns = int(rng.integers(3, 20)), int(rng.integers(200, 400))
        arr = rng.standard_normal((nc, ns)).astype(np.float32)
        if t % 4 == 3:
            arr = (arr * 300).astype([np.int16, np.int32, np.float64][(t // 4) % 3])        # raw counts / double precision traces: the padding is still NaN, the samples the same numbers
        geom = np.c_[rng.integers(0, 3, nc) * 16.0, np.arange(nc) * 20.0]
        cn = U.make_channel_index(geom, radius=float(rng.choice([30, 45, 70])))
        tr, L = int(rng.integers(1, 30)), int(rng.integers(31, 80))
        k = int(rng.integers(1, 12))
        samples = np.sort(rng.integers(tr, ns - (L - tr), k))
        peaks = rng.integers(0, nc, k)
        df = pd.DataFrame({"sample": samples, "peak_channel": peaks})
        wfs, cind, _ = WE.extract_wfs_array(arr, df, cn, trough_offset=tr, spike_length_samples=L, add_nan_trace=True)
        for i in range(k):
            for c in range(cn.shape[1]):
                ch = cn[peaks[i], c]
                want = np.full(L, np.nan, np.float32) if ch == nc else arr[ch, samples[i] - tr: samples[i] - tr + L]
                if not np.array_equal(np.asarray(wfs[i, c], dtype=float), np.asarray(want, dtype=float), equal_nan=True):
                    bad.append((nc, ns, tr, L, int(samples[i])))
        # neighbour table: ascending channels within radius, padded with nc
        d = np.sqrt(((geom[:, None, :] - geom[None, :, :]) ** 2).sum(-1))
        for c in range(nc):
            near = np.flatnonzero(d[c] <= float(cn.shape[1] and 0) + 0) if False else None
        bad += [("neighbours not ascending/padded", c) for c in range(nc) if not (np.all(np.diff(cn[c][cn[c] < nc]) > 0) and np.all(cn[c][np.argmax(cn[c] == nc) if (cn[c] == nc).any() else len(cn[c]):] == nc))]
    return bad


FIXM = os.path.join(os.path.dirname(spikeglx.__file__), "tests", "fixtures", "sample3B_g0_t0.imec1.ap.meta")


def _rec(d, ns, rng):
    nc = 385
    ap = os.path.join(d, "rec.imec1.ap.bin")
    x = rng.integers(-3000, 3000, size=(ns, nc), dtype=np.int16)
    x.tofile(ap)
    with open(FIXM) as f, open(ap[:-3] + "meta", "w") as g:
        for line in f:
            if line.startswith("fileSizeBytes"):
                line = f"fileSizeBytes={ns * nc * 2}\n"
            elif line.startswith("fileTimeSecs"):
                line = f"fileTimeSecs={ns / 30000:.10f}\n"
            g.write(line)
    return ap, x


def native_e2e(rng, ns, chunk, jobs, sizes, max_wf, seed, tail_spikes=False, trough=42, length=128, quiet_until=0):
    """quiet_until > 0: no spike before that sample (leading chunks without any waveform); a spike a few samples after it and one exactly on it"""
    bad = []
    d = tempfile.mkdtemp(prefix="c13_")
    try:
        ap, x = _rec(d, ns, rng)
        sr = spikeglx.Reader(ap)
        V = x[:, :384].astype(np.float32)[:, sr.raw_channel_order[:384]] * sr.sample2volts[sr.raw_channel_order[:384]]
        h = sr.geometry
        sr.close()
        samples, clusters, channels = [], [], []
        for u, k in enumerate(sizes):
            s = rng.integers(quiet_until, ns, k)
            if tail_spikes:
                s[:4] = [ns - 100, ns - 95, ns - (length - trough) - 1, ns - (length - trough) - 1]
            s[:2] = [trough + 1, 1] if not quiet_until else [quiet_until + 10, quiet_until]
            samples.append(s)
            clusters.append(np.full(k, 10 + 3 * u))
            channels.append(rng.integers(0, 384, k))
        samples, clusters, channels = (np.concatenate(a) for a in (samples, clusters, channels))
        order = np.argsort(samples, kind="stable")
        samples, clusters, channels = samples[order], clusters[order], channels[order]
        out = os.path.join(d, "out")
        os.makedirs(out)
        import joblib
        import pathlib
        with joblib.parallel_backend("threading"):
            kw_win = {} if (trough, length) == (42, 128) else {"trough_offset": trough, "spike_length_samples": length}
            WE.extract_wfs_cbin(ap, pathlib.Path(out), samples, clusters, channels, max_wf=max_wf, chunksize_samples=chunk, n_jobs=jobs, preprocess_steps=[], seed=seed, **kw_win)
        wl = WE.WaveformsLoader(out)
        tab = wl.df_wav
        traces = np.load(os.path.join(out, "waveforms.traces.npy"))
        chans = np.load(os.path.join(out, "waveforms.channels.npz"))["channels"]
        templ = np.load(os.path.join(out, "waveforms.templates.npy"))
        geom = np.c_[h["x"], h["y"]]
        cn = U.make_channel_index(geom)
        valid = (samples > trough) & (samples < ns - (length - trough))
        for u, k in enumerate(sizes):
            cl = 10 + 3 * u
            rows = tab[tab["cluster"] == cl]
            nvalid = int(np.sum(valid & (clusters == cl)))
            if len(rows) != min(max_wf, nvalid):
                bad.append(("count", cl, len(rows), min(max_wf, nvalid), "first_valid_index_selected" if valid[0] else ""))
            if len(set(zip(rows["sample"], rows["peak_channel"]))) < len(rows) - 2:
                bad.append(("not distinct", cl))
        for r in range(len(tab)):
            s, pc, wi = int(tab["sample"].iloc[r]), int(tab["peak_channel"].iloc[r]), r
            if not np.array_equal(chans[wi], cn[pc]):
                bad.append(("channels row", r))
                break
            want = np.full((cn.shape[1], length), np.nan, np.float32)
            ok_ch = cn[pc] < 384
            if s - trough < 0 or s - trough + length > ns:
                bad.append(("a spike whose window does not fit in the recording was selected", r, s))
                break
            want[ok_ch] = V[s - trough: s - trough + length, cn[pc][ok_ch]].T
            if not np.array_equal(traces[wi], want, equal_nan=True):
                bad.append(("traces row differs from source", r, s, pc))
                break
        for i, (cl, rec) in enumerate(wl.df_clusters.iterrows()):
            med = np.nanmedian(traces[rec.first_index: rec.last_index + 1], axis=0)
            if not np.array_equal(templ[i], med, equal_nan=True):
                bad.append(("template", cl))
        w, info, ch = wl.load_waveforms(labels=[10])
        if not np.array_equal(w, traces[(tab["cluster"] == 10).to_numpy()], equal_nan=True):
            bad.append(("loader",))
        # the running index within each unit (what the loader selects by) counts 0, 1, 2, ... in table order for every unit
        if "index_within_clusters" in tab.columns:
            want_iw = tab.groupby("cluster").cumcount().to_numpy()
            if not np.array_equal(tab["index_within_clusters"].to_numpy(), want_iw):
                bad.append(("index_within_clusters is not 0..count-1 per unit", tab["index_within_clusters"].to_numpy()[:12].tolist()))
            for u, k in enumerate(sizes):
                cl = 10 + 3 * u
                rows_cl = np.flatnonzero((tab["cluster"] == cl).to_numpy())
                pick = [j for j in (0, 2, len(rows_cl) - 1) if 0 <= j < len(rows_cl)]
                if not pick:
                    continue
                w2, info2, _ = wl.load_waveforms(labels=[cl], indices=sorted(set(pick)))
                if not np.array_equal(w2, traces[rows_cl[sorted(set(pick))]], equal_nan=True):
                    bad.append(("loader with indices", cl, sorted(set(pick)), np.shape(w2)))
                # indices running up to max_wf (past the size of a small unit, incl. exactly its count): the unit's own rows only
                for ind in (np.arange(max_wf), np.array([len(rows_cl)]), np.array([0, len(rows_cl), len(rows_cl) + 1])):
                    try:
                        w3, info3, ch3 = wl.load_waveforms(labels=[cl], indices=ind)
                    except Exception as e:
                        bad.append(("loader with indices raised", cl, ind[:5].tolist(), repr(e)[:80]))
                        continue
                    keep = rows_cl[[j for j in range(len(rows_cl)) if j in set(ind.tolist())]]
                    if not (np.array_equal(w3, traces[keep], equal_nan=True) and np.array_equal(info3["cluster"].to_numpy(), tab["cluster"].to_numpy()[keep]) and np.array_equal(ch3, chans[keep])):
                        bad.append(("loader with indices beyond the unit size", cl, ind[:5].tolist(), np.shape(w3), len(keep)))
        return bad, (tab[["sample", "cluster", "peak_channel"]].to_numpy().copy(), traces.copy())
    finally:
        shutil.rmtree(d, ignore_errors=True)


@bounded(PROPERTY, "native_extraction", bound="extract_wfs_array on random traces/geometries (200 cases); end-to-end extract_wfs_cbin -> files -> WaveformsLoader on a 385-channel random recording: ns in {6100, 9000} "
         "x chunk sizes {500, 1000, 3000, ns} x workers {1, 3} x unit sizes below/at/above max_wf, spikes at file edges and in the last 86..128 samples (quick: 4 runs, thorough: 24); "
         "windows 60/128 and 20/90 with spikes in both margins; recordings whose first one or two chunks hold no spike, first spike on / just after a chunk start",
         clause="selection counts, table/traces/channels/templates row by row, per-unit running index, chunk-size and worker independence, loader by label and by index")
def b_native(B):
    rng = np.random.default_rng(B.seed)
    bad = native_gather(rng, 60 if B.tier == "quick" else 400)
    B.case("extract_wfs_array_random", not bad, detail=bad[:4])
    r = replay_channel_index({}, "")
    B.case("make_channel_index_lattices", not r["failed"], detail=r)
    bad = native_table(rng, 150 if B.tier == "quick" else 1500)
    B.case("make_wfs_table_generated", not bad, detail=bad[:4], inputs={"kind": "table"})
    runs = [(6100, 500, 1), (6100, 3000, 3), (6100, 6100, 1), (9000, 1000, 3)]
    if B.tier == "thorough":
        runs = [(ns, ch, j) for ns in (6100, 9000) for ch in (500, 1000, 2000, 3000, ns) for j in (1, 3)]
    ref = {}
    for ns, chunk, jobs in runs:
        r2 = np.random.default_rng(B.seed + ns)          # same spikes for all chunkings of one recording length
        bad, res = native_e2e(r2, ns, chunk, jobs, sizes=[5, 16, 40], max_wf=16, seed=7, tail_spikes=True)
        idx0 = [x for x in bad if x[0] == "count" and x[-1] == "first_valid_index_selected"]
        other = [x for x in bad if x not in idx0]
        if ns in ref:
            if not (np.array_equal(ref[ns][0], res[0]) and np.array_equal(ref[ns][1], res[1], equal_nan=True)):
                other.append(("result depends on chunk size / worker count", chunk, jobs))
        else:
            ref[ns] = res
        B.case(("e2e", ns, chunk, jobs), not other, detail=other[:4], inputs={"kind": "e2e", "ns": ns, "chunk": chunk, "jobs": jobs})
    # a window other than the default 42 / 128 (spikes in the margins at both ends), and leading chunks without any selected spike
    for ns, chunk, jobs, kw in ((6100, 3000, 1, dict(trough=60, length=128)), (6100, 1000, 3, dict(trough=20, length=90)), (9000, 3000, 1, dict(quiet_until=3000)), (9000, 1000, 3, dict(quiet_until=6000)))[:None if B.tier == "thorough" else 3]:
        bad, res = native_e2e(np.random.default_rng(B.seed + 11), ns, chunk, jobs, sizes=[5, 16, 40], max_wf=16, seed=7, tail_spikes=True, **kw)
        other = [x for x in bad if not (x[0] == "count" and x[-1] == "first_valid_index_selected")]
        B.case(("e2e_window_or_quiet_start", ns, chunk, jobs, tuple(sorted(kw.items()))), not other, detail=other[:4], inputs={"kind": "e2e_window", "ns": ns, "chunk": chunk, **kw})
    # every unit at or above max_wf (no zero padding in the index table)
    for ns, chunk, jobs in runs[:2]:
        bad, res = native_e2e(np.random.default_rng(B.seed + 5), ns, chunk, jobs, sizes=[24, 19, 40], max_wf=16, seed=3)
        other = [x for x in bad if not (x[0] == "count" and x[-1] == "first_valid_index_selected")]
        B.case(("e2e_all_units_full", ns, chunk, jobs), not other, detail=other[:4], inputs={"kind": "e2e_full", "ns": ns, "chunk": chunk})
    # F-C13-1: spike index 0 valid and selected is dropped
    d = tempfile.mkdtemp(prefix="c13_")
    try:
        ap, x = _rec(d, 5000, rng)
        sr = spikeglx.Reader(ap)
        s = np.sort(rng.choice(np.arange(100, 4800), 30, replace=False))
        tab, units = WE._make_wfs_table(sr, s, np.zeros(30, int), np.zeros(30, int), max_wf=64, seed=1)
        sr.close()
        B.case("first_spike_valid_and_selected", len(tab) == 30, detail=f"{len(tab)} rows for a unit with 30 valid spikes (spike index 0 is dropped)", inputs={"kind": "index0"})
    finally:
        shutil.rmtree(d, ignore_errors=True)
