"""C07 - Fourier time shift is an exact, composable delay.

Function under contract: ibldsp.fourier.fshift (structure: what is transformed along which axis, with which length, how per-trace shifts are
broadcast, what happens to the input).  The shift theorem itself (integer shift == roll, composition, band-limited delay) and the delay estimators
(wave_shift_corrmax, parabolic_max) are numerics: bounded stand-in on the full impulse basis.
"""
import numpy as np
import z3

import ibldsp.fourier as F
import ibldsp.utils as U
import ibldsp.waveforms as W
from pyvc.api import harness, bounded, property_meta, run_function
from pyvc.core import SV, term, fresh_name, Unsupported
from pyvc import arrays as A
from pyvc.arrays import SArr

PROPERTY = "C07"
property_meta(
    PROPERTY, level="other",
    trusted_base=["A-PY", "A-NP-INDEX", "A-FFT (rfft / irfft shapes, linear; contents opaque)", "A-REAL",
                  "the shift theorem itself is not provable over an opaque transform (it would have to be assumed): numerics are bounded"],
    explanation="fshift executed symbolically for 1-D and 2-D inputs along either axis, scalar and per-trace shifts: output shape and dtype equal the input's, the real input array is not written to, the inverse transform is asked for "
                "the original length along the same axis, per-trace shifts are reshaped so that they vary along the other axis only, and the data are multiplied by exp(1j * angle(rfft(unit delay)) * s). "
                "Integer shift == roll, zero shift == identity, composition, fractional band-limited delay, delay estimation: bounded stand-in on the impulse basis (linearity lifts it to all signals of a length).")


def _run(H, ndim, axis, per_trace, dtype):
    S = H.session(f"fshift.{ndim}d.axis{axis}.{'vec' if per_trace else 'scalar'}.{dtype}")

    def body(it):
        dims = [z3.Int(f"d{q}") for q in range(ndim)]
        for d in dims:
            it.ctx.assume(d >= 2)
        w = A.fresh_array("w", dtype, tuple(dims))
        w0 = w.snapshot()
        ax = axis % ndim
        if per_trace:
            other = dims[1 - ax]
            s = A.fresh_array("s", "float64", (other,))
        else:
            s = SV(z3.Real("s"))
        out = run_function(it, F.fshift, [w, s], {"axis": axis})
        tag = f"{ndim}d.axis{axis}.{'vec' if per_trace else 'scalar'}.{dtype}"
        it.ctx.oblige(f"fshift.shape_dtype.{tag}", z3.And(z3.BoolVal(out.ndim == ndim and out.dtype == np.dtype(dtype)), *[A.T(out.shape[q]) == dims[q] for q in range(ndim)]), "post", "shape and dtype are preserved")
        idx = [z3.Int(f"i{q}") for q in range(ndim)]
        rng = z3.And(*[z3.And(i >= 0, i < d) for i, d in zip(idx, dims)])
        it.ctx.oblige(f"fshift.input_untouched.{tag}", A.forall(idx, lambda: z3.Implies(rng, w.read(tuple(idx)) == w0(tuple(idx)))), "post", "a real-valued input array is left untouched", assume=False)
        log = it.ctx.fft_log
        kinds = [(e["kind"], e["axis"]) for e in log]
        if [kd for kd, _ in kinds] != ["rfft", "rfft", "irfft"]:
            # another way of building the phase ramp / transforming: the structural obligations below do not apply (the bounded stand-in still decides)
            raise Unsupported(f"cannot identify the unit-delay / data / inverse transforms of fshift (found {[kd for kd, _ in kinds]})")
        it.ctx.oblige(f"fshift.transforms.{tag}", z3.BoolVal(kinds == [("rfft", ax), ("rfft", ax), ("irfft", ax)]), "post", "unit-delay ramp and data are transformed along the shift axis, and back along the same axis")
        if kinds == [("rfft", ax), ("rfft", ax), ("irfft", ax)]:
            it.ctx.oblige(f"fshift.inverse_length.{tag}", A.T(log[2]["out"].shape[ax]) == dims[ax], "post", "the inverse transform returns the original number of samples (odd and even lengths)")
            d_in = log[0]
            j = z3.Int("j")
            one_at = lambda pos: z3.If(pos == 1, z3.RealVal(1), z3.RealVal(0))     # noqa
            probe = tuple(j if q == ax else z3.IntVal(0) for q in range(ndim))
            it.ctx.oblige(f"fshift.unit_delay_ramp.{tag}", z3.And(*[A.T(d_in["in_shape"][q]) == (dims[ax] if q == ax else 1) for q in range(ndim)],
                          A.forall([j], lambda: z3.Implies(z3.And(j >= 0, j < dims[ax]), d_in["in"](probe) == one_at(j)))), "post", "the phase ramp comes from an impulse delayed by exactly one sample along the shift axis", assume=False)
            it.ctx.oblige(f"fshift.data_transformed.{tag}", A.forall(idx, lambda: z3.Implies(rng, log[1]["in"](tuple(idx)) == w0(tuple(idx)))), "post", assume=False)
    S.explore(body)


@harness(PROPERTY, "fshift_structure", functions=["ibldsp.fourier:fshift"],
         clause="each trace can receive its own shift along either axis, shape and dtype are preserved and a real-valued input array is left untouched")
def h_fshift(H):
    _run(H, 1, -1, False, "float64")
    _run(H, 2, -1, False, "float32")
    _run(H, 2, 0, False, "float64")
    _run(H, 2, -1, True, "float32")
    _run(H, 2, 0, True, "float64")


# ----------------------------------------------------------------------------- bounded numerics
def _band_limited(n, rng):
    k = np.arange(n // 2 + 1)
    spec = (rng.standard_normal(k.size) + 1j * rng.standard_normal(k.size)) * (k < n // 4) * (k > 0)
    return np.fft.irfft(spec, n)


def native_shift(sizes, rng):
    bad = []
    for n in sizes:
        for dt in (np.float64, np.float32):
            tol = 1e-9 if dt == np.float64 else 2e-5
            E = np.eye(n, dtype=dt)
            for s in {0, 1, -1, n // 2, 3 % n, -(n - 1)}:
                a = E.copy()
                y = F.fshift(a, s, axis=-1)
                if y.shape != E.shape or y.dtype != dt or not np.array_equal(a, E):
                    bad.append(("shape/dtype/input", n, s))
                if not np.allclose(y, np.roll(E, s, axis=-1), atol=tol):
                    bad.append(("integer shift != roll (axis -1)", n, s, str(dt.__name__)))
                y0 = F.fshift(E.copy(), s, axis=0)
                if not np.allclose(y0, np.roll(E, s, axis=0), atol=tol):
                    bad.append(("integer shift != roll (axis 0)", n, s))
            if dt == np.float64 and n >= 4:
                s1, s2 = 0.37, 1.41
                if n % 2 == 1 or True:
                    x = _band_limited(n, rng)[None, :].repeat(3, axis=0) if n >= 8 else None
                if x is not None:
                    if not np.allclose(F.fshift(F.fshift(x, s1), s2), F.fshift(x, s1 + s2), atol=1e-9):
                        bad.append(("composition", n))
                    tt = np.arange(n)
                    # analytic delay of a band-limited periodic signal
                    X = np.fft.rfft(x[0])
                    kk = np.arange(X.size)
                    want = np.fft.irfft(X * np.exp(-2j * np.pi * kk * s1 / n), n)
                    if not np.allclose(F.fshift(x, s1)[0], want, atol=1e-9):
                        bad.append(("fractional delay", n))
                    per = np.array([0.0, 1.0, -2.5])
                    yp = F.fshift(x, per, axis=-1)
                    if not all(np.allclose(yp[i], F.fshift(x[i], per[i]), atol=1e-9) for i in range(3)):
                        bad.append(("per-trace shifts axis -1", n))
                    yp0 = F.fshift(x.T.copy(), per, axis=0)
                    if not np.allclose(yp0, yp.T, atol=1e-9):
                        bad.append(("per-trace shifts axis 0", n))
    return bad


def native_large_shifts(rng):
    """single-precision traces shifted by many samples (half the window and more): still the circular roll to single-precision accuracy"""
    bad = []
    for n in (1500, 2048):
        x = np.stack([_band_limited(n, rng) for _ in range(4)]).astype(np.float32)
        x /= np.abs(x).max()
        for sh in (n // 2, -(n // 2) + 3, 700, np.array([n // 2, -600, 1023, 5])):
            y = F.fshift(x.copy(), sh, axis=-1)
            want = np.stack([np.roll(x[i], int(np.atleast_1d(sh)[i % np.atleast_1d(sh).size])) for i in range(4)])
            err = float(np.max(np.abs(y - want)))
            if y.dtype != np.float32 or err > 1e-5:
                bad.append(("float32 traces, large integer shift != roll", n, np.atleast_1d(sh).tolist(), err))
    return bad


def native_shift_waveform(rng):
    """shift_waveform on a cluster of waveforms: each waveform is moved by the shift reported for it (by 0: returned unchanged), all traces of a waveform alike"""
    bad = []
    for nlen, dt in ((100, np.float64), (121, np.float32), (128, np.float64)):
        t = np.arange(nlen)
        base = np.stack([-a_ * np.exp(-0.5 * ((t - nlen * 0.42) / 3.0) ** 2) + 0.3 * a_ * np.exp(-0.5 * ((t - nlen * 0.42 - 10) / 6.0) ** 2) for a_ in (1.0, 0.6, 0.3)])   # (trace, time)
        jit = (0.0, 1.3, -2.0, 0.0, 0.4)
        for cluster in ("single spike", "identical copies", "jittered", "jittered, one trace outside the probe (all NaN)", "jittered, NaN trace first", "jittered, followed by more all-NaN waveforms than spikes"):
            if cluster == "single spike":
                wfs = base[None].astype(dt)
            elif cluster == "identical copies":
                wfs = np.stack([base] * 4).astype(dt)
            else:
                wfs = np.stack([F.fshift(base, s_, axis=-1) for s_ in jit]).astype(dt)
                if "more all-NaN waveforms" in cluster:     # a unit with fewer spikes than rows reserved for it: the rest of its block is NaN
                    wfs = np.concatenate([wfs, np.full((wfs.shape[0] + 3,) + wfs.shape[1:], np.nan, dtype=dt)], axis=0)
                elif "NaN" in cluster:      # what the extraction returns for the channels of the neighbourhood that lie outside the probe
                    pad = np.full((wfs.shape[0], 1, nlen), np.nan, dtype=dt)
                    wfs = np.concatenate([pad, wfs] if "first" in cluster else [wfs, pad], axis=1)
            out, sh = W.shift_waveform(wfs.copy())
            if out.shape != wfs.shape:
                bad.append(("shape", nlen, cluster))
                continue
            for i in range(wfs.shape[0]):
                want = F.fshift(wfs[i].astype(float), sh[i], axis=-1)
                if not np.allclose(np.nan_to_num(out[i]), np.nan_to_num(want), atol=1e-5):
                    bad.append(("waveform not moved by the shift reported for it (a shift of 0 must return it unchanged)", nlen, cluster, i, float(sh[i]), float(np.nanmax(np.abs(out[i] - want)))))
            if cluster.startswith("jittered"):
                # copies of one waveform delayed by known amounts: the shifts applied undo the delays (up to one common offset), so that the copies re-align
                resid = np.asarray(sh, dtype=float)[:len(jit)] + np.asarray(jit)
                if not np.all(np.abs(resid - resid[0]) < 0.1):
                    bad.append(("delayed copies of one waveform are not re-aligned: shift applied + delay is not the same for every copy", nlen, cluster, np.round(resid, 2).tolist()))
    return bad


def native_many_traces(rng):
    """each trace its own shift, for trace counts that are / are not multiples of 64 (1, 63..65, 100, 200, 384, 385 traces), both axes, float32/64"""
    bad = []
    for ntr in (1, 63, 64, 65, 100, 200, 384, 385):
        n = 48
        x = np.stack([_band_limited(n, rng) for _ in range(3)])[rng.integers(0, 3, ntr)] * rng.uniform(0.5, 2.0, (ntr, 1))
        per = rng.uniform(-6, 6, ntr)
        per[::5] = np.round(per[::5])
        for dt in (np.float64, np.float32):
            tol = 1e-9 if dt == np.float64 else 3e-5
            xx = x.astype(dt)
            y = F.fshift(xx.copy(), per, axis=-1)
            ref = np.stack([F.fshift(xx[i].copy(), per[i]) for i in range(ntr)])
            if y.shape != xx.shape or y.dtype != dt or not np.allclose(y, ref, atol=tol):
                bad.append(("per-trace shifts, many traces, axis -1", ntr, dt.__name__, int(np.sum(~np.isclose(y, ref, atol=tol).all(axis=1)))))
            y0 = F.fshift(xx.T.copy(), per, axis=0)
            if y0.shape != xx.T.shape or not np.allclose(y0, ref.T, atol=tol):
                bad.append(("per-trace shifts, many traces, axis 0", ntr, dt.__name__))
    return bad


def native_estimation(rng, amps, lengths=(121, 82, 90, 100, 101, 128, 66)):
    bad = []
    for amp, nlen in [(a, n) for a in amps for n in lengths]:
        t = np.arange(nlen)
        c0 = nlen * 0.42
        for shift in (-1.5, 0.25, 3.37, -4.0, 0.0):
            spike = -amp * np.exp(-0.5 * ((t - c0) / 3.0) ** 2) + 0.3 * amp * np.exp(-0.5 * ((t - c0 - 10) / 6.0) ** 2)
            moved = F.fshift(spike, shift)
            resync, est = W.wave_shift_corrmax(spike, moved)
            # wave_shift_corrmax(a, b): shift of b relative to a
            if abs(abs(est) - abs(shift)) > 0.05:
                bad.append(("estimate", amp, nlen, shift, float(est)))
            if not np.allclose(resync, spike, atol=0.03 * amp):
                bad.append(("re-alignment", amp, nlen, shift))
        pk = nlen * 0.5 - 0.9
        c = -(t - pk) ** 2 * amp + 10 * amp
        ip, mx = U.parabolic_max(c)
        if abs(ip - pk) > 0.02:
            bad.append(("parabolic_max", amp, nlen, float(ip)))
    return bad


@bounded(PROPERTY, "native_shift_theorem", bound="full impulse basis for n in 2..48 + {64, 97, 127, 128, 243, 251, 256} (thorough: 2..256 + primes to 2048), both axes, float32/float64, integer shifts incl. 0 and -(n-1), "
         "composition, analytic band-limited delay, per-trace shifts on both axes (3 traces; and 1, 63, 64, 65, 100, 200, 384, 385 traces of 48 samples), alternating axes with the same length (call history); float32 traces of 1500 / 2048 samples shifted by half a window and more; shift_waveform on single-spike / identical / jittered clusters; delay estimation for amplitudes 1, 1e-3, 8e-5 x waveform lengths {121, 82, 90, 100, 101, 128, 66} (odd, 0 and 2 mod 4)",
         clause="integer shift == roll, zero shift == identity, shifts add up, fractional delay, delay estimation")
def b_native(B):
    rng = np.random.default_rng(B.seed)
    sizes = list(range(2, 49)) + [64, 97, 127, 128, 243, 251, 256]
    if B.tier == "thorough":
        sizes = list(range(2, 257)) + [509, 1021, 2039, 2048]
    bad = native_shift(sizes, rng)
    B.case("impulse_basis", not bad, detail=bad[:6])
    # history: same length / ndim along different axes, in sequence
    a = rng.standard_normal((40, 64))
    b = rng.standard_normal((64, 33))
    ok = True
    for _ in range(2):
        ok = ok and np.allclose(F.fshift(a, 2, axis=1), np.roll(a, 2, axis=1), atol=1e-9)
        ok = ok and np.allclose(F.fshift(b, 2, axis=0), np.roll(b, 2, axis=0), atol=1e-9)
        ok = ok and np.allclose(F.fshift(np.eye(64), 1, axis=0), np.roll(np.eye(64), 1, axis=0), atol=1e-9)
    B.case("alternating_axes_same_length", bool(ok), detail="results depend on earlier calls with another axis")
    bad = native_many_traces(rng)
    B.case("per_trace_shifts_many_traces", not bad, detail=bad[:6])
    bad = native_large_shifts(rng)
    B.case("float32_large_integer_shifts", not bad, detail=bad[:6])
    bad = native_shift_waveform(rng)
    B.case("shift_waveform_clusters", not bad, detail=bad[:6])
    bad = native_estimation(rng, [1.0, 1e-3, 8e-5])
    B.case("delay_estimation", not bad, detail=bad[:6])


# ----------------------------------------------------------------------------- delay estimation: where the zero lag sits
@harness(PROPERTY, "corrmax_lag_origin", functions=["ibldsp.waveforms:wave_shift_corrmax"],
         clause="the shift estimated from two copies is measured from the zero lag of the correlation (index n // 2 of a 'same' correlation, every parity) and the copy is moved back by exactly that amount")
def h_corrmax(H):
    import scipy.signal
    S = H.session("corrmax")

    def body(it):
        n = z3.Int("n")
        it.ctx.assume(n >= 3)
        a = A.fresh_array("spike", "float64", (n,))
        b = A.fresh_array("spike2", "float64", (n,))
        ipeak = z3.Real("ipeak")
        seen = {}

        def correlate(it_, args, kw):
            mode = kw.get("mode", args[2] if len(args) > 2 else "full")
            seen["corr"] = (args[0], args[1], mode)
            return A.fresh_array("xcorr", "float64", (n,) if mode == "same" else (2 * n - 1,))

        def pmax(it_, args, kw):
            seen["pmax_arg"] = args[0]
            return (SV(ipeak), SV(z3.Real("maxi")))

        def fsh(it_, args, kw):
            seen["fshift"] = (args[0], args[1] if len(args) > 1 else kw.get("s"))
            return A.fresh_array("resync", "float64", (n,))
        it.session.contracts[scipy.signal.correlate] = correlate
        it.session.contracts[U.parabolic_max] = pmax
        it.session.contracts[F.fshift] = fsh
        it.session.contracts[W.fshift] = fsh
        out, shift = run_function(it, W.wave_shift_corrmax, [a, b])
        it.ctx.oblige("corrmax.same_correlation_of_the_pair", z3.BoolVal(seen.get("corr") is not None and seen["corr"][0] is a and seen["corr"][1] is b and seen["corr"][2] == "same"), "post")
        # A-SCIPY: the zero lag of correlate(x, y, 'same') for two signals of n samples is element n // 2
        it.ctx.oblige("corrmax.shift_from_zero_lag", term(shift) == z3.ToReal(n / 2) - ipeak, "post", "shift = (zero-lag index n // 2) - (interpolated peak position), for even and odd n")
        ok = "fshift" in seen and seen["fshift"][0] is b
        it.ctx.oblige("corrmax.moves_the_second_copy", z3.BoolVal(ok), "post")
        if ok:
            it.ctx.oblige("corrmax.moved_back_by_the_estimate", term(seen["fshift"][1]) == -term(shift), "post")
    S.explore(body)


def replay_parabolic_vertex(vals, oid):
    """native: exact parabolas with the maximum at every position (1-D and 2-D): interior maxima are interpolated to the vertex, maxima on the first / last sample returned as they are"""
    bad = []
    for ns in (3, 4, 8, 33):
        for imax in range(ns):
            for frac in (-0.3, 0.0, 0.25, 0.45):
                v = imax + (frac if 0 < imax < ns - 1 else 0.0)
                x = 5.0 - 0.7 * (np.arange(ns) - v) ** 2
                for arr in (x, np.vstack([x, x[::-1].copy() if False else x])):
                    ip, mx = U.parabolic_max(arr)
                    ip, mx = np.atleast_1d(ip)[0], np.atleast_1d(mx)[0]
                    if abs(ip - v) > 1e-9 or abs(mx - 5.0) > 1e-9:
                        bad.append({"ns": ns, "maximum_at_sample": imax, "true_vertex": v, "returned_position": float(ip), "returned_value": float(mx), "ndim": arr.ndim})
    return {"failed": bool(bad), "cases": bad[:4]}


@harness(PROPERTY, "parabolic_max_vertex", functions=["ibldsp.utils:parabolic_max"], replay=replay_parabolic_vertex,
         clause="estimating the delay ... to within a few hundredths of a sample: a maximum on any interior sample (the second and the next-to-last included) is interpolated with its two neighbours, "
                "a maximum on the first or last sample is returned as it is")
def h_parabolic_vertex(H):
    S = H.session("parabolic.vertex")

    def body(it):
        ns = z3.Int("ns")
        it.ctx.assume(ns >= 3)
        x = A.fresh_array("x", "float64", (ns,))
        ipeak, maxi = run_function(it, U.parabolic_max, [x])
        am = [r for r in getattr(it.ctx, "reduce_log", []) if r["name"] == "argmax"]
        if len(am) != 1:
            raise Unsupported("cannot identify the argmax of parabolic_max")
        imax = am[0]["out"]()
        H.input(ns=ns, imax=imax)
        ip, mx = term(ipeak), term(maxi)
        xm, x0, xp = x.read((imax - 1,)), x.read((imax,)), x.read((imax + 1,))
        curv = xm - 2 * x0 + xp
        it.ctx.oblige("parabolic_max.edges_returned_as_they_are", z3.Implies(z3.Or(imax == 0, imax == ns - 1), z3.And(ip == z3.ToReal(imax), mx == x0)), "post", assume=False)
        it.ctx.oblige("parabolic_max.interior_interpolated", z3.Implies(z3.And(imax >= 1, imax <= ns - 2, curv != 0), ip * (2 * curv) == z3.ToReal(imax) * (2 * curv) + (xm - xp)), "post",
                      "for a maximum on samples 1 .. ns-2 the position is imax + (x[imax-1] - x[imax+1]) / (2 (x[imax-1] - 2 x[imax] + x[imax+1])): the vertex of the parabola through the three samples", assume=False)
    S.explore(body)


@harness(PROPERTY, "parabolic_max_scale_free", functions=["ibldsp.utils:parabolic_max (statements from the parabola fit 'poly = ...' to 'ipeak += imax')"],
         clause="delay estimation does not depend on the amplitude of the traces: the interpolated peak position of a correlation is unchanged when it is scaled by a > 0")
def h_parabolic(H):
    import ast
    from pyvc import interp as I
    S = H.session("parabolic")

    def body(it):
        node, filename = I.SOURCES.funcdef(U.parabolic_max)
        it.session.note_function(U.parabolic_max)
        idx = [k for k, st in enumerate(node.body) if isinstance(st, ast.Assign) and ast.unparse(st.targets[0]) == "poly"]
        end = [k for k, st in enumerate(node.body) if isinstance(st, ast.AugAssign) and ast.unparse(st.target) == "ipeak"]
        if len(idx) != 1 or len(end) != 1 or end[0] < idx[0]:
            raise Unsupported("cannot identify the parabola fit of parabolic_max")
        part = node.body[idx[0]:end[0] + 1]
        v0, v1, v2, a = z3.Reals("v0 v1 v2 a")
        imax = z3.Int("imax")
        it.ctx.assume(z3.And(a > 0, v1 >= v0, v1 >= v2, imax >= 1))      # v1 is the (first) maximum of the trace: what argmax returned
        res = []
        for scale in (z3.RealVal(1), a):
            vals = [v0 * scale, v1 * scale, v2 * scale]
            v010 = SArr(np.float64, (3, 1), lambda ix, vals=vals: z3.If(A.T(ix[0]) == 0, vals[0], z3.If(A.T(ix[0]) == 1, vals[1], vals[2])))
            env = I.Env(None, U.parabolic_max.__globals__, qualname="parabolic_max", filename=filename)
            env.funcnode = node
            env.vars.update(dict(v010=v010, imax=SV(imax), x=None, ns=None))
            it.ctx.func = env.qualname
            it.exec_block(part, env)
            res.append(env.vars["ipeak"])
        r1, r2 = (A.as_sarr(r).read((z3.IntVal(0),)) for r in res)
        it.ctx.oblige("parabolic_max.scale_free", r1 == r2, "post", "the interpolated peak position is the same for x and a * x (a > 0)")
        it.ctx.oblige("parabolic_max.within_one_sample", z3.And(r1 - z3.ToReal(imax) >= -1, r1 - z3.ToReal(imax) <= 1), "post", "the interpolated peak lies within one sample of the maximum", assume=False)
    S.explore(body)
