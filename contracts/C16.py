"""C16 - saturation flags follow the proportion rule and the mute gain covers them.

Function under contract: ibldsp.voltage.saturation (Reader.range_volts is covered in C09's derived_scalars harness).
"""
import numpy as np
import z3

import ibldsp.voltage as V
from pyvc.api import harness, bounded, property_meta, run_function
from pyvc.core import SV, term, Unsupported
from pyvc import arrays as A

PROPERTY = "C16"
property_meta(
    PROPERTY, level="other",
    trusted_base=["A-PY", "A-NP-INDEX", "A-REAL (thresholds compared in real arithmetic)",
                  "A-NP-SPEC: np.mean of a boolean column is the fraction of channels set (the reductions are opaque; what is proved is which mask is reduced along which axis and how the two fractions are combined)",
                  "A-SCIPY: convolve(mode='same') with a non negative kernel (term lower bound, zero off support); cosine(M) in (0,1], centre tap 1 for odd M"],
    explanation="saturation() executed symbolically for any (nc, ns), scalar or per-channel range, any proportion / slew limit / sampling rate / taper width: data-flow of the two masks into the "
                "two channel-fractions, OR-combination with '>' thresholds, trailing zero of the slew term, mute in [0,1], 0 on flagged samples (odd widths), 1 far from flags, mute computed from the flags only. "
                "Level other: known finding F-C16-1 (even taper widths) and the reductions/convolution are assumed contracts.")


def replay_sat(vals, oid):
    bad = native_cases(np.random.default_rng(1), 40)
    return {"failed": bool(bad), "examples": bad[:3]}


@harness(PROPERTY, "saturation", functions=["ibldsp.voltage:saturation"], replay=replay_sat,
         clause="flag iff more than the proportion of channels exceed 98% of range or the slew limit into the next sample; mute in [0,1], 0 on flags, 1 far away, function of the flags only")
def h_sat(H):
    for per_channel, dt in ((False, "float32"), (True, "float32")):
        S = H.session(f"saturation.{'vec' if per_channel else 'scalar'}" + ("" if dt == "float32" else "." + dt))

        def body(it, per_channel=per_channel, dt=dt):
            nc, ns, M = z3.Ints("nc ns M")
            p, v, fs = z3.Reals("proportion v_per_sec fs")
            it.ctx.assume(z3.And(nc >= 1, ns >= 2, M >= 1, p >= 0, p < 1, fs > 0, v > 0))
            data = A.fresh_array("data", dt, (nc, ns))
            if per_channel:
                mv = A.fresh_array("maxv", "float32", (nc,))
                mvf = lambda c: mv.read((c,))    # noqa
            else:
                mvs = z3.Real("maxv")
                mv = SV(mvs)
                mvf = lambda c: mvs    # noqa
            before = data.snapshot()
            sat, mute = run_function(it, V.saturation, [data, mv], {"v_per_sec": SV(v), "fs": SV(fs), "proportion": SV(p), "mute_window_samples": SV(M)})
            tag = ("vec" if per_channel else "scalar") + ("" if dt == "float32" else "." + dt)
            # the channel fraction of a boolean mask is either its mean over the channel axis or its count of set channels (fraction = count / nc)
            red = [r for r in it.ctx.reduce_log if r["name"] in ("mean", "count_nonzero")]
            if len(red) != 2:
                raise Unsupported(f"cannot identify the two channel fractions of saturation() (found {len(red)} mean / count reductions)")
            ok = len(red) == 2 and all(r["axis"] == 0 and r["in_dtype"].kind == "b" for r in red)
            it.ctx.oblige(f"flag.two_channel_fractions.{tag}", z3.BoolVal(ok), "post", "exactly two boolean masks are averaged (or counted) over the channel axis")
            if not ok:
                return
            r1, r2 = red
            over = lambda r, tt: (r["out"](tt) > p) if r["name"] == "mean" else (z3.ToReal(r["out"](tt)) > p * z3.ToReal(nc))    # noqa  "more than the proportion of channels"
            c, t = z3.Ints("c t")
            ab = lambda x: z3.If(x >= 0, x, -x)    # noqa
            it.ctx.oblige(f"flag.mask_amplitude.{tag}", z3.And(A.T(r1["in_shape"][0]) == nc, A.T(r1["in_shape"][1]) == ns,
                          A.forall([c, t], lambda: z3.Implies(z3.And(c >= 0, c < nc, t >= 0, t < ns), r1["input"]((c, t)) == (ab(data.read((c, t))) > mvf(c) * term(0.98))))), "post",
                          "first mask: |v| > 98% of that channel's full-scale voltage")
            it.ctx.oblige(f"flag.mask_slew.{tag}", z3.And(A.T(r2["in_shape"][0]) == nc, A.T(r2["in_shape"][1]) == ns - 1,
                          A.forall([c, t], lambda: z3.Implies(z3.And(c >= 0, c < nc, t >= 0, t < ns - 1), r2["input"]((c, t)) == (ab(data.read((c, t + 1)) - data.read((c, t))) / fs >= v)))), "post",
                          "second mask: slew into the next sample at or over the limit")
            it.ctx.oblige(f"flag.iff.{tag}", z3.And(z3.BoolVal(sat.ndim == 1 and sat.dtype.kind == "b"), A.T(sat.shape[0]) == ns,
                          A.forall([t], lambda: z3.Implies(z3.And(t >= 0, t < ns), sat.read((t,)) == z3.Or(over(r1, t), z3.And(t < ns - 1, over(r2, t)))))), "post",
                          "flagged iff either fraction is more than the proportion (the last sample has no slew term)")
            # mute
            it.ctx.oblige(f"mute.shape.{tag}", z3.And(z3.BoolVal(mute.ndim == 1), A.T(mute.shape[0]) == ns), "post")
            it.ctx.oblige(f"mute.range.{tag}", A.forall([t], lambda: z3.Implies(z3.And(t >= 0, t < ns), z3.And(mute.read((t,)) >= 0, mute.read((t,)) <= 1))), "post")
            cv = getattr(it.ctx, "conv_log", [])
            if not cv:
                # a path without any convolution: only right if nothing is flagged on it (1 - flags * window is then 1 everywhere)
                it.ctx.oblige(f"mute.without_convolution_only_if_no_flag.{tag}", A.forall([t], lambda: z3.Implies(z3.And(t >= 0, t < ns), z3.And(z3.Not(sat.read((t,))), mute.read((t,)) == 1))), "post")
                return
            okc = len(cv) == 1 and getattr(cv[0]["w"], "window", (None,))[0] == "cosine"
            if not okc:
                raise Unsupported("cannot identify the convolution of the flags with the cosine taper")
            it.ctx.oblige(f"mute.depends_only_on_flags.{tag}", z3.And(z3.BoolVal(okc), A.forall([t], lambda: z3.Implies(z3.And(t >= 0, t < ns), cv[0]["x"]((t,)) == sat.read((t,)))) if okc else z3.BoolVal(False),
                                                                    (cv[0]["w"].window[1] == M) if okc else z3.BoolVal(False)), "post",
                          "the mute is 1 - convolution of the flags with the cosine window of the requested width, clipped at 0: no other data enters")
            H.input(M=M, nc=nc, ns=ns)
            cout = cv[0].get("out")
            if cout is not None:
                it.ctx.oblige(f"mute.is_the_taper_of_the_flags.{tag}", z3.And(z3.BoolVal(mute.dtype.kind == "f"), A.forall([t], lambda: z3.Implies(z3.And(t >= 0, t < ns), mute.read((t,)) == z3.If(sat.read((t,)), z3.RealVal(0),
                              z3.If(1 - cout(t) >= 0, 1 - cout(t), z3.RealVal(0)))))), "post",
                              "the gain is max(0, 1 - flags * window), and 0 on the flags, as a real number whatever the type of the traces (integer traces do not turn the ramp into a box)", assume=False)
            it.ctx.oblige(f"mute.zero_on_flag.{tag}", A.forall([t], lambda: z3.Implies(z3.And(t >= 0, t < ns, sat.read((t,))), mute.read((t,)) == 0)), "post",
                          "mute gain is 0 on every flagged sample")
            k = z3.Int("k")
            far = lambda tt: z3.ForAll([k], z3.Implies(z3.And(k >= 0, k < ns, sat.read((k,))), z3.Or(k - tt > M / 2, tt - k > M / 2)))    # noqa
            it.ctx.oblige(f"mute.one_far.{tag}", A.forall([t], lambda: z3.Implies(z3.And(t >= 0, t < ns, far(t)), mute.read((t,)) == 1)), "post",
                          "mute gain is 1 farther than the taper half-width from any flagged sample")
            it.ctx.oblige(f"frame.data_untouched.{tag}", A.forall([c, t], lambda: z3.Implies(z3.And(c >= 0, c < nc, t >= 0, t < ns), data.read((c, t)) == before((c, t)))), "post")
        S.explore(body)


def native_cases(rng, n, widths=(7, 5, 1, 9)):
    bad = []
    for it in range(n):
        nc = int(rng.choice([1, 2, 5, 10, 384, 400]))
        ns = int(rng.integers(2, 120))
        p = float(rng.choice([0.2, 0.1, 0.5, 0.25]))
        percha = bool(rng.integers(0, 2))
        rngv = (rng.random(nc) * 0.5 + 0.5).astype(np.float32) if percha else np.float32(0.6)
        thr = np.atleast_1d(rngv).astype(np.float32) * 0.98
        fs, vps = 30000.0, float(rng.choice([1e-8, 1e-5]))
        data = (rng.standard_normal((nc, ns)) * 0.1).astype(np.float32)
        # place values just below / at / just above 98 % on about p of the channels
        for t in rng.integers(0, ns, 8):
            k = int(np.clip(round(p * nc) + rng.integers(-1, 2), 0, nc))
            chans = rng.choice(nc, k, replace=False)
            lvl = np.broadcast_to(thr, (nc,))[chans]
            data[chans, t] = rng.choice([-1, 1]) * np.nextafter(lvl, lvl * rng.choice([0, 2]))
        if vps > 1e-6:
            data = np.cumsum(rng.standard_normal((nc, ns)).astype(np.float32) * np.float32(vps * fs * 0.7), axis=1)
        M = int(rng.choice(widths))
        sat, mute = V.saturation(data.copy(), rngv, v_per_sec=vps, fs=fs, proportion=p, mute_window_samples=M)
        a = np.mean(np.abs(data) > np.atleast_1d(rngv)[:, None] * 0.98, axis=0) > p
        b = np.r_[np.mean(np.abs(np.diff(data, axis=-1)) / fs >= vps, axis=0) > p, False]
        want = a | b
        ok = np.array_equal(sat, want) and mute.shape == (ns,) and mute.min() >= 0 and mute.max() <= 1
        flagged = np.flatnonzero(want)
        if M % 2 == 1:
            ok = ok and np.all(mute[flagged] == 0)
        far = np.array([np.all(np.abs(flagged - t) > M // 2) for t in range(ns)]) if flagged.size else np.ones(ns, bool)
        ok = ok and np.all(mute[far] == 1)
        # depends on nothing but the flags: same flags from different data give the same mute
        d2 = np.zeros((1, ns), np.float64)
        d2[0, want] = 10
        s2, m2 = V.saturation(d2, 1.0, v_per_sec=1e9, fs=fs, proportion=0.5, mute_window_samples=M)
        ok = ok and np.array_equal(s2, want) and m2.dtype == mute.dtype and np.array_equal(m2, mute)      # exactly: other traces (other values, other precision) with the same flags
        if not ok:
            bad.append((nc, ns, p, percha, M, vps))
        # the same (integer-valued) traces handed over as int16 / float32 / float64 counts: same flags, same gain
        if it % 4 == 0:
            cnt = np.clip(np.round(data / np.float32(0.6) * 500), -512, 511)
            outs = [V.saturation(cnt.astype(dtp), 512, v_per_sec=vps * 500 / 0.6, fs=fs, proportion=p, mute_window_samples=M) for dtp in (np.float64, np.float32, np.int16)]
            if not all(np.array_equal(o[0], outs[0][0]) and np.allclose(o[1], outs[0][1], atol=1e-6) for o in outs[1:]):
                bad.append((nc, ns, p, "gain or flags depend on the type of the traces (float64 / float32 / int16 counts)", M))
    return bad


@bounded(PROPERTY, "native_thresholds", bound="200 (thorough 3000) random arrays, nc in {1,2,5,10,384,400}, ns<120, values just below/at/above 98% on about the proportion of channels, "
         "per-channel/scalar ranges, widths {1,5,7,9} + even widths {2,4,8}; float32 traces one ulp below / on / above 98 % of 32 (thorough 208) double-precision ranges x both signs x scalar / per-channel, decided in exact rationals; "
         "arrays of 2^17 + 9 samples with a slew-only event at 27 positions around the powers of two", clause="all clauses natively incl. mean>p versus counts in binary64")
def b_native(B):
    rng = np.random.default_rng(B.seed)
    bad = native_cases(rng, 200 if B.tier == "quick" else 3000)
    B.case("random_arrays_odd_width", not bad, detail=bad[:5])
    # exhaustive: count/nc > p in binary64 equals count > p*nc in exact arithmetic for all nc <= 400
    import fractions
    ok = True
    for p in (0.1, 0.2, 0.5):
        for nc in range(1, 401):
            col = np.zeros((nc, nc + 1), np.float32)
            for cnt in range(nc + 1):
                col[:cnt, cnt] = 1.0
            s, _ = V.saturation(col, 0.5, v_per_sec=1e9, proportion=p)
            want = np.array([fractions.Fraction(cnt, nc) > fractions.Fraction(p) for cnt in range(nc + 1)])
            ok = ok and np.array_equal(s, want)
    B.case("fraction_vs_count_all_nc", bool(ok), detail="mean(mask) > p differs from the exact count rule for some (count, nc<=400)")
    # float32 traces against double-precision ranges (a Python number / float64 per channel): channels sitting on the float32 numbers
    # just below / nearest / just above 98 % of the range; the expected flag is decided in exact rational arithmetic
    badx = []
    for r in [1.0, 5.0, 0.6, 1.2, 0.5, 0.62, 2.5, 3.3] + [float(x) for x in rng.uniform(0.3, 6.0, 24 if B.tier == "quick" else 200)]:
        exact_thr = fractions.Fraction(0.98) * fractions.Fraction(r)
        near = np.float32(0.98 * r)
        for v in (np.nextafter(near, np.float32(0)), near, np.nextafter(near, np.float32(10))):
            for sign in (1, -1):
                for per_channel in (False, True):
                    x = np.zeros((5, 6), np.float32)
                    x[:3, 2] = sign * v                       # 3 of 5 channels > proportion 0.5
                    x[:2, 4] = sign * v                       # 2 of 5: not more than the proportion
                    mv = np.full(5, r, np.float64) if per_channel else r
                    s_, m_ = V.saturation(x, mv, v_per_sec=1e9, proportion=0.5)
                    over = fractions.Fraction(float(v)) > exact_thr
                    want = np.zeros(6, bool)
                    want[2] = over
                    if not (np.array_equal(s_, want) and (not over or m_[2] == 0)):
                        badx.append({"range": r, "value": float(v), "per_channel_range": per_channel, "flags": s_.tolist(), "exceeds_98_percent": bool(over)})
    B.case("float32_traces_on_the_98_percent_boundary_double_ranges", not badx, detail=badx[:4])
    # long arrays: a slew-only event at every position 2^k - 1 -> 2^k and around it (block-wise implementations must not lose the sample pairs that straddle two blocks)
    nsl = 2 ** 17 + 9
    badl = []
    for pos in sorted({2 ** k - 1 + d for k in (8, 10, 12, 13, 14, 15, 16, 17) for d in (-1, 0, 1)} | {nsl - 2, 0, 99999}):
        x = np.zeros((3, nsl), np.float32)
        x[:, pos + 1:] = 600e-6                                # a common step between pos and pos + 1 (below 98 % of the range)
        s_, m_ = V.saturation(x, 1.0, v_per_sec=1e-8, fs=30000.0, proportion=0.2)
        if not (np.flatnonzero(s_).tolist() == [pos] and m_[pos] == 0):
            badl.append({"step_between": [pos, pos + 1], "flagged": np.flatnonzero(s_)[:5].tolist(), "mute_there": float(m_[pos])})
    B.case("slew_event_at_every_power_of_two_boundary_of_a_long_array", not badl, detail=badl[:4])
    for M in (2, 4, 8):
        x = np.zeros((1, 50), np.float32)
        x[0, 25] = 10
        s, m = V.saturation(x, 1.0, v_per_sec=1e9, proportion=0.5, mute_window_samples=M)
        B.case(("even_width", M), bool(s[25]) and m[25] == 0, detail=f"isolated flagged sample, width {M}: mute={m[25]:.4f} != 0", inputs={"kind": "even_width", "M": M})


# ----------------------------------------------------------------------------- contracts of dependencies this property rests on (re-checked here)
from pyvc.api import depends  # noqa: E402
depends(PROPERTY, "C09", ["derived_scalars"])      # Reader.range_volts: full-scale voltage per channel
