"""C04 - conversion never loses the original and is idempotent over run histories.

Functions under contract (neuropixel.py): NP2Converter.process, ._process_NP24 (epilogue after the window loop), ._prepare_files_NP24, .check_NP24 (one
window + epilogue), .compress_NP24, .delete_NP24, ._prepare_files_NP21, .compress_NP21, .check_metadata, .init_params (flag reset).
Histories and crash points are handled inductively: the original is touched by exactly one guarded statement, so 'recoverable' is an invariant of every
primitive file-system effect; each public entry point gets a contract over the ghost file system.
"""
import ast
import os
import shutil
import tempfile

import numpy as np
import z3

import mtscomp
import neuropixel
import spikeglx
from pyvc.api import harness, bounded, property_meta, run_function
from pyvc.core import SV, term, fresh_name, wrap
from pyvc import arrays as A, interp as I, fsmodel, models
from pyvc.interp import SObj, PyRaise
from contracts import C02, C17, np2common as N

PROPERTY = "C04"
property_meta(
    PROPERTY, level="other",
    trusted_base=["A-PY", "A-FS", "A-MTSCOMP (through C02's contract of Reader.compress_file)", "C17 generator contract", "C03 (what the split files contain)",
                  "interruptions are modelled as exceptions raised by the external calls (mtscomp, the verification assert); a kill between two primitive effects is covered by the same invariant "
                  "because the original is only ever touched by one guarded unlink"],
    explanation="ghost-file-system contracts of every step of NP2Converter.process for NP2.4 and NP2.1: which paths are created / truncated / removed under which flags, that the original is unlinked only after "
                "check_NP24 returned normally with delete_original set (NP2.4) or after compress_file returned (NP2.1), that verification compares every window, that a repeated run without overwrite touches nothing, "
                "that output paths can never alias the input. Run histories on real files (first, repeat, overwrite, interrupted + retried, NP1 / already split): bounded stand-in.")


def mk_conv(it, version="NP2.4", compressed_input=False, nshank=(0, 1), stem="x.imec0.ap"):
    fs_ = fsmodel.GhostFS()
    it.session.ghost_fs = fs_
    raw = ("sess", "raw_ephys_data", "probe00")
    ap = fsmodel.GhostPath(fs_, raw, stem + (".cbin" if compressed_input else ".bin"))
    fs_.exists[ap.key] = True
    fs_.size[ap.key] = SV(z3.Int("apsize"))
    fs_.content[ap.key] = z3.Const("orig_bytes", C02.Bytes)
    napch = z3.Int("napch")
    it.ctx.assume(napch >= 1)
    meta = {"typeThis": "imec", "snsApLfSy": [SV(z3.ToReal(napch)), 0.0, 1.0], "nSavedChans": SV(z3.ToReal(napch + 1)), "imSampRate": 30000.0}
    ns_rec = z3.Int("samples_in_the_recording")
    it.ctx.assume(ns_rec >= 1)
    sr = SObj(spikeglx.Reader, file_bin=ap, meta=meta, dtype=np.dtype("int16"), _raw=None, file_meta_data=ap.with_suffix(".meta"), ns=SV(ns_rec))
    conv = SObj(neuropixel.NP2Converter, ap_file=ap, sr=sr, np_version=version, extra="", nshank=list(nshank) if nshank else None, ratio=12, fs_ap=30000, fs_lf=2500,
                post_check=SV(z3.Bool("post_check")), compress=SV(z3.Bool("compress")), delete_original=SV(z3.Bool("delete_original")),
                check_completed=False, already_processed=False, napch=SV(napch), idxsyncch=SV(napch))
    it.session.contracts[__import__("pathlib").Path] = lambda it_, a, k: a[0]
    return fs_, conv, ap, napch


def is_empty(fs_, path):
    """the file under this name holds nothing (size 0 after the last operation on it)"""
    sz = fs_.size.get(path.key)
    if isinstance(sz, SV):
        return term(sz) == 0
    return z3.BoolVal(isinstance(sz, int) and sz == 0)


def touched(fs_, key):
    return [op for op in fs_.log if (op[1] == key and op[0] in ("unlink", "open_w", "rename")) or (op[0] == "rename" and op[2] == key)]


# ----------------------------------------------------------------------------- _prepare_files_NP24
@harness(PROPERTY, "prepare_files_NP24", functions=["neuropixel:NP2Converter._prepare_files_NP24"],
         clause="a repeated run without overwrite changes nothing on disk; output paths never alias the input; per-shank channel lists are where(shank==s)+sync")
def h_prepare(H):
    _prepare24(H, (False,))


@harness(PROPERTY, "prepare_files_NP24_forced", functions=["neuropixel:NP2Converter._prepare_files_NP24"],
         clause="a forced (or first) run starts every per-shank output file empty; output paths never alias the input; per-shank channel lists are where(shank==s)+sync")
def h_prepare_forced(H):
    _prepare24(H, (True,))
    _prepare24(H, (True,), ids=(1, 3))          # the shanks are those of the map, whatever their ids (only shanks 1 and 3 enabled): one output per shank that has channels


def _prepare24(H, flags, ids=(0, 1)):
    for overwrite in flags:
        S = H.session(f"prepare.ow{overwrite}" + ("" if ids == (0, 1) else ".shanks" + "".join(map(str, ids))))

        def body(it, overwrite=overwrite):
            fs_, conv, ap, napch = mk_conv(it, nshank=ids if ids == (0, 1) else None)
            n = napch
            shank = A.fresh_array("shankmap", "float32", (n,))
            it.session.contracts[spikeglx._map_channels_from_meta] = lambda it_, a, k: {"shank": shank, "col": None, "row": None, "flag": None}
            if ids != (0, 1):
                # the shanks are taken from the map itself (no nshank override): a map whose shank ids are not 0..n-1 (only shanks 1 and 3 enabled)
                c_ = z3.Int(fresh_name("c"))
                it.ctx.assume(z3.ForAll([c_], z3.Implies(z3.And(c_ >= 0, c_ < n), z3.Or(*[shank.uf(c_) == v for v in ids])), patterns=[shank.uf(c_)]))
                # A-NP-SPEC np.unique of that column: the distinct ids in ascending order (both occur: the probe has channels on each enabled shank)
                it.session.contracts[np.unique] = lambda it_, a, k: np.array(ids, dtype=np.float32) if a and a[0] is shank else NotImplemented
                it.session.contracts[spikeglx._get_nshanks_from_meta] = lambda it_, a, k: len(ids)
            ex = []
            for s in ids:
                p = ap.parent.parent.joinpath("probe00" + chr(97 + s))
                e = z3.Bool(f"folder{s}_exists")
                fs_.exists[p.key] = SV(e)
                ex.append(e)
            H.input(folder0_exists=ex[0], folder1_exists=ex[1])
            # the same converter object may have been run before (the usual `if conv.process() == 0: conv.process(overwrite=True)`): whatever an
            # earlier call left in the flag must not decide this one
            conv.attrs["already_exists"] = SV(z3.Bool("flag_left_by_an_earlier_call"))
            info = run_function(it, neuropixel.NP2Converter._prepare_files_NP24, [conv], {"overwrite": overwrite})
            tag = f"ow{overwrite}" + ("" if ids == (0, 1) else ".shanks" + "".join(map(str, ids)))
            created = [op for op in fs_.log if op[0] in ("open_w", "mkdir")]
            ae = conv.already_exists
            ae_t = term(ae) if not isinstance(ae, bool) else z3.BoolVal(ae)
            if not overwrite:
                it.ctx.oblige(f"rerun.flag.{tag}", ae_t == z3.Or(ex[0], ex[1]), "post", "already_exists is raised iff some expected shank folder exists")
                it.ctx.oblige(f"rerun.noop.{tag}", z3.Implies(ae_t, z3.BoolVal(len(created) == 0)), "post",
                              "when the run is reported as 'already exists / nothing to do', nothing was created or truncated on disk")
            else:
                it.ctx.oblige(f"overwrite.flag.{tag}", z3.Not(ae_t), "post")
                truncated = {op[1] for op in fs_.log if op[0] == "open_w"}
                it.ctx.oblige(f"overwrite.outputs_start_empty.{tag}", z3.BoolVal(sorted(info) == [f"shank{i_}" for i_ in ids] and all({"ap_file", "lf_file", "chns"} <= set(v) for v in info.values())
                              and all(v[kk].key in truncated for v in info.values() for kk in ("ap_file", "lf_file"))), "post",
                              "a forced (or first) run starts every shank's ap and lf file empty: whatever an earlier run left under these names is truncated before samples are written")
                it.ctx.oblige(f"overwrite.outputs_hold_nothing_yet.{tag}", z3.And(*[is_empty(fs_, v[kk]) for v in info.values() for kk in ("ap_file", "lf_file") if kk in v]), "post",
                              "the files hold exactly what the windows append: nothing is in them (no reserved or left-over bytes) when the extraction starts")
            it.ctx.oblige(f"outputs_never_alias_input.{tag}", z3.BoolVal(all(op[1] != ap.key and not op[1].startswith(ap.parent.key + "/") for op in created)), "post",
                          "every created path lies in a shank folder different from the input's folder")
            for sh, v in info.items():
                s = int(sh[-1])
                ch = v["chns"]
                w = [x for x in it.ctx.where_log if x["ndim"] == 1]
                k, k2 = z3.Ints("k k2")
                m = A.T(ch.shape[0])
                it.ctx.oblige(f"chns.sync_last.{sh}.{tag}", ch.read((m - 1,)) == n, "post", "the sync channel follows the shank's channels", assume=False)
                it.ctx.oblige(f"chns.increasing.{sh}.{tag}", A.forall([k, k2], lambda: z3.Implies(z3.And(k >= 0, k < k2, k2 < m), ch.read((k,)) < ch.read((k2,)))), "post", assume=False)
                it.ctx.oblige(f"chns.members.{sh}.{tag}", A.forall([k], lambda: z3.Implies(z3.And(k >= 0, k < m - 1), z3.And(ch.read((k,)) >= 0, ch.read((k,)) < n, shank.read((ch.read((k,)),)) == s))), "post", assume=False)
                rank = [x for x in w if True][list(info).index(sh)]["rank"] if len(w) >= len(info) else None
                if rank is not None:
                    q = z3.Int("q")
                    it.ctx.oblige(f"chns.complete.{sh}.{tag}", A.forall([q], lambda: z3.Implies(z3.And(q >= 0, q < n, shank.read((q,)) == s), z3.And(rank(q) >= 0, rank(q) < m - 1, ch.read((rank(q),)) == q))), "post",
                                  "every channel of the shank is in the list", assume=False)
                it.ctx.oblige(f"paths.{sh}.{tag}", z3.BoolVal(v["ap_file"].parent.name == "probe00" + chr(97 + s) and v["ap_file"].name == ap.name and v["lf_file"].name == ap.name.replace("ap", "lf")), "post")
        S.explore(body)


# ----------------------------------------------------------------------------- check_NP24
@harness(PROPERTY, "check_NP24", functions=["neuropixel:NP2Converter.check_NP24"],
         clause="the original is verified against the reassembled shanks on EVERY window before check_completed is set")
def h_check(H):
    S = H.session("check")

    def body(it):
        fs_, conv, ap, napch = mk_conv(it)
        ns, W = z3.Ints("ns W")
        it.ctx.assume(z3.And(ns >= 1, W >= 1))
        nc = napch + 1
        orig = A.fresh_array("origV", "float32", (ns, nc))

        class VReader:
            """reader stand-in: sr[a:b, cols] is NumPy indexing of its calibrated array (C01's contract)"""
            _pyvc_ok = True

            def __init__(self, arr):
                self.arr = arr
                self.closed = False

            def __getitem__(self, idx):
                return A.getitem(self.arr, idx).copy()

            def close(self):
                self.closed = True
        conv.attrs["sr"] = VReader(orig)
        conv.attrs["nsamples"] = SV(ns)
        conv.attrs["samples_window"] = SV(W)
        info = {}
        files = []
        for s in (0, 1):
            m = z3.Int(f"nchn{s}")
            it.ctx.assume(z3.And(m >= 1, m <= nc))
            ch = A.fresh_array(f"chns{s}", "int64", (m,), ranged=False)
            A.assume_range(ch, 0, nc - 1)
            k, k2 = z3.Int(fresh_name("k")), z3.Int(fresh_name("k"))
            it.ctx.assume(z3.ForAll([k, k2], z3.Implies(z3.And(k >= 0, k < k2, k2 < m), ch.uf(k) < ch.uf(k2)), patterns=[z3.MultiPattern(ch.uf(k), ch.uf(k2))]))
            it.ctx.assume(ch.uf(m - 1) == napch)
            f = A.fresh_array(f"shankV{s}", "float32", (ns, m))
            files.append((ch, m, f))
            info[f"shank{s}"] = {"chns": ch, "ap_file": ap.parent.parent.joinpath("probe00" + chr(97 + s)).joinpath(ap.name)}
        conv.attrs["shank_info"] = info
        readers = {v["ap_file"].key: VReader(files[i][2]) for i, v in enumerate(info.values())}
        it.session.contracts[spikeglx.Reader] = lambda it_, a, k: readers[a[0].key]
        it.session.contracts[C17.FIRSTLAST] = N.firstlast_summary_with_nwin
        it.session.assert_mode = "branch"
        fn = neuropixel.NP2Converter.check_NP24
        node, filename, before, loop, after = N.loop_parts(fn)
        it.session.note_function(fn)
        env = I.Env(None, fn.__globals__, qualname="NP2Converter.check_NP24", filename=filename)
        env.funcnode = node
        env.vars["self"] = conv
        it.ctx.func = env.qualname
        it.exec_block(before, env)
        sit = it.to_iterable(it.eval(loop.iter, env), env)
        Yf, Yl = sit.Y
        j = z3.Int("j")
        it.ctx.assume(z3.And(j >= 0, j < sit.length))
        sit.on_iter(j)
        it.assign(loop.target, sit.item(j), env)
        it.ctx.assert_log = []
        try:
            it.exec_block(loop.body, env)
            raised = False
        except PyRaise as e:
            raised = isinstance(e.exc, AssertionError)
            if not raised:
                raise
        it.ctx.oblige("check.compared_inside_loop", z3.BoolVal(len(it.ctx.assert_log) == 1), "post",
                      "each window's comparison is asserted inside the window loop (one assertion per iteration)")
        it.ctx.oblige("check.flag_not_set_inside_loop", z3.BoolVal(conv.check_completed is False), "post", "check_completed is still False while windows are being compared")
        it.ctx.oblige("check.windows_tile", term(env.vars["wg"].overlap) == 0, "post")
        if not raised:
            # this window passed: the comparison covered every sample and column of the window
            r, c = z3.Ints("r c")
            L = Yl(j) - Yf(j)
            own = z3.Function("owner", z3.IntSort(), z3.IntSort())
            pos = z3.Function("pos", z3.IntSort(), z3.IntSort())

            def shank_val(rr, cc):
                t = files[1][2].read((Yf(j) + rr, pos(cc)))
                return z3.If(own(cc) == 0, files[0][2].read((Yf(j) + rr, pos(cc))), t)
            q = z3.Int(fresh_name("q"))
            kk = z3.Int(fresh_name("kk"))
            notin = lambda s_, qq: z3.ForAll([kk], z3.Implies(z3.And(kk >= 0, kk < files[s_][1] - 1), files[s_][0].uf(kk) != qq), patterns=[files[s_][0].uf(kk)])   # noqa
            # the shank map is a function: every AP column is in exactly one shank's list
            part = z3.ForAll([q], z3.Implies(z3.And(q >= 0, q < napch), z3.Or(
                z3.And(own(q) == 0, pos(q) >= 0, pos(q) < files[0][1] - 1, files[0][0].uf(pos(q)) == q, notin(1, q)),
                z3.And(own(q) == 1, pos(q) >= 0, pos(q) < files[1][1] - 1, files[1][0].uf(pos(q)) == q, notin(0, q)))))
            it.ctx.assume(part)
            r0, c0 = z3.Int(fresh_name("r0")), z3.Int(fresh_name("c0"))
            it.ctx.assume(z3.And(r0 >= 0, r0 < L, c0 >= 0, c0 < napch))
            it.ctx.instantiate(part, c0)
            # the passed assertion is a quantified fact (np.array_equal): instantiate it at the arbitrary element (proof hint)
            eqs = [h for h in it.ctx.pc if any(z3.eq(h, a_[2]) for a_ in it.ctx.assert_log)]
            if not eqs:
                it.ctx.oblige("check.window_compared", z3.BoolVal(False), "post", "no comparison of original and reassembled data was made inside the window loop")
                return
            it.ctx.instantiate(eqs[-1], r0, c0)
            rs = z3.Int(fresh_name("rs"))
            it.ctx.assume(z3.And(rs >= 0, rs < L))
            it.ctx.instantiate(eqs[-1], rs, napch)
            it.ctx.oblige("check.window_compared", orig.read((Yf(j) + r0, c0)) == shank_val(r0, c0), "post",
                          "a window that passes has every AP sample equal to the shank file that holds its channel (arbitrary row, column)")
            it.ctx.oblige("check.sync_compared", orig.read((Yf(j) + rs, napch)) == files[0][2].read((Yf(j) + rs, files[0][1] - 1)), "post",
                          "the sync column is compared with the first shank's copy (arbitrary row)", assume=False)
        # epilogue: only after the loop is the flag raised
        conv.attrs["shank_info"]["shank0"]["sr"] = readers[info["shank0"]["ap_file"].key]
        conv.attrs["shank_info"]["shank1"]["sr"] = readers[info["shank1"]["ap_file"].key]
        if not raised:
            it.exec_block(after, env)
            it.ctx.oblige("check.flag_set_after_loop", z3.BoolVal(conv.check_completed is True), "post")
            it.ctx.oblige("check.readers_closed", z3.BoolVal(all(rd.closed for rd in readers.values())), "post")
        it.ctx.oblige("check.original_untouched", z3.BoolVal(not touched(fs_, ap.key)), "post")
    S.explore(body)

@harness(PROPERTY, "check_NP24_exits", functions=["neuropixel:NP2Converter.check_NP24"], replay=lambda vals, oid: native_failed_check_then_delete(),
         clause="check_completed is true only after a successful bit-exact comparison: every exceptional way out of check_NP24 leaves it unset")
def h_check_exits(H):
    # every way out of check_NP24 (the real function as a whole; the window loop is cut at its head: an arbitrary iteration, or the exit):
    # a comparison that fails - or any other exception - must leave check_completed unset, whatever clean-up the function performs on the way out
    S2 = H.session("check.exits")

    def exits(it):
        fs_, conv, ap, napch = mk_conv(it)
        ns, W = z3.Ints("ns W")
        it.ctx.assume(z3.And(ns >= 1, W >= 1))
        nc = napch + 1
        orig = A.fresh_array("origV", "float32", (ns, nc))

        class VReader:
            _pyvc_ok = True

            def __init__(self, arr):
                self.arr = arr
                self.closed = False

            def __getitem__(self, idx):
                return A.getitem(self.arr, idx).copy()

            def close(self):
                self.closed = True
        conv.attrs["sr"] = VReader(orig)
        conv.attrs["nsamples"] = SV(ns)
        conv.attrs["samples_window"] = SV(W)
        conv.attrs["check_completed"] = False            # as init_params / a fresh converter leaves it
        info = {}
        rd = {}
        for s_ in (0, 1):
            m = z3.Int(f"nchn{s_}")
            it.ctx.assume(z3.And(m >= 1, m <= nc))
            ch = A.fresh_array(f"chns{s_}", "int64", (m,), ranged=False)
            A.assume_range(ch, 0, nc - 1)
            k, k2 = z3.Int(fresh_name("k")), z3.Int(fresh_name("k"))
            it.ctx.assume(z3.ForAll([k, k2], z3.Implies(z3.And(k >= 0, k < k2, k2 < m), ch.uf(k) < ch.uf(k2)), patterns=[z3.MultiPattern(ch.uf(k), ch.uf(k2))]))
            it.ctx.assume(ch.uf(m - 1) == napch)
            f = A.fresh_array(f"shankV{s_}", "float32", (ns, m))
            pth = ap.parent.parent.joinpath("probe00" + chr(97 + s_)).joinpath(ap.name)
            info[f"shank{s_}"] = {"chns": ch, "ap_file": pth}
            rd[pth.key] = VReader(f)
        conv.attrs["shank_info"] = info
        it.session.contracts[spikeglx.Reader] = lambda it_, a, k: rd[a[0].key]
        it.session.contracts[C17.FIRSTLAST] = N.firstlast_summary_with_nwin
        it.session.assert_mode = "branch"
        try:
            run_function(it, neuropixel.NP2Converter.check_NP24, [conv])
        except PyRaise as e:
            it.ctx.oblige("check.exits.flag_unset_when_verification_fails", z3.BoolVal(conv.attrs.get("check_completed") is False), "post",
                          f"check_NP24 left by {type(e.exc).__name__}: check_completed must still be False (the original may be deleted on the strength of this flag)")
            return
        it.ctx.oblige("check.exits.flag_set_on_normal_return", z3.BoolVal(conv.attrs.get("check_completed") is True), "post")
    S2.explore(exits)


# ----------------------------------------------------------------------------- epilogue of _process_NP24: order of verification / compression / deletion
@harness(PROPERTY, "process_NP24_epilogue", functions=["neuropixel:NP2Converter._process_NP24", "neuropixel:NP2Converter.delete_NP24", "neuropixel:NP2Converter.process"],
         clause="the original file is removed only after the split output has been verified bit-identical to it; early exits touch nothing")
def h_epilogue(H):
    S = H.session("epilogue")

    def body(it):
        fs_, conv, ap, napch = mk_conv(it)
        calls = []

        def check(it_, a, k):
            calls.append("check")
            if it_.ctx.branch(z3.Bool(fresh_name("verification_fails"))):
                raise PyRaise(AssertionError("data in original file and split files do no match"))
            a[0].attrs["check_completed"] = True      # contract of check_NP24 (harness check_NP24)
        it.session.contracts[neuropixel.NP2Converter.check_NP24] = check
        it.session.contracts[neuropixel.NP2Converter.compress_NP24] = lambda it_, a, k: calls.append("compress")
        it.session.contracts[neuropixel.NP2Converter._closefiles] = lambda it_, a, k: calls.append("close")
        it.session.contracts[neuropixel.NP2Converter._writemetadata_ap] = lambda it_, a, k: calls.append("meta_ap")
        it.session.contracts[neuropixel.NP2Converter._writemetadata_lf] = lambda it_, a, k: calls.append("meta_lf")
        nproc, nrec = z3.Ints("nsamples_processed ns_recording")
        it.ctx.assume(z3.And(nproc >= 1, nproc <= nrec))
        conv.attrs["nsamples"] = SV(nproc)
        conv.attrs["sr"] = SObj(spikeglx.Reader, _raw=None, file_bin=ap, ns=SV(nrec))
        # the same object may have been run before (a run that verified its output and then failed while compressing, forced again): the flag that run
        # left says nothing about the files of this run.  (Only a check sets it, so it can only be set on an object that verifies.)
        stale = z3.Bool("verified_flag_left_by_an_earlier_run")
        it.ctx.assume(z3.Implies(stale, term(conv.post_check)))
        conv.attrs["check_completed"] = SV(stale)
        fn = neuropixel.NP2Converter._process_NP24
        node, filename, before, loop, after = N.loop_parts(fn)
        it.session.note_function(fn)
        env = I.Env(None, fn.__globals__, qualname="NP2Converter._process_NP24", filename=filename)
        env.funcnode = node
        env.vars["self"] = conv
        env.vars["overwrite"] = False
        it.ctx.func = env.qualname
        try:
            it.exec_block(after, env)
            outcome = "return"
        except I.ReturnEx as r:
            outcome = ("return", r.v)
        except PyRaise as e:
            outcome = "raise"
        pc, dl = term(conv.post_check), term(conv.delete_original)
        unl = [op for op in fs_.log if op[0] == "unlink" and op[1] == ap.key]
        it.ctx.oblige("delete.only_after_verified", z3.Implies(z3.BoolVal(bool(unl)), z3.And(pc, dl, z3.BoolVal("check" in calls and outcome != "raise"))), "post",
                      "the original is unlinked only with post_check and delete_original set and after check_NP24 returned normally")
        it.ctx.oblige("delete.only_if_every_sample_was_split_and_verified", z3.Implies(z3.BoolVal(bool(unl)), nproc == nrec), "post",
                      "the split and its verification run over the first nsamples samples (init_params option): the original goes only when that is the whole recording")
        it.ctx.oblige("delete.when_requested_and_verified", z3.Implies(z3.And(pc, dl, nproc == nrec, z3.BoolVal(outcome != "raise")), z3.BoolVal(bool(unl))), "post")
        it.ctx.oblige("delete.never_without_check", z3.Implies(z3.Not(pc), z3.BoolVal(not unl)), "post", "without verification the original stays, whatever delete_original says")
        if "check" in calls and "compress" in calls:
            it.ctx.oblige("order.check_before_compress", z3.BoolVal(calls.index("check") < calls.index("compress")), "post")
        it.ctx.oblige("order.files_closed_and_meta_before_check", z3.BoolVal(sorted(calls[:4]) == ["close", "close", "meta_ap", "meta_lf"]), "post")
    S.explore(body)

    # early exits of _process_NP24 / process: already split, already exists, not an NP2 probe
    S2 = H.session("early_exits")

    def body2(it):
        fs_, conv, ap, napch = mk_conv(it)
        conv.attrs["already_processed"] = True
        prepared = []

        def prep0(it_, a, k):
            prepared.append(dict(k))          # _prepare_files_NP24 creates folders and opens files for writing (harness prepare_files_NP24): any call is a change on disk
            a[0].attrs["already_exists"] = False
            return {}
        it.session.contracts[neuropixel.NP2Converter._prepare_files_NP24] = prep0
        for ow in (False, True):
            r = run_function(it, neuropixel.NP2Converter._process_NP24, [conv], {"overwrite": ow})
            it.ctx.oblige(f"already_split.returns_0_untouched.ow{ow}", z3.BoolVal(r == 0 and not fs_.log and not prepared), "post",
                          "an input that is itself the output of an earlier split is refused before any output folder or file is prepared, with or without overwrite")
        conv.attrs["already_processed"] = False

        def prep(it_, a, k):
            a[0].attrs["already_exists"] = True
            return {}
        it.session.contracts[neuropixel.NP2Converter._prepare_files_NP24] = prep
        r = run_function(it, neuropixel.NP2Converter._process_NP24, [conv], {"overwrite": False})
        it.ctx.oblige("already_exists.returns_0_untouched", z3.BoolVal(r == 0 and not fs_.log), "post", "a repeated run reports that it did nothing")
        for ver, fields in (("3B2", {"imDatPrb_type": 0.0, "imDatPrb_port": 1.0, "imDatPrb_slot": 2.0}), ("3B1", {"imDatPrb_type": 0.0}), ("3A", {"typeEnabled": 1.0}), ("NPultra", {"imDatPrb_type": 1100.0})):
            conv.attrs["np_version"] = ver
            conv.attrs["sr"] = SObj(spikeglx.Reader, meta=dict({"typeThis": "imec"}, **fields), file_bin=ap, _raw=None)
            called = []
            it.session.contracts[neuropixel.NP2Converter._process_NP21] = lambda it_, a, k: called.append("np21") or 1
            it.session.contracts[neuropixel.NP2Converter._process_NP24] = lambda it_, a, k: called.append("np24") or 1
            for ow in (False, True):
                r = run_function(it, neuropixel.NP2Converter.process, [conv], {"overwrite": ow})
                it.ctx.oblige(f"not_np2.returns_minus1_untouched.{ver}.ow{ow}", z3.BoolVal(r == -1 and not fs_.log and not called), "post",
                              "a probe that is neither NP2.1 nor NP2.4 (NP1 generations, NP Ultra) is refused: nothing is extracted, compressed or removed")
            it.session.contracts.pop(neuropixel.NP2Converter._process_NP21, None)
            it.session.contracts.pop(neuropixel.NP2Converter._process_NP24, None)
        # check_metadata: already-split detection
        for key, want in (({"NP2.4_shank": 2}, True), ({"NP2.4_shank": 0}, True), ({}, False)):
            c2 = SObj(neuropixel.NP2Converter, sr=SObj(spikeglx.Reader, meta=dict(key)), np_version="NP2.4")
            run_function(it, neuropixel.NP2Converter.check_metadata, [c2])
            it.ctx.oblige(f"check_metadata.{len(key)}.{list(key.values())}", z3.BoolVal(c2.already_processed is want), "post")
    S2.explore(body2)

    S3 = H.session("delete_NP24")

    def body3(it):
        fs_, conv, ap, napch = mk_conv(it)
        cc = z3.Bool("check_completed")
        conv.attrs["check_completed"] = SV(cc)
        nproc, nrec = z3.Ints("nsamples_processed ns_recording")
        it.ctx.assume(z3.And(nproc >= 1, nproc <= nrec))
        conv.attrs["nsamples"] = SV(nproc)
        # the original as the reader sees it: ns_recording samples; its size on disk is whatever the (possibly compressed) file takes
        disk = z3.Int("bytes_of_the_original_on_disk")
        it.ctx.assume(disk >= 1)
        conv.attrs["sr"] = SObj(spikeglx.Reader, _raw=None, file_bin=ap, ns=SV(nrec), nbytes=SV(disk), dtype=np.dtype("int16"), meta=conv.attrs["sr"].attrs["meta"],
                                is_mtscomp=SV(z3.Bool("original_is_compressed")))
        H.input(nsamples_processed=nproc, ns_recording=nrec, bytes_of_the_original_on_disk=disk)
        run_function(it, neuropixel.NP2Converter.delete_NP24, [conv])
        unl = [op for op in fs_.log if op[0] == "unlink"]
        it.ctx.oblige("delete_NP24.guard", z3.BoolVal(bool(unl)) == z3.And(cc, term(conv.delete_original), nproc == nrec), "post",
                      "deletion guarded by check_completed and delete_original, and by the whole recording having been processed")
        it.ctx.oblige("delete_NP24.only_the_original", z3.BoolVal(all(op[1] == ap.key for op in unl)), "post")
    S3.explore(body3)


# ----------------------------------------------------------------------------- compress_NP24 / compress_NP21 (through C02's compress_file)
def _reader_factory(fs_):
    def mk(it_, a, k):
        p = a[0]
        return SObj(spikeglx.Reader, file_bin=p, file_meta_data=p.with_suffix(".meta"), meta={"typeThis": "imec", "imSampRate": 30000.0, "nSavedChans": 97.0}, dtype=np.dtype("int16"), _raw=None,
                    opened_with_sort=k.get("sort", a[2] if len(a) > 2 else True))
    return mk


@harness(PROPERTY, "compress_NP24", functions=["neuropixel:NP2Converter.compress_NP24", "spikeglx:Reader.compress_file", "spikeglx:Reader.close"],
         clause="a forced re-run ends with a complete set of per-shank files whether or not earlier output exists; uncompressed output removed only after its compressed replacement is complete")
def h_compress24(H):
    for overwrite in (False, True):
        S = H.session(f"compress24.ow{overwrite}")

        def body(it, overwrite=overwrite):
            fs_, conv, ap, napch = mk_conv(it)
            C02.install_mtscomp(it, fs_)
            it.session.contracts[spikeglx.Reader] = _reader_factory(fs_)
            info = {}
            stale = []
            for s in (0,):
                d = ap.parent.parent.joinpath("probe00" + chr(97 + s))
                apf, lff = d.joinpath(ap.name), d.joinpath(ap.name.replace("ap", "lf"))
                for f in (apf, lff):
                    fs_.exists[f.key] = True
                    fs_.content[f.key] = z3.Const(fresh_name("splitbytes"), C02.Bytes)
                    fs_.size[f.key] = SV(z3.Int(fresh_name("size")))
                    for sfx in (".cbin", ".ch", ".cbin_tmp"):
                        e = z3.Bool(fresh_name("stale" + sfx.replace(".", "_")))
                        fs_.exists[f.with_suffix(sfx).key] = SV(e)
                        fs_.content[f.with_suffix(sfx).key] = z3.Const(fresh_name("stalebytes"), C02.Bytes)
                        if sfx == ".cbin":
                            stale.append(e)
                info[f"shank{s}"] = {"ap_file": apf, "lf_file": lff, "chns": None}
            conv.attrs["shank_info"] = info
            H.input(stale_ap_cbin=stale[0], stale_lf_cbin=stale[1])
            contents = {k: fs_.content[v.key] for k, v in (("ap", info["shank0"]["ap_file"]), ("lf", info["shank0"]["lf_file"]))}
            binpaths = {"ap": info["shank0"]["ap_file"], "lf": info["shank0"]["lf_file"]}
            tag = f"ow{overwrite}"
            try:
                run_function(it, neuropixel.NP2Converter.compress_NP24, [conv], {"overwrite": overwrite})
                failed = None
            except PyRaise as e:
                failed = e.exc
            if failed is None:
                for kind in ("ap", "lf"):
                    cb = binpaths[kind].with_suffix(".cbin")
                    it.ctx.oblige(f"compress24.complete.{kind}.{tag}", z3.And(C02.ex_term(fs_, cb), fs_.content[cb.key] == C02.Cf(contents[kind]), C02.ex_term(fs_, cb.with_suffix(".ch")),
                                                                               z3.Not(C02.ex_term(fs_, binpaths[kind])), z3.BoolVal(conv.shank_info["shank0"][f"{kind}_file"] == cb)), "post",
                                  "per-shank file set complete: .cbin holds the compressed split file, .ch exists, the .bin is gone")
            else:
                # mtscomp failed part-way: nothing that was complete has been lost
                for kind in ("ap", "lf"):
                    cb = binpaths[kind].with_suffix(".cbin")
                    it.ctx.oblige(f"compress24.fail.recoverable.{kind}.{tag}", z3.Or(z3.And(C02.ex_term(fs_, binpaths[kind]), fs_.content[binpaths[kind].key] == contents[kind]),
                                                                                      z3.And(C02.ex_term(fs_, cb), fs_.content[cb.key] == C02.Cf(contents[kind]))), "post",
                                  "after a failure each split stream is still present, either uncompressed or completely compressed")
            it.ctx.oblige(f"compress24.original_untouched.{tag}", z3.BoolVal(not touched(fs_, ap.key)), "post")
            it.ctx.oblige(f"compress24.no_unexpected_exception.{tag}", z3.BoolVal(failed is None or isinstance(failed, RuntimeError)), "post",
                          "the only exception is a failure of mtscomp itself (no FileNotFoundError on a fresh output directory)")
        S.explore(body)


@harness(PROPERTY, "compress_NP21", functions=["neuropixel:NP2Converter.compress_NP21", "neuropixel:NP2Converter._prepare_files_NP21"],
         clause="single-shank probes: the original is removed only after it has been losslessly compressed in place; repeated run without overwrite touches nothing")
def h_np21(H):
    for overwrite in (False, True):
        S = H.session(f"compress21.ow{overwrite}")

        def body(it, overwrite=overwrite):
            fs_, conv, ap, napch = mk_conv(it, version="NP2.1")
            C02.install_mtscomp(it, fs_)
            it.session.contracts[spikeglx.Reader] = _reader_factory(fs_)
            conv.attrs["sr"] = _reader_factory(fs_)(it, [ap], {"sort": False})          # as __init__ opens it: channels in acquisition order
            lf = ap.parent.joinpath(ap.name.replace("ap", "lf"))
            fs_.exists[lf.key] = True
            fs_.content[lf.key] = z3.Const("lfbytes", C02.Bytes)
            for f in (ap, lf):
                for sfx in (".cbin", ".ch", ".cbin_tmp"):
                    e = z3.Bool(fresh_name("stale"))
                    fs_.exists[f.with_suffix(sfx).key] = SV(e) if not (f is ap and sfx == ".cbin") else False
                    fs_.content[f.with_suffix(sfx).key] = z3.Const(fresh_name("stalebytes"), C02.Bytes)
            conv.attrs["shank_info"] = {"shank0": {"lf_file": lf, "chns": None}}
            orig = fs_.content[ap.key]
            tag = f"ow{overwrite}"
            try:
                run_function(it, neuropixel.NP2Converter.compress_NP21, [conv], {"overwrite": overwrite})
                failed = None
            except PyRaise as e:
                failed = e.exc
            cb = ap.with_suffix(".cbin")
            it.ctx.oblige(f"np21.original_recoverable.{tag}", z3.Or(z3.And(C02.ex_term(fs_, ap), fs_.content[ap.key] == orig), z3.And(C02.ex_term(fs_, cb), C02.Df(fs_.content[cb.key]) == orig)), "post",
                          "at the end - normal or failed - the original samples are recoverable byte for byte (file itself, or its lossless compression)")
            unl = [i for i, op in enumerate(fs_.log) if op[0] == "unlink" and op[1] == ap.key]
            ren = [i for i, op in enumerate(fs_.log) if op[0] == "rename" and op[2] == cb.key]
            it.ctx.oblige(f"np21.unlink_after_compress.{tag}", z3.BoolVal(not unl or (ren and ren[0] < unl[0])), "post", "the original is unlinked only after its .cbin has been published")
            it.ctx.oblige(f"np21.no_unexpected_exception.{tag}", z3.BoolVal(failed is None or isinstance(failed, RuntimeError)), "post")
            if failed is None:
                sr2 = conv.attrs.get("sr")
                it.ctx.oblige(f"np21.reader_kept_reads_as_before.{tag}", z3.BoolVal(isinstance(sr2, SObj) and sr2.attrs.get("opened_with_sort") is False and sr2.attrs.get("file_bin") == cb), "post",
                              "idempotent over run histories: the reader the converter keeps for a later (forced) run is re-opened on the compressed original the way __init__ opened it - "
                              "channels in acquisition order - so that a re-run on the same object extracts the same LF stream")
        S.explore(body)



@harness(PROPERTY, "prepare_files_NP21", functions=["neuropixel:NP2Converter._prepare_files_NP21"],
         clause="single-shank probes: a repeated run without overwrite changes nothing on disk; a forced (or first) run starts the LF output empty; the output never aliases the input")
def h_prepare21(H):
    # file names: the SpikeGLX convention (<run>.imec0.ap.bin) and a recording renamed by the user (band tag not between dots) - the reader opens either
    for overwrite, stem in ((False, "x.imec0.ap"), (True, "x.imec0.ap"), (False, "x_g0_t0_ap"), (True, "x_g0_t0_ap")):
        S2 = H.session(f"prepare21.ow{overwrite}" + ("" if stem == "x.imec0.ap" else ".renamed_file"))

        def body2(it, overwrite=overwrite, stem=stem):
            fs_, conv, ap, napch = mk_conv(it, version="NP2.1", stem=stem)
            lf = ap.parent.joinpath(ap.name.replace("ap", "lf")).with_suffix(".bin")
            e1, e2 = z3.Bools("lf_bin_exists lf_cbin_exists")
            fs_.exists[lf.key] = SV(e1)
            fs_.exists[lf.with_suffix(".cbin").key] = SV(e2)
            conv.attrs["already_exists"] = SV(z3.Bool("flag_left_by_an_earlier_call"))          # the same object may have been run before
            info = run_function(it, neuropixel.NP2Converter._prepare_files_NP21, [conv], {"overwrite": overwrite, "assert_shanks": False})
            if overwrite:
                ae_ = conv.already_exists
                it.ctx.oblige("np21.forced_run_is_not_reported_as_existing", z3.Not(term(ae_)) if not isinstance(ae_, bool) else z3.BoolVal(not ae_), "post",
                              "a forced run never reports 'already exists' (the caller would return without extracting, after the LF file was truncated)")
            created = [op for op in fs_.log if op[0] in ("open_w", "open_a", "mkdir")]
            ae = conv.already_exists
            ae_t = term(ae) if not isinstance(ae, bool) else z3.BoolVal(ae)
            tag = f"ow{overwrite}" + ("" if stem == "x.imec0.ap" else ".renamed_file")
            if stem != "x.imec0.ap":
                it.ctx.oblige(f"np21.outputs_never_alias_input.{tag}", z3.BoolVal(all(op[1] != ap.key for op in created) and isinstance(info, dict) and all(v.get("lf_file") != ap for v in info.values())), "post",
                              "the original is never the LF output, whatever the recording is called: it is neither truncated nor taken for earlier output")
                return
            if not overwrite:
                it.ctx.oblige("np21.rerun.flag", ae_t == z3.Or(e1, e2), "post")
                it.ctx.oblige("np21.rerun.noop", z3.Implies(ae_t, z3.BoolVal(not created)), "post", "a repeated run without overwrite changes nothing on disk")
            truncated = {op[1] for op in fs_.log if op[0] == "open_w"}
            started = z3.BoolVal(isinstance(info, dict) and len(info) >= 1 and all("lf_file" in v and v["lf_file"].key in truncated for v in info.values()))
            it.ctx.oblige(f"np21.output_holds_nothing_yet.{tag}", z3.Implies(z3.Not(ae_t), z3.And(*[is_empty(fs_, v["lf_file"]) for v in info.values() if "lf_file" in v])) if isinstance(info, dict) else z3.BoolVal(False), "post",
                          "the LF file holds exactly what the windows append: nothing is in it (no reserved or left-over bytes) when the extraction starts", assume=False)
            it.ctx.oblige(f"np21.output_starts_empty.{tag}", z3.Implies(z3.Not(ae_t), started), "post",
                          "whenever the extraction runs (first or forced), the LF file is created / truncated before samples are appended: an lf.bin left by an earlier run never ends up in front of the new stream")
            it.ctx.oblige(f"np21.outputs_never_alias_input.{tag}", z3.BoolVal(all(op[1] != ap.key for op in created)), "post")
        S2.explore(body2)


@harness(PROPERTY, "init_params_resets", functions=["neuropixel:NP2Converter.init_params"], clause="check_completed cannot survive from an earlier run: init_params resets it")
def h_init(H):
    S = H.session("init_params")

    def body(it):
        fs_, conv, ap, napch = mk_conv(it)
        conv.attrs["check_completed"] = True
        conv.attrs["sr"] = SObj(spikeglx.Reader, meta={"typeThis": "imec", "snsApLfSy": [384.0, 0.0, 1.0], "imSampRate": 30000.0, "fileTimeSecs": 1.0})
        run_function(it, neuropixel.NP2Converter.init_params, [conv], {"nsamples": 1000})
        it.ctx.oblige("init_params.resets_check_completed", z3.BoolVal(conv.check_completed is False), "post")
    S.explore(body)


# ----------------------------------------------------------------------------- bounded: histories on real files
FIX = os.path.join(os.path.dirname(spikeglx.__file__), "tests", "fixtures", "np2split")


def _tree(root):
    out = {}
    for d, _, fs in os.walk(root):
        for f in fs:
            p = os.path.join(d, f)
            out[os.path.relpath(p, root)] = (os.path.getsize(p), __import__("hashlib").sha1(open(p, "rb").read()).hexdigest())
    return out


def _mk(kind, ns=3000):
    d = tempfile.mkdtemp(prefix="c04_")
    pdir = os.path.join(d, "raw_ephys_data", "probe00")
    os.makedirs(pdir)
    ap = os.path.join(pdir, "_spikeglx_ephysData_g0_t0.imec0.ap.bin")
    rng = np.random.default_rng(1)
    D = rng.integers(-2000, 2000, size=(ns, 385), dtype=np.int16)
    D.tofile(ap)
    meta = os.path.join(FIX, {"NP2.4": "NP24_meta", "NP2.1": "NP21_meta", "NP1": "NP1_meta"}[kind], "_spikeglx_ephysData_g0_t0.imec0.ap.meta") if kind != "NPultra" \
        else os.path.join(os.path.dirname(FIX), "sampleNPultra_g0_t0.imec0.ap.meta")
    with open(meta) as f, open(ap[:-3] + "meta", "w") as g:
        for line in f:
            if line.startswith("fileSizeBytes"):
                line = f"fileSizeBytes={ns * 385 * 2}\n"
            elif line.startswith("fileTimeSecs"):
                line = f"fileTimeSecs={ns / 30000:.10f}\n"
            g.write(line)
    return d, ap, D.tobytes()


def native_failed_check_then_delete(*_a):
    out = {"failed": False, "histories": []}
    for how in ("check_called_directly", "check_inside_process"):
        d, ap, orig = _mk("NP2.4")
        try:
            conv = neuropixel.NP2Converter(ap, post_check=(how == "check_inside_process"), compress=False, delete_original=True)
            conv.init_params(nwindow=1200)

            def damage():
                f = conv.shank_info["shank1"]["ap_file"]
                a = np.fromfile(f, dtype=np.int16)
                a[1234 * 97 + 5] += 1
                a.tofile(f)
            raised = False
            if how == "check_called_directly":
                conv.process()
                damage()
                try:
                    conv.check_NP24()
                except AssertionError:
                    raised = True
            else:
                real = conv._writemetadata_lf
                conv._writemetadata_lf = lambda: (real(), damage())
                try:
                    conv.process()
                except AssertionError:
                    raised = True
            flag = bool(conv.check_completed)
            try:
                conv.delete_NP24()
            except Exception:
                pass
            alive = os.path.exists(ap) and open(ap, "rb").read() == orig
            h = {"history": how, "verification_raised": raised, "check_completed_after_failure": flag, "original_intact_after_delete_NP24": alive}
            out["histories"].append(h)
            if not raised or flag or not alive:
                out["failed"] = True
        finally:
            shutil.rmtree(d, ignore_errors=True)
    return out


@bounded(PROPERTY, "native_histories", bound="real files (3000 samples, window 1200): NP2.4 x option triples {post_check, compress, delete_original} sampled (quick 4, thorough all 8) x histories "
         "[run], [run, run], [run, run(overwrite)], [fresh run(overwrite)], [run interrupted during compression, run(overwrite)], [run with a corrupted shank file + delete_original], [failed verification, then delete_NP24() on the same object]; NP2.1 x {run, run run, run(overwrite)}; "
         "NP1 and NP Ultra (refused, tree unchanged); the first 2000 of 3000 samples split with post_check + delete_original; one object finding earlier output then forced; the converter pointed at an already split shank (both overwrite values); a 3007-sample recording with post_check + delete_original",
         clause="original recoverable after every history; repeated run is a no-op reporting 0; forced re-run ends with a complete set")
def b_native(B):
    import itertools
    import unittest.mock as um
    triples = list(itertools.product((True, False), repeat=3))
    if B.tier == "quick":
        triples = [(True, True, True), (True, False, False), (False, True, True), (True, True, False)]
    for pc, comp, dele in triples:
        for hist in (["run"], ["run", "run"], ["run", "ow"], ["ow"]):
            d, ap, orig = _mk("NP2.4")
            try:
                rets = []
                before = None
                for step in hist:
                    if not os.path.exists(ap):
                        break
                    conv = neuropixel.NP2Converter(ap, post_check=pc, compress=comp, delete_original=dele)
                    conv.init_params(nwindow=1200)
                    if step == "run" and rets:
                        before = _tree(d)
                    rets.append(conv.process(overwrite=(step == "ow")))
                    conv.sr.close()
                ok = True
                detail = {"rets": rets}
                if os.path.exists(ap):
                    ok = ok and open(ap, "rb").read() == orig
                else:
                    ok = ok and pc and dele         # removed only when verified + requested
                    rec = neuropixel.NP2Reconstructor(os.path.dirname(os.path.dirname(ap)), "probe00", compress=False)
                    ok = ok and rec.process() == 1 and open(rec.save_file, "rb").read() == orig
                if hist == ["run", "run"] and len(rets) == 2:
                    ok = ok and rets == [1, 0] and _tree(d) == before
                    detail["tree_unchanged"] = _tree(d) == before
                if hist[-1] == "ow" and len(rets) == len(hist):
                    for s in "abcd":
                        fl = sorted(os.listdir(os.path.join(d, "raw_ephys_data", "probe00" + s)))
                        want_ext = (["ap.cbin", "ap.ch", "ap.meta", "lf.cbin", "lf.ch", "lf.meta"] if comp else ["ap.bin", "ap.meta", "lf.bin", "lf.meta"])
                        ok = ok and sorted(x.split("imec0.")[1] for x in fl) == want_ext
                        detail.setdefault("files", {})[s] = fl
                B.case(("NP2.4", pc, comp, dele, tuple(hist)), ok, detail=detail, inputs={"kind": "history", "probe": "NP2.4", "history": hist, "post_check": pc, "compress": comp, "delete_original": dele})
            finally:
                shutil.rmtree(d, ignore_errors=True)
    # corrupted split + delete_original: verification must catch it in any window and keep the original
    for where in (100, 2900):
        d, ap, orig = _mk("NP2.4")
        try:
            conv = neuropixel.NP2Converter(ap, post_check=True, compress=False, delete_original=True)
            conv.init_params(nwindow=1200)
            real = conv._writemetadata_lf

            def corrupt():
                real()
                f = conv.shank_info["shank2"]["ap_file"]
                a = np.fromfile(f, dtype=np.int16)
                a[where * 97 + 3] += 1
                a.tofile(f)
            conv._writemetadata_lf = corrupt
            raised = False
            try:
                conv.process()
            except AssertionError:
                raised = True
            B.case(("corrupt_then_delete", where), raised and os.path.exists(ap) and open(ap, "rb").read() == orig, detail={"raised": raised, "original_exists": os.path.exists(ap)})
        finally:
            shutil.rmtree(d, ignore_errors=True)
    # the same converter object run twice (second time forced): the per-shank files of the second run must be as valid as those of a fresh run
    d, ap, orig = _mk("NP2.4")
    try:
        conv = neuropixel.NP2Converter(ap, post_check=True, compress=False, delete_original=False)
        conv.init_params(nwindow=1200)
        r1 = conv.process()
        conv.init_params(nwindow=1800)
        try:
            r2 = conv.process(overwrite=True)
            okf = (r1, r2) == (1, 1)
            for sh, inf in conv.shank_info.items():
                sra = spikeglx.Reader(inf["ap_file"], sort=False)
                srl = spikeglx.Reader(inf["lf_file"], sort=False)
                okf = okf and sra.type == "ap" and srl.type == "lf" and sra.shape == (3000, len(inf["chns"])) and srl.shape == (250, len(inf["chns"]))
                sra.close()
                srl.close()
            det = {"returns": [r1, r2]}
        except Exception as e:
            okf, det = False, {"second_run_raised": repr(e)[:160]}
        conv.sr.close()
        B.case("same_object_forced_rerun", bool(okf) and open(ap, "rb").read() == orig, detail=det)
    finally:
        shutil.rmtree(d, ignore_errors=True)
    # only the first nsamples samples processed (init_params option) with post_check + delete_original: the rest of the recording exists nowhere else, the original stays
    for comp in (False, True):
        d, ap, orig = _mk("NP2.4")
        try:
            conv = neuropixel.NP2Converter(ap, post_check=True, compress=comp, delete_original=True)
            conv.init_params(nwindow=1200, nsamples=2000)
            r = conv.process()
            try:
                conv.sr.close()
            except Exception:
                pass
            alive = os.path.exists(ap) and open(ap, "rb").read() == orig
            B.case(("partial_split_keeps_the_original", comp), r == 1 and alive, detail={"returned": r, "original_intact": alive}, inputs={"kind": "partial_split_delete", "compress": comp})
        finally:
            shutil.rmtree(d, ignore_errors=True)
    # the same with a compressed original (its size on disk says nothing about the number of samples it holds)
    d, ap, orig = _mk("NP2.4")
    try:
        s0 = spikeglx.Reader(ap)
        cb = s0.compress_file(keep_original=False)
        s0.close()
        cb_bytes = open(cb, "rb").read()
        conv = neuropixel.NP2Converter(cb, post_check=True, compress=False, delete_original=True)
        conv.init_params(nwindow=1200, nsamples=2950)
        r = conv.process()
        try:
            conv.sr.close()
        except Exception:
            pass
        alive = os.path.exists(cb) and open(cb, "rb").read() == cb_bytes
        B.case("partial_split_keeps_the_compressed_original", r == 1 and alive, detail={"returned": r, "original_intact": alive, "samples_split": 2950, "samples_recorded": 3000,
               "bytes_on_disk": len(cb_bytes), "bytes_split": 2950 * 385 * 2}, inputs={"kind": "partial_split_delete_cbin"})
    finally:
        shutil.rmtree(d, ignore_errors=True)
    # the usual idiom on one object: a run that finds earlier output (returns 0), then the same object forced
    for kind in ("NP2.4", "NP2.1"):
        d, ap, orig = _mk(kind)
        try:
            c0 = neuropixel.NP2Converter(ap, post_check=False, compress=False, delete_original=False)
            c0.init_params(nwindow=1200)
            c0.process()
            c0.sr.close()
            conv = neuropixel.NP2Converter(ap, post_check=False, compress=False, delete_original=False)
            conv.init_params(nwindow=1200)
            r1 = conv.process()
            r2 = conv.process(overwrite=True)
            if kind == "NP2.4":
                sizes = {sh: os.path.getsize(inf["ap_file"]) for sh, inf in conv.shank_info.items()}
                okr = (r1, r2) == (0, 1) and all(v == 3000 * len(conv.shank_info[sh]["chns"]) * 2 for sh, v in sizes.items())
            else:
                lf = ap.replace(".ap.", ".lf.")
                sizes = {"lf": os.path.getsize(lf) if os.path.exists(lf) else -1}
                okr = (r1, r2) == (0, 1) and sizes["lf"] == 250 * 385 * 2
            conv.sr.close()
            B.case(("found_existing_then_forced_on_the_same_object", kind), bool(okr), detail={"returns": [r1, r2], "output_sizes": sizes}, inputs={"kind": "same_object_0_then_forced", "probe": kind})
        except Exception as e:
            B.case(("found_existing_then_forced_on_the_same_object", kind), False, detail={"raised": repr(e)[:160]})
        finally:
            shutil.rmtree(d, ignore_errors=True)
    # a verification that failed, followed by an explicit delete_NP24() on the same converter object: the original must survive
    r = native_failed_check_then_delete()
    B.case("failed_check_then_delete", not r["failed"], detail=r)
    # partial folders (finding F-C04-1)
    d, ap, orig = _mk("NP2.4")
    try:
        os.makedirs(os.path.join(d, "raw_ephys_data", "probe00a"))
        conv = neuropixel.NP2Converter(ap, compress=False)
        conv.init_params(nwindow=1200)
        before = _tree(d)
        r = conv.process()
        B.case("partial_folders_retry", not (r == 0 and _tree(d) != before), detail={"returned": r, "created": sorted(set(_tree(d)) - set(before))[:6]}, inputs={"kind": "partial_folders"})
        B.case("partial_folders_original_intact", open(ap, "rb").read() == orig, detail="original changed")
    finally:
        shutil.rmtree(d, ignore_errors=True)
    # the converter pointed at a shank file written by an earlier split: refused, and nothing appears on disk (with or without overwrite)
    d, ap, orig = _mk("NP2.4")
    try:
        conv = neuropixel.NP2Converter(ap, post_check=False, compress=False, delete_original=False)
        conv.init_params(nwindow=1200)
        conv.process()
        shank_ap = str(conv.shank_info["shank1"]["ap_file"])
        conv.sr.close()
        before = _tree(d)
        rets = []
        for ow in (False, True):
            c2 = neuropixel.NP2Converter(shank_ap, compress=False)
            c2.init_params(nwindow=1200)
            rets.append(c2.process(overwrite=ow))
            c2.sr.close()
            for inf in (getattr(c2, "shank_info", None) or {}).values():
                for kk in ("ap_open_file", "lf_open_file"):
                    if kk in inf:
                        inf[kk].close()
        after = _tree(d)
        B.case("already_split_shank_untouched", rets == [0, 0] and after == before, detail={"returned": rets, "created": sorted(set(after) - set(before))[:6], "changed": sorted(k for k in before if after.get(k) != before[k])[:6]},
               inputs={"kind": "already_split"})
    finally:
        shutil.rmtree(d, ignore_errors=True)
    # a recording whose length is not a multiple of the LF decimation (nor of anything else convenient): verified and deleted only if the shank files hold every sample
    d, ap, orig = _mk("NP2.4", ns=3007)
    try:
        conv = neuropixel.NP2Converter(ap, post_check=True, compress=False, delete_original=True)
        conv.init_params(nwindow=1200)
        r = conv.process()
        full = True
        lens = {}
        for sh, inf in conv.shank_info.items():
            a = np.fromfile(inf["ap_file"], dtype=np.int16)
            lens[sh] = a.size // len(inf["chns"])
            D = np.frombuffer(orig, dtype=np.int16).reshape(3007, 385)
            full = full and a.size == 3007 * len(inf["chns"]) and np.array_equal(a.reshape(3007, -1), D[:, inf["chns"]])
        B.case("odd_length_deleted_only_when_complete", r == 1 and (full or os.path.exists(ap)), detail={"returned": r, "samples_per_shank_file": lens, "original_exists": os.path.exists(ap)}, inputs={"kind": "odd_length"})
    finally:
        shutil.rmtree(d, ignore_errors=True)
    # NP2.1, one converter object run, then forced again (the original has become a .cbin in between): the second LF stream equals the first
    d, ap, orig = _mk("NP2.1")
    try:
        conv = neuropixel.NP2Converter(ap)
        conv.init_params(nwindow=1200)
        r1 = conv.process()
        s1 = spikeglx.Reader(conv.shank_info["shank0"]["lf_file"], sort=False)
        lf1 = s1[:, :].copy()
        s1.close()
        r2 = conv.process(overwrite=True)
        s2 = spikeglx.Reader(conv.shank_info["shank0"]["lf_file"], sort=False)
        lf2 = s2[:, :].copy()
        s2.close()
        conv.sr.close()
        same = lf1.shape == lf2.shape and np.array_equal(lf1, lf2)
        B.case("np21_same_object_forced_rerun", r1 == 1 and r2 == 1 and same, detail={"returned": [r1, r2], "lf_shapes": [list(lf1.shape), list(lf2.shape)],
               "columns_that_differ": np.flatnonzero(np.any(lf1 != lf2, axis=0))[:8].tolist() if lf1.shape == lf2.shape else None}, inputs={"kind": "np21_same_object_forced_rerun"})
    finally:
        shutil.rmtree(d, ignore_errors=True)
    for kind in ("NP2.1", "NP1", "NPultra"):
        for hist in (["run"], ["run", "run"], ["run", "ow"]):
            d, ap, orig = _mk(kind)
            tree0 = _tree(d)
            try:
                rets = []
                cur = ap
                for step in hist:
                    conv = neuropixel.NP2Converter(cur)
                    conv.init_params(nwindow=1200)
                    rets.append(conv.process(overwrite=(step == "ow")))
                    cur = str(conv.ap_file)
                    conv.sr.close()
                if kind in ("NP1", "NPultra"):
                    ok = all(r == -1 for r in rets) and open(ap, "rb").read() == orig and _tree(d) == tree0
                else:
                    cb = ap[:-3] + "cbin"
                    ok = os.path.exists(cb) and not os.path.exists(ap)
                    sr = spikeglx.Reader(cb)
                    back = sr.decompress_file(keep_original=True, out=__import__("pathlib").Path(d) / "back.bin")
                    sr.close()
                    ok = ok and open(back, "rb").read() == orig
                    if hist == ["run", "run"]:
                        ok = ok and rets == [1, 0]
                B.case((kind, tuple(hist)), ok, detail={"rets": rets}, inputs={"kind": "history", "probe": kind, "history": hist})
            finally:
                shutil.rmtree(d, ignore_errors=True)


# ----------------------------------------------------------------------------- contracts of dependencies this property rests on (re-checked here)
from pyvc.api import depends  # noqa: E402
depends(PROPERTY, "C17", ["firstlast"])      # check_NP24 iterates the window generator under its contract
depends(PROPERTY, "C11", ["open_int16"])      # "verified bit-identical": the reader exposes every complete frame of the original, so that the split and its verification cover them all
depends(PROPERTY, "C03", ["metadata_split_and_restore", "init_params"])      # a forced re-run ends with valid per-shank metadata: written from a deep copy, the reader's own metadata untouched
depends(PROPERTY, "C12", ["lf_metadata"])
