"""C12 - LFP extraction equals low-pass plus decimation, independent of windowing.

Functions under contract: neuropixel.NP2Converter._process_NP24 (window loop body, LF half), .extract_lfp, .extract_lfp_sync, ._ind2save,
._writemetadata_lf.  Numeric equality with whole-trace filtering is a bounded stand-in (the filter is opaque to the verifier).
"""
import os
import shutil
import tempfile

import numpy as np
import scipy.signal
import z3

import neuropixel
import spikeglx
from pyvc.api import harness, bounded, property_meta, run_function
from pyvc.core import SV, term, fresh_name, Unsupported
from pyvc import arrays as A, fsmodel
from pyvc.interp import SObj
from contracts import np2common as N, C17, C03

PROPERTY = "C12"
property_meta(
    PROPERTY, level="other",
    trusted_base=["A-PY", "A-NP-INDEX", "A-REAL", "A-SCIPY sosfiltfilt: output has the shape of its input, contents opaque", "C17 generator contract", "C09 (sync factor 1)",
                  "C11 (a file whose size disagrees with the announced duration opens with floor(bytes/frame) samples)"],
    explanation="one symbolic iteration of the real window loop, LF half: block appended per window has ceil-consistent row counts that tile [0, ceil(ns/12)), the sync column is exactly every 12th AP sync word, "
                "the data columns are the decimated filter output of the tapered window of the right samples (data-flow; filter opaque); LF metadata declares 2500 Hz and the per-shank channel counts. "
                "Window independence and equality with whole-trace low-pass + decimation to 1 LSB: bounded stand-in on real files.")


def lf_range(info, w):
    Yf, Yl, K, j = w["Yf"], w["Yl"], w["K"], w["j"]
    a = z3.If(j == 0, z3.IntVal(0), (Yf(j) + 2 * N.TAPER) / 12)
    b = z3.If(j == K - 1, (info["ns"] + 11) / 12, (Yf(j) + info["W"] - 2 * N.TAPER) / 12)
    return a, b


@harness(PROPERTY, "lf_window", functions=["neuropixel:NP2Converter._process_NP24", "neuropixel:NP2Converter.extract_lfp", "neuropixel:NP2Converter.extract_lfp_sync", "neuropixel:NP2Converter._ind2save"],
         clause="ceil(n/12) samples, every 12th AP sync word, no gap / duplicate across windows; data columns = decimated filter output of the tapered window")
def h_lf(H):
    _lf_harness(H, "lf.window", None, 2, "")
    _lf_lemmas(H)


@harness(PROPERTY, "lf_window_np21", functions=["neuropixel:NP2Converter._process_NP21", "neuropixel:NP2Converter.extract_lfp", "neuropixel:NP2Converter.extract_lfp_sync", "neuropixel:NP2Converter._ind2save"],
         clause="the single-shank (NP2.1) window loop: same LF block per window as the multi-shank loop")
def h_lf_np21(H):
    _lf_harness(H, "lf.window.np21", neuropixel.NP2Converter._process_NP21, 1, ".np21")


def _lf_harness(H, session, fn, nshanks, sfx):
    S = H.session(session)

    def body(it):
        conv, info = N.mk_converter(it, nshanks=nshanks)
        w = N.run_window(it, conv, info, fn=fn, extra_vars={"offset": 0, "kwargs": {}} if fn is not None else None)
        Yf, Yl, K, j = w["Yf"], w["Yl"], w["K"], w["j"]
        a, b = lf_range(info, w)
        raw, napch = info["raw"], info["napch"]
        r, c, t = z3.Ints("r c t")
        it.ctx.oblige("lf.window_start_multiple_of_12" + sfx, Yf(j) % 12 == 0, "lemma", "window starts are multiples of the decimation ratio, so the decimation phase is the same in every window")
        fl = getattr(it.ctx, "filt_log", [])
        okf = len(fl) == 1
        if not okf:
            raise Unsupported(f"cannot identify the low-pass filter call of extract_lfp (found {len(fl)})")
        it.ctx.oblige("lf.one_filter_call" + sfx, z3.BoolVal(okf), "post")
        L = Yl(j) - Yf(j)
        if okf:
            f = fl[0]
            tpl = A.from_numpy(np.asarray(conv.taper)[:N.TAPER])      # the same two halves the code multiplies with
            tpr = A.from_numpy(np.asarray(conv.taper)[N.TAPER:])
            base = lambda cc, tt: z3.ToReal(raw.read((Yf(j) + tt, cc))) * info["s2v"]     # noqa
            it.ctx.oblige("lf.filter_input.shape" + sfx, z3.And(A.T(f["in_shape"][0]) == napch, A.T(f["in_shape"][1]) == L, z3.BoolVal(f["axis"] == -1)), "post",
                          "the low-pass runs along time over the AP channels of this window")
            it.ctx.oblige("lf.filter_input.middle" + sfx, A.forall([c, t], lambda: z3.Implies(z3.And(c >= 0, c < napch, t >= N.TAPER, t < L - N.TAPER), f["input"]((c, t)) == base(c, t))), "post",
                          "away from the two window edges the filter sees the calibrated samples of this window", assume=False)
            it.ctx.oblige("lf.filter_input.left_taper" + sfx, A.forall([c, t], lambda: z3.Implies(z3.And(c >= 0, c < napch, t >= 0, t < N.TAPER, L >= 2 * N.TAPER), f["input"]((c, t)) == base(c, t) * tpl.read((t,)))), "post",
                          "first 144 samples multiplied by the rising cosine taper", assume=False)
            it.ctx.oblige("lf.filter_input.right_taper" + sfx, A.forall([c, t], lambda: z3.Implies(z3.And(c >= 0, c < napch, t >= L - N.TAPER, t < L, L >= 2 * N.TAPER), f["input"]((c, t)) == base(c, t) * tpr.read((t - (L - N.TAPER),)))), "post",
                          "last 144 samples multiplied by the falling cosine taper", assume=False)
        for s, ch in enumerate(info["chns"]):
            gf = info["shank_info"][f"shank{s}"]["lf_open_file"]
            ok = len(gf.writes) == 1
            it.ctx.oblige(f"lf.one_block_per_window.{s}" + sfx, z3.BoolVal(ok), "post")
            if not ok:
                continue
            blk = gf.writes[0]
            m = A.T(ch.shape[0])
            it.ctx.oblige(f"lf.block_shape.{s}" + sfx, z3.And(z3.BoolVal(blk.dtype == np.dtype("int16")), A.T(blk.shape[0]) == b - a, A.T(blk.shape[1]) == m), "post",
                          "rows == LF samples [a_j/12, b_j/12) (last window: up to ceil(ns/12))")
            it.ctx.oblige(f"lf.sync_every_12th.{s}" + sfx, A.forall([r], lambda: z3.Implies(z3.And(r >= 0, r < b - a), blk.read((r, m - 1)) == raw.read((12 * (a + r), napch)))), "post",
                          "LF sync word m is AP sync word 12 m, exactly", assume=False)
            if okf:
                lp = fl[0]["out"]
                it.ctx.oblige(f"lf.data_flow.{s}" + sfx, A.forall([r, c], lambda: z3.Implies(z3.And(r >= 0, r < b - a, c >= 0, c < m - 1),
                              blk.read((r, c)) == A.cast_term("float64", "int16", z3.ToReal(__import__("pyvc.core", fromlist=["x"]).round_half_even(lp.read((ch.read((c,)), 12 * (a + r) - Yf(j))) / info["s2v"]))))), "post",
                              "LF sample m of a channel is the filter output at AP sample 12 m of that channel, converted back to counts", assume=False)
    S.explore(body)


def _lf_lemmas(H):
    ns, W, K, j = z3.Ints("ns W K j")
    Yf = z3.Function("Yf", z3.IntSort(), z3.IntSort())
    Yl = z3.Function("Yl", z3.IntSort(), z3.IntSort())
    hyp = [ns >= 2 * N.TAPER, W > N.OVERLAP, W % 12 == 0] + [f for _, f in C17.firstlast_post(ns, W, z3.IntVal(N.OVERLAP), Yf, Yl, K)]
    a = lambda jj: z3.If(jj == 0, z3.IntVal(0), (Yf(jj) + 2 * N.TAPER) / 12)     # noqa
    b = lambda jj: z3.If(jj == K - 1, (ns + 11) / 12, (Yf(jj) + W - 2 * N.TAPER) / 12)       # noqa
    H.lemma("lf_tiling.mult12", hyp + [j >= 0, j < K], Yf(j) % 12 == 0)
    H.lemma("lf_tiling.starts_at_0", hyp, a(0) == 0)
    H.lemma("lf_tiling.contiguous", hyp + [j >= 0, j < K - 1, Yf(j) % 12 == 0, Yf(j + 1) % 12 == 0], b(j) == a(j + 1))
    H.lemma("lf_tiling.ends_at_ceil", hyp, b(K - 1) == (ns + 11) / 12, "total LF sample count is ceil(ns/12)")
    H.lemma("lf_tiling.non_empty", hyp + [j >= 0, j < K, Yf(j) % 12 == 0], a(j) < b(j))


@harness(PROPERTY, "lf_metadata", functions=["neuropixel:NP2Converter._writemetadata_lf"], clause="LF metadata declares 2500 Hz and the channel counts actually written")
def h_meta(H):
    for version in ("NP2.4", "NP2.1"):
        S = H.session(f"lf.meta.{version}")

        def body(it, version=version):
            fs_ = fsmodel.GhostFS()
            it.session.ghost_fs = fs_
            napch = z3.Int("napch")
            it.ctx.assume(napch >= 1)
            meta = {"typeThis": "imec", "imSampRate": 30000.0, "acqApLfSy": [384.0, 0.0, 1.0], "snsApLfSy": [SV(z3.ToReal(napch)), 0.0, 1.0], "nSavedChans": SV(z3.ToReal(napch + 1)),
                    "fileSizeBytes": SV(z3.Real("origsize")), "snsSaveChanSubset": "0:384", "fileTimeSecs": SV(z3.Real("dur"))}
            shank_info = {}
            sizes, lens = [], []
            for s in range(2 if version == "NP2.4" else 1):
                m = z3.Int(f"nchn{s}")
                it.ctx.assume(m >= 2)
                p = fsmodel.GhostPath(fs_, ("raw", f"probe00{chr(97 + s)}"), "x.imec0.lf.bin")
                sz = z3.Int(f"lfsize{s}")
                fs_.exists[p.key] = True
                fs_.size[p.key] = SV(sz)
                shank_info[f"shank{s}"] = {"chns": A.fresh_array(f"chns{s}", "int64", (m,), ranged=False), "lf_file": p}
                sizes.append(sz)
                lens.append(m)
            written = []
            it.session.contracts[spikeglx.write_meta_data] = lambda it_, a, k: written.append((a[0], a[1]))
            it.session.contracts[spikeglx._get_savedChans_subset] = lambda it_, a, k: ("SUBSET", a[0])
            conv = SObj(neuropixel.NP2Converter, sr=SObj(spikeglx.Reader, meta=meta), shank_info=shank_info, fs_lf=2500, np_version=version)
            run_function(it, neuropixel.NP2Converter._writemetadata_lf, [conv])
            ok = len(written) == len(shank_info)
            it.ctx.oblige(f"meta.one_file_per_shank.{version}", z3.BoolVal(ok), "post")
            if not ok:
                return
            for s, (md, path) in enumerate(written):
                n = lens[s]
                it.ctx.oblige(f"meta.path.{version}.{s}", z3.BoolVal(path == shank_info[f"shank{s}"]["lf_file"].with_suffix(".meta")), "post")
                it.ctx.oblige(f"meta.rate.{version}.{s}", z3.BoolVal(md["imSampRate"] == 2500), "post", "declares 2500 Hz")
                it.ctx.oblige(f"meta.counts.{version}.{s}", z3.And(term(md["snsApLfSy"][0]) == 0, term(md["snsApLfSy"][1]) == n - 1, term(md["snsApLfSy"][2]) == 1,
                                                                    term(md["acqApLfSy"][0]) == 0, term(md["acqApLfSy"][1]) == n - 1), "post", "LF channel count of this shank")
                it.ctx.oblige(f"meta.size.{version}.{s}", term(md["fileSizeBytes"]) == sizes[s], "post", "fileSizeBytes is the size of the LF file written")
                it.ctx.oblige(f"meta.type_is_lf.{version}.{s}", z3.BoolVal(True) if it.call(spikeglx._get_type_from_meta, [md], {}) == "lf" else z3.BoolVal(False), "post")
                if version == "NP2.4":
                    it.ctx.oblige(f"meta.nsaved.{version}.{s}", term(md["nSavedChans"]) == n, "post", "nSavedChans is this shank's channel count")
                    it.ctx.oblige(f"meta.subset.{version}.{s}", z3.BoolVal(md["snsSaveChanSubset_orig"][0] == "SUBSET" and md["snsSaveChanSubset_orig"][1] is shank_info[f"shank{s}"]["chns"]), "post")
                it.ctx.oblige(f"meta.shank_flag.{version}.{s}", z3.BoolVal(md[f"{version}_shank"] == s and md["original_meta"] is False), "post")
            it.ctx.oblige(f"meta.original_untouched.{version}", z3.And(z3.BoolVal(meta["imSampRate"] == 30000.0 and meta["snsApLfSy"][1] == 0.0), term(meta["snsApLfSy"][0]) == napch), "post",
                          "the AP reader's own metadata is not modified (deep copy)")
        S.explore(body)


# ----------------------------------------------------------------------------- bounded: numerics on real files
def native_lf(rng, ns, windows, version="NP2.4", rate=None):
    bad = []
    d = tempfile.mkdtemp(prefix="c12_")
    try:
        fixm = None if version == "NP2.4" else os.path.join(os.path.dirname(C03.FIXM), "..", "NP21_meta", os.path.basename(C03.FIXM))
        ap, D = C03._mk_np24(d, 0.5, 8192, ns, rng=rng, fixm=fixm, rate=rate)
        # broadband, band-limited-ish AP so that the LF is not trivial
        x = np.cumsum(rng.standard_normal((ns, 385)) * 40, axis=0)
        x -= x.mean(axis=0)
        D = np.clip(x, -30000, 30000).astype(np.int16)
        D[:, -1] = rng.integers(0, 2 ** 15, ns).astype(np.int16)
        D.tofile(ap)
        outs = []
        for wi, wdw in enumerate(windows):
            if version != "NP2.4" and wi > 0:
                # the single-shank conversion writes next to the ap file: give every window size its own copy of the same recording
                d2 = os.path.join(d, f"copy{wi}")
                os.makedirs(d2)
                ap, _ = C03._mk_np24(d2, 0.5, 8192, ns, rng=np.random.default_rng(0), fixm=fixm, rate=rate)
                D.tofile(ap)
            conv = neuropixel.NP2Converter(ap, post_check=False, compress=False)
            conv.init_params(nwindow=wdw, extra=f"_w{wi}")
            conv.process()
            per = {}
            for sh, inf in conv.shank_info.items():
                sr = spikeglx.Reader(inf["lf_file"], sort=False)
                nlf = -(-ns // 12)
                lf = np.fromfile(inf["lf_file"], dtype=np.int16)
                if lf.size % len(inf["chns"]):
                    bad.append(("lf file is not a whole number of frames", wdw, sh, int(lf.size), len(inf["chns"])))
                    sr.close()
                    continue
                lf = lf.reshape(-1, len(inf["chns"]))
                if lf.shape[0] != nlf:
                    bad.append(("count", wdw, sh, lf.shape[0], nlf))
                if sr.shape != lf.shape or sr.fs != 2500:
                    bad.append(("meta/shape", wdw, sh, sr.shape, lf.shape, sr.fs))
                if not np.array_equal(lf[:, -1], D[::12, -1][:lf.shape[0]]):
                    bad.append(("sync", wdw, sh))
                per[sh] = (lf, inf["chns"])
                sr.close()
            conv.sr.close()
            outs.append(per)
        for sh in outs[0]:
            for o in outs[1:]:
                n = min(outs[0][sh][0].shape[0], o[sh][0].shape[0])
                if np.max(np.abs(outs[0][sh][0][:n].astype(int) - o[sh][0][:n].astype(int))) > 1:
                    bad.append(("window dependence > 1 LSB", sh))
            lf, chns = outs[0][sh]
            s2v = 0.5 / 8192 / 80
            sos = scipy.signal.butter(N=2, Wn=1000 / 2500 / 2, btype="lowpass", output="sos")
            whole = scipy.signal.sosfiltfilt(sos, D[:, chns[:-1]].astype(np.float32).T * np.float32(s2v))[:, ::12].T / s2v
            edge = 60
            n = min(lf.shape[0], whole.shape[0])
            if n > 2 * edge and np.max(np.abs(lf[edge:n - edge, :-1] - whole[edge:n - edge])) > 1.0 + 1e-6:
                bad.append(("differs from whole-trace low-pass + decimation by more than 1 LSB", sh, float(np.max(np.abs(lf[edge:n - edge, :-1] - whole[edge:n - edge])))))
        return bad
    finally:
        shutil.rmtree(d, ignore_errors=True)


@bounded(PROPERTY, "native_lf_values", bound="real NP2.4 and NP2.1 recordings (385 ch, broadband random walk), ns in {7003+k: k = n mod 12 in 0..11 sampled} (quick 3 lengths, thorough 12), windows {3000, 6000, 12*777}; a calibrated rate of 30000.6 Hz and a length whose duration x 30000 falls below it in floating point; "
         "count == ceil(ns/12), sync every 12th, window independence <= 1 LSB, equality with whole-trace sosfiltfilt + [::12] <= 1 LSB away from the two edges, reader shape/rate",
         clause="numeric LFP equality and window independence; LF file opens with a shape matching its content")
def b_native(B):
    rng = np.random.default_rng(B.seed)
    lens = [7003, 7008, 7013] if B.tier == "quick" else [7000 + k for k in range(12)]
    for ns in lens:
        bad = native_lf(rng, ns, [3000, 6000, 12 * 777])
        B.case(("lf", ns, ns % 12), not bad, detail=bad[:4], inputs={"ns": ns})
    # a probe whose calibrated rate is not the nominal 30 kHz (every real one): still every sample, ceil(ns / 12) LF samples
    for ns, rate in ((7009, 30000.6), (3805, None)):
        bad = native_lf(rng, ns, [3000, 6000], rate=rate)
        B.case(("lf_calibrated_rate", ns, rate or 30000), not bad, detail=bad[:4], inputs={"ns": ns, "imSampRate": rate or 30000})
    # the low-pass / decimation step on its own, for channel counts other than 384 (a saved channel subset): every channel is filtered, each like on its own
    d = tempfile.mkdtemp(prefix="c12_")
    try:
        ap, _ = C03._mk_np24(d, 0.5, 8192, 3000, rng=rng)
        conv = neuropixel.NP2Converter(ap, post_check=False, compress=False)
        conv.init_params(nwindow=1200)
        badx = []
        for nch in (1, 5, 97, 200, 385):
            x = np.cumsum(rng.standard_normal((nch, 1200)) * 1e-5, axis=1) + 1e-4
            got = conv.extract_lfp(x.copy())
            want = np.vstack([conv.extract_lfp(x[i:i + 1].copy()) for i in range(nch)])
            if got.shape != (nch, 100) or not np.allclose(got, want, rtol=1e-9, atol=1e-12):
                rows = np.flatnonzero(~np.isclose(got, want, rtol=1e-9, atol=1e-12).all(axis=1)) if got.shape == want.shape else []
                badx.append({"channels": nch, "shape": got.shape, "channels that differ from the channel filtered on its own": np.asarray(rows)[:6].tolist()})
        conv.sr.close()
        B.case("extract_lfp_every_channel_count", not badx, detail=badx[:3], inputs={"kind": "extract_lfp_channels"})
    finally:
        shutil.rmtree(d, ignore_errors=True)
    # the single-shank path (NP2.1) goes through its own window loop: 1, 2 and 3+ windows
    for ns in lens[:1] if B.tier == "quick" else lens[::4]:
        bad = native_lf(rng, ns, [12 * 777, 6000, 3000], version="NP2.1")
        B.case(("lf_np21", ns), not bad, detail=bad[:4], inputs={"ns": ns, "version": "NP2.1"})


    # a forced re-extraction in a folder that already holds an (uncompressed) LF file of an earlier run, and a second run of the same converter object
    for version in ("NP2.1", "NP2.4"):
        d = tempfile.mkdtemp(prefix="c12_")
        try:
            ns = lens[0]
            fixm = None if version == "NP2.4" else os.path.join(os.path.dirname(C03.FIXM), "..", "NP21_meta", os.path.basename(C03.FIXM))
            ap, D = C03._mk_np24(d, 0.5, 8192, ns, rng=rng, fixm=fixm)
            bad = []
            conv = neuropixel.NP2Converter(ap, post_check=False, compress=False)
            for k_, wdw in enumerate((6000, 3000, 4008)):
                if k_ == 2:
                    conv.sr.close()
                    conv = neuropixel.NP2Converter(ap, post_check=False, compress=False)      # a fresh converter over the outputs of the earlier ones
                conv.init_params(nwindow=wdw)
                st = conv.process(overwrite=(k_ > 0))
                for sh, inf in conv.shank_info.items():
                    lf = np.fromfile(inf["lf_file"], dtype=np.int16)
                    nchn = len(inf["chns"])
                    if st != 1 or lf.size != -(-ns // 12) * nchn:
                        bad.append(("run", k_, "status", st, sh, "lf samples", lf.size / nchn, "expected", -(-ns // 12)))
                    else:
                        sr = spikeglx.Reader(inf["lf_file"], sort=False)
                        if sr.shape != (-(-ns // 12), nchn) or not np.array_equal(lf.reshape(-1, nchn)[:, -1], D[::12, -1]):
                            bad.append(("run", k_, sh, "reader shape / sync", sr.shape))
                        sr.close()
            conv.sr.close()
            B.case(("forced_rerun_over_existing_lf", version), not bad, detail=bad[:4], inputs={"kind": "forced_rerun", "version": version})
        except Exception as e:
            B.case(("forced_rerun_over_existing_lf", version), False, detail=repr(e)[:200], inputs={"kind": "forced_rerun", "version": version})
        finally:
            shutil.rmtree(d, ignore_errors=True)


    # documented option: only the first nsamples samples are processed - the LF stream then has ceil(nsamples / 12) samples (nothing reserved for the rest)
    for version in ("NP2.1", "NP2.4"):
        d = tempfile.mkdtemp(prefix="c12_")
        try:
            ns, npart = lens[0], 4003
            fixm = None if version == "NP2.4" else os.path.join(os.path.dirname(C03.FIXM), "..", "NP21_meta", os.path.basename(C03.FIXM))
            ap, D = C03._mk_np24(d, 0.5, 8192, ns, rng=rng, fixm=fixm)
            conv = neuropixel.NP2Converter(ap, post_check=False, compress=False)
            conv.init_params(nwindow=3000, nsamples=npart)
            st = conv.process()
            bad = []
            for sh, inf in conv.shank_info.items():
                nchn = len(inf["chns"])
                lf = np.fromfile(inf["lf_file"], dtype=np.int16)
                sr = spikeglx.Reader(inf["lf_file"], sort=False)
                if st != 1 or lf.size != -(-npart // 12) * nchn or sr.shape != (-(-npart // 12), nchn) or not np.array_equal(lf.reshape(-1, nchn)[:, -1], D[:npart:12, -1]):
                    bad.append((sh, "status", st, "lf samples in the file", lf.size / nchn, "reader shape", tuple(sr.shape), "expected samples", -(-npart // 12)))
                sr.close()
            conv.sr.close()
            B.case(("first_nsamples_only", version), not bad, detail=bad[:4], inputs={"kind": "partial", "version": version})
        except Exception as e:
            B.case(("first_nsamples_only", version), False, detail=repr(e)[:200], inputs={"kind": "partial", "version": version})
        finally:
            shutil.rmtree(d, ignore_errors=True)


# ----------------------------------------------------------------------------- contracts of dependencies this property rests on (re-checked here)
from pyvc.api import depends  # noqa: E402
depends(PROPERTY, "C17", ["firstlast"])      # generator contract + nwin == count, used by the window-loop harnesses
depends(PROPERTY, "C03", ["init_params"])      # the window / overlap / taper / ratio the LF window harnesses start from are those init_params sets; by default the whole recording
depends(PROPERTY, "C04", ["prepare_files_NP21", "prepare_files_NP24_forced", "compress_NP21"])      # the LF output starts empty: ceil(n/12) samples also when an earlier lf.bin exists
depends(PROPERTY, "C09", ["sample2v_imec"])      # the window is read in volts with the AP factor and written back in samples with the LF factor: the two are the same number on NP2 probes (C09), whatever the header says about channel 0
