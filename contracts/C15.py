"""C15 - bad-channel repair touches only bad channels; detection finds injected faults.

Functions under contract: ibldsp.voltage.interpolate_bad_channels (one symbolic iteration of the real loop body: frame, sources, zero fall-back),
the label-precedence tail of detect_bad_channels.  Convexity of the weights, detection of injected faults and the per-file mode: bounded stand-in.
"""
import ast

import numpy as np
import z3

import ibldsp.voltage as V
import neuropixel
from pyvc.api import harness, bounded, property_meta, run_function
from pyvc.core import SV, term, fresh_name
from pyvc import arrays as A, interp as I
from pyvc.arrays import SArr

PROPERTY = "C15"
property_meta(
    PROPERTY, level="other",
    trusted_base=["A-PY", "A-NP-INDEX", "A-REAL", "A-NP-SPEC where / sum", "distance-decay weights exp(-(d/20)^p) are opaque positive numbers (A-MATH); matmul opaque with exact shape"],
    explanation="one symbolic iteration of interpolate_bad_channels' loop for an arbitrary dead/noisy channel: only that row is written, the weights of dead/noisy channels (and only those, plus the < 0.005 cut) are zeroed so that good and "
                "outside-brain channels remain sources, the replacement is matmul(weights[sources], data[sources]) or zeros when there is no source. Convexity (known finding F-C15-1), detection of injected faults, "
                "precedence and the per-file mode: bounded stand-in.")

FN = V.interpolate_bad_channels


@harness(PROPERTY, "interpolate_iteration", functions=["ibldsp.voltage:interpolate_bad_channels"],
         clause="interpolating bad channels changes only channels labelled dead or noisy; sources are good or outside-brain channels; zeros when it has none")
def h_interp(H):
    S = H.session("interp")

    def body(it):
        nc, ns = z3.Ints("nc ns")
        it.ctx.assume(z3.And(nc >= 1, ns >= 1))
        data = A.fresh_array("data", "float64", (nc, ns))
        d0 = data.snapshot()
        labels = A.fresh_array("labels", "float64", (nc,))
        x = A.fresh_array("hx", "float64", (nc,))
        y = A.fresh_array("hy", "float64", (nc,))
        node, filename = I.SOURCES.funcdef(FN)
        it.session.note_function(FN)
        loops = [n for n in node.body if isinstance(n, ast.For)]
        assert len(loops) == 1
        loop = loops[0]
        before, after = node.body[:node.body.index(loop)], node.body[node.body.index(loop) + 1:]
        env = I.Env(None, FN.__globals__, qualname="interpolate_bad_channels", filename=filename)
        env.funcnode = node
        env.vars.update(dict(data=data, channel_labels=labels, x=x, y=y, p=1.3, kriging_distance_um=20, gpu=False))
        it.ctx.func = env.qualname
        it.exec_block(before, env)
        bad = env.vars["bad_channels"]
        w = [q for q in it.ctx.where_log if q["ndim"] == 1][-1]
        c = z3.Int("c")
        isbad = lambda cc: z3.Or(labels.read((cc,)) == 1, labels.read((cc,)) == 2)      # noqa
        it.ctx.oblige("interp.bad_set", A.forall([c], lambda: z3.Implies(z3.And(c >= 0, c < nc), w["mask"]((c,)) == isbad(c))), "post", "the channels repaired are those labelled dead (1) or noisy (2)")
        k = z3.Int("k")
        it.ctx.assume(z3.And(k >= 0, k < w["count"]))
        i = bad.read((k,))
        it.assign(loop.target, SV(i), env)
        # the loop body, statement by statement, with a look at the weights after the two cuts
        stmts = list(loop.body)
        snaps = {}
        try:
            for st in stmts:
                it.exec_stmt(st, env)
                if isinstance(st, ast.Assign) and isinstance(st.targets[0], ast.Name) and st.targets[0].id == "weights" and "w_raw" not in snaps:
                    snaps["w_raw"] = env.vars["weights"].snapshot()
                if isinstance(st, ast.Assign) and isinstance(st.targets[0], ast.Subscript) and ast.unparse(st.targets[0].value) == "weights":
                    snaps["w_cut"] = env.vars["weights"].snapshot()
            zero_path = False
        except I.ContinueEx:
            zero_path = True
        r, t = z3.Ints("r t")
        it.ctx.oblige("interp.frame", A.forall([r, t], lambda: z3.Implies(z3.And(r >= 0, r < nc, t >= 0, t < ns, r != i), data.read((r, t)) == d0((r, t)))), "post",
                      "all channels other than the one being repaired are bit-identical", assume=False)
        it.ctx.oblige("interp.repairs_a_bad_channel", z3.And(i >= 0, i < nc, isbad(i)), "post")
        if "w_raw" in snaps and "w_cut" in snaps:
            it.ctx.oblige("interp.weights_cut", A.forall([c], lambda: z3.Implies(z3.And(c >= 0, c < nc), snaps["w_cut"]((c,)) == z3.If(z3.Or(isbad(c), snaps["w_raw"]((c,)) < term(0.005)), z3.RealVal(0), snaps["w_raw"]((c,))))), "post",
                          "weights are zeroed on dead/noisy channels and below 0.005 - and nowhere else: good and outside-brain channels keep their distance-decay weight")
        imult_w = [q for q in it.ctx.where_log if q["ndim"] == 1][-1]
        if zero_path:
            it.ctx.oblige("interp.zero_if_no_source", z3.And(imult_w["count"] == 0, A.forall([t], lambda: z3.Implies(z3.And(t >= 0, t < ns), data.read((i, t)) == 0))), "post", "replaced by zeros when it has no source")
        else:
            mm = getattr(it.ctx, "matmul_log", [])
            ok = len(mm) == 1
            it.ctx.oblige("interp.one_product", z3.BoolVal(ok), "post")
            if ok:
                m = imult_w["count"]
                src = imult_w["rows"]
                wfinal = env.vars["weights"]
                it.ctx.oblige("interp.sources_not_bad", A.forall([c], lambda: z3.Implies(z3.And(c >= 0, c < m), z3.And(z3.Not(isbad(src(c))), src(c) != i, wfinal.read((src(c),)) > 0))), "post",
                              "every source is a good or outside-brain channel with a positive weight", assume=False)
                it.ctx.oblige("interp.product_operands", z3.And(A.T(mm[0]["a_shape"][0]) == m, A.T(mm[0]["b_shape"][0]) == m, A.T(mm[0]["b_shape"][1]) == ns,
                              A.forall([c, t], lambda: z3.Implies(z3.And(c >= 0, c < m, t >= 0, t < ns), z3.And(mm[0]["a"]((c,)) == wfinal.read((src(c),)), mm[0]["b"]((c, t)) == d0((src(c), t)))))), "post",
                              "the replacement is the weighted combination of the source channels' data", assume=False)
                it.ctx.oblige("interp.row_replaced", A.forall([t], lambda: z3.Implies(z3.And(t >= 0, t < ns), data.read((i, t)) == mm[0]["out"]((t,)))), "post", assume=False)
    S.explore(body)


# ----------------------------------------------------------------------------- bounded
def native_interp(rng, version, ncases):
    h = neuropixel.trace_header(version=version)
    bad = []
    short = []
    for case in range(ncases):
        labels = np.zeros(384)
        nb = int(rng.integers(1, 25))
        labels[rng.choice(384, nb, replace=False)] = rng.choice([1, 2], nb)
        top = int(rng.integers(0, 41))
        if top:
            labels[-top:] = np.where(labels[-top:] > 0, labels[-top:], 3)
        if rng.random() < 0.3:
            s = int(rng.integers(0, 370))
            labels[s:s + 6] = 1
        data = rng.uniform(4.0, 6.0, (384, 30))
        out = V.interpolate_bad_channels(data.copy(), labels, h["x"], h["y"])
        keep = ~np.isin(labels, (1, 2))
        if not np.array_equal(out[keep], data[keep]):
            bad.append(("frame", case))
        for c in np.flatnonzero(~keep):
            d = np.abs(h["x"] - h["x"][c] + 1j * (h["y"] - h["y"][c]))
            w = np.exp(-((d / 20) ** 1.3))
            w[~keep] = 0
            w[w < 0.005] = 0
            if w.sum() == 0:
                if not np.all(out[c] == 0):
                    bad.append(("zero fall-back", case, int(c)))
                continue
            srcs = np.flatnonzero(w / w.sum() > 0.005)
            lo, hi = data[srcs].min(axis=0), data[srcs].max(axis=0)
            if not (np.all(out[c] >= lo - 1e-9) and np.all(out[c] <= hi + 1e-9)):
                short.append((case, int(c), float((out[c] / data[srcs].mean(axis=0)).mean())))
    return bad, short


def _synth(rng, nc=384, ns=9000, fs=30000.0):
    t = np.arange(ns) / fs
    common = np.zeros(ns)
    for f in rng.uniform(5, 300, 12):
        common += np.sin(2 * np.pi * f * t + rng.uniform(0, 6.28)) * 20e-6
    hf = rng.standard_normal(ns) * 4e-6
    raw = common[None, :] * (1 + 0.05 * rng.standard_normal((nc, 1))) + hf[None, :] * 0.5 + rng.standard_normal((nc, ns)) * 5e-6
    return raw


def native_detect(rng, ncases):
    bad = []
    for case in range(ncases):
        raw = _synth(rng)
        kind = ["dead", "noisy", "top"][case % 3]
        want = np.zeros(384)
        if kind == "dead":
            c = int(rng.integers(6, 378))
            raw[c] = rng.standard_normal(raw.shape[1]) * 1e-7
            want[c] = 1
        elif kind == "noisy":
            c = int(rng.integers(6, 378))
            raw[c] += rng.standard_normal(raw.shape[1]) * 300e-6
            want[c] = 2
        else:
            k = int(rng.integers(8, 41))
            raw[-k:] = rng.standard_normal((k, raw.shape[1])) * 5e-6
            want[-k:] = 3
        labels, _ = V.detect_bad_channels(raw, 30000.0)
        if kind == "top":
            ok = np.all(labels[-k + 2:] == 3) and np.all(labels[:-k - 2] == 0)
        else:
            ok = np.array_equal(labels, want)
        if not ok:
            bad.append((kind, case, np.flatnonzero(labels != want)[:6].tolist()))
    return bad


@bounded(PROPERTY, "native_repair_and_detection", bound="interpolate_bad_channels on NP1 / NP2 / NPultra headers, 20 random label vectors each (thorough 200) incl. clusters, probe ends and top blocks 0..40: frame, zero fall-back, range of the sources; "
         "detect_bad_channels on a coherent AP-band background with one silent / one noisy channel at random positions / a silent top block of 8..40 (12 cases, thorough 90); per-file mode with a stubbed detector",
         clause="convex combination stays within the sources' range; injected faults are labelled; labels from a file are the per-channel mode")
def b_native(B):
    rng = np.random.default_rng(B.seed)
    for version in (1, 2, "NPultra"):
        bad, short = native_interp(rng, version, 20 if B.tier == "quick" else 200)
        B.case(("interp", str(version)), not bad, detail=bad[:5])
        if short:
            B.case(("interp_convex", str(version)), False, detail={"replacement_over_mean_of_sources": short[:3]}, inputs={"kind": "weights_sum_below_one", "version": str(version)})
    bad = native_detect(rng, 12 if B.tier == "quick" else 90)
    B.case("detection", not bad, detail=bad[:5])
    # per-file labels are the per-channel mode over the batches
    import unittest.mock as um
    seq = iter([np.array([0, 1, 2, 3]), np.array([0, 1, 0, 3]), np.array([1, 1, 2, 0]), np.array([0, 0, 2, 3]), np.array([0, 1, 2, 3])] * 2)

    class SR:
        nc, nsync, fs, rl = 5, 1, 30000.0, 10.0

        def __getitem__(self, idx):
            return np.zeros((9000, 4))
    with um.patch.object(V, "detect_bad_channels", lambda raw, fs: (next(seq).astype(float), {"a": np.zeros(4)})):
        with um.patch.object(V.spikeglx, "Reader", SR):
            flags = V.detect_bad_channels_cbin(SR(), n_batches=10)
    B.case("cbin_mode", np.array_equal(np.ravel(flags), [0, 1, 2, 3]), detail=f"mode over batches gave {np.ravel(flags).tolist()}")
