"""C15 - bad-channel repair touches only bad channels; detection finds injected faults.

Functions under contract: ibldsp.voltage.interpolate_bad_channels (one symbolic iteration of the real loop body: frame, sources, zero fall-back),
the label-precedence tail of detect_bad_channels.  Convexity of the weights, detection of injected faults and the per-file mode: bounded stand-in.
"""
import ast

import numpy as np
import z3

import ibldsp.voltage as V
import neuropixel
from pyvc.api import harness, bounded, property_meta, run_function
from pyvc.core import SV, term, fresh_name
from pyvc import arrays as A, interp as I
from pyvc.arrays import SArr

PROPERTY = "C15"
property_meta(
    PROPERTY, level="other",
    trusted_base=["A-PY", "A-NP-INDEX", "A-REAL", "A-NP-SPEC where / sum", "distance-decay weights exp(-(d/20)^p) are opaque positive numbers (A-MATH); matmul opaque with exact shape"],
    explanation="one symbolic iteration of interpolate_bad_channels' loop for an arbitrary dead/noisy channel: only that row is written, the weights of dead/noisy channels (and only those, plus the < 0.005 cut) are zeroed so that good and "
                "outside-brain channels remain sources, the replacement is matmul(weights[sources], data[sources]) or zeros when there is no source. Convexity (known finding F-C15-1), detection of injected faults, "
                "precedence and the per-file mode: bounded stand-in.")

FN = V.interpolate_bad_channels


@harness(PROPERTY, "interpolate_iteration", functions=["ibldsp.voltage:interpolate_bad_channels"],
         replay=lambda vals, oid: (lambda b: {"failed": bool(b[0]), "cases": [repr(x)[:160] for x in b[0][:3]]})(native_interp(np.random.default_rng(4), 1, 10)),
         clause="interpolating bad channels changes only channels labelled dead or noisy; sources are good or outside-brain channels; zeros when it has none")
def h_interp(H):
    S = H.session("interp")

    def body(it):
        nc, ns = z3.Ints("nc ns")
        it.ctx.assume(z3.And(nc >= 1, ns >= 1))
        data = A.fresh_array("data", "float64", (nc, ns))
        d0 = data.snapshot()
        labels = A.fresh_array("labels", "float64", (nc,))
        x = A.fresh_array("hx", "float64", (nc,))
        y = A.fresh_array("hy", "float64", (nc,))
        node, filename = I.SOURCES.funcdef(FN)
        it.session.note_function(FN)
        loops = [n for n in node.body if isinstance(n, ast.For)]
        assert len(loops) == 1
        loop = loops[0]
        before, after = node.body[:node.body.index(loop)], node.body[node.body.index(loop) + 1:]
        env = I.Env(None, FN.__globals__, qualname="interpolate_bad_channels", filename=filename)
        env.funcnode = node
        env.vars.update(dict(data=data, channel_labels=labels, x=x, y=y, p=1.3, kriging_distance_um=20, gpu=False))
        it.ctx.func = env.qualname
        it.exec_block(before, env)
        bad = env.vars["bad_channels"]
        w = [q for q in it.ctx.where_log if q["ndim"] == 1][-1]
        c = z3.Int("c")
        isbad = lambda cc: z3.Or(labels.read((cc,)) == 1, labels.read((cc,)) == 2)      # noqa
        it.ctx.oblige("interp.bad_set", A.forall([c], lambda: z3.Implies(z3.And(c >= 0, c < nc), w["mask"]((c,)) == isbad(c))), "post", "the channels repaired are those labelled dead (1) or noisy (2)")
        k = z3.Int("k")
        it.ctx.assume(z3.And(k >= 0, k < w["count"]))
        i = bad.read((k,))
        it.assign(loop.target, SV(i), env)
        # the loop body; the weight vector is identified by what it is used for (the first sum that normalises it), not by the shape of the statements
        n_red0 = len(getattr(it.ctx, "reduce_log", []))
        try:
            it.exec_block(list(loop.body), env)
            zero_path = False
        except I.ContinueEx:
            zero_path = True
        snaps = {}
        if zero_path:
            t0 = z3.Int("t")
            # whatever the route to the next channel: a channel left without replacement is a channel set to zero (never one left with its bad data)
            it.ctx.oblige("interp.skipped_channel_is_zeroed", A.forall([t0], lambda: z3.Implies(z3.And(t0 >= 0, t0 < ns), data.read((i, t0)) == 0)), "post",
                          "replaced by zeros when it has no source: the iteration is only abandoned after the channel was zeroed", assume=False)
        sums0 = [e for e in getattr(it.ctx, "reduce_log", [])[n_red0:] if e["name"] == "sum" and len(e["in_shape"]) == 1]
        if sums0 and it.ctx.entails(A.T(sums0[0]["in_shape"][0]) == nc):
            snaps["w_cut"] = sums0[0]["input"]
        else:
            raise I.Unsupported("cannot identify the normalised weight vector (no sum over all channels in the loop body)")
        r, t = z3.Ints("r t")
        it.ctx.oblige("interp.frame", A.forall([r, t], lambda: z3.Implies(z3.And(r >= 0, r < nc, t >= 0, t < ns, r != i), data.read((r, t)) == d0((r, t)))), "post",
                      "all channels other than the one being repaired are bit-identical", assume=False)
        it.ctx.oblige("interp.repairs_a_bad_channel", z3.And(i >= 0, i < nc, isbad(i)), "post")
        exps = [e for e in getattr(it.ctx, "opaque_log", []) if e["name"] == "exp"]
        if len(exps) != 1:
            raise I.Unsupported(f"cannot identify the distance-decay weights (found {len(exps)} exp calls in the loop body)")
        it.ctx.oblige("interp.one_decay", z3.BoolVal(len(exps) == 1 and "w_cut" in snaps), "post", "one distance-decay exp(...) per repaired channel, over all channels")
        if len(exps) == 1 and "w_cut" in snaps:
            E = exps[0]["out"]
            it.ctx.oblige("interp.decay_over_all_channels", A.T(exps[0]["shape"][0]) == nc, "post")
            it.ctx.oblige("interp.weights_cut", A.forall([c], lambda: z3.Implies(z3.And(c >= 0, c < nc), snaps["w_cut"]((c,)) == z3.If(z3.Or(isbad(c), E((c,)) < term(0.005)), z3.RealVal(0), E((c,))))), "post",
                          "weights are zeroed on dead/noisy channels and below 0.005 - and nowhere else: good and outside-brain channels keep their distance-decay weight")
        imult_w = [q for q in it.ctx.where_log if q["ndim"] == 1][-1]
        if zero_path:
            it.ctx.oblige("interp.zero_if_no_source", z3.And(imult_w["count"] == 0, A.forall([t], lambda: z3.Implies(z3.And(t >= 0, t < ns), data.read((i, t)) == 0))), "post", "replaced by zeros when it has no source")
        else:
            mm = getattr(it.ctx, "matmul_log", [])
            ok = len(mm) == 1
            if not ok:
                raise I.Unsupported(f"cannot identify the weighted combination (found {len(mm)} matrix products)")
            it.ctx.oblige("interp.one_product", z3.BoolVal(ok), "post")
            if ok:
                m = imult_w["count"]
                src = imult_w["rows"]
                wfinal = env.vars["weights"]
                it.ctx.oblige("interp.sources_not_bad", A.forall([c], lambda: z3.Implies(z3.And(c >= 0, c < m), z3.And(z3.Not(isbad(src(c))), src(c) != i, wfinal.read((src(c),)) > 0))), "post",
                              "every source is a good or outside-brain channel with a positive weight", assume=False)
                it.ctx.oblige("interp.product_operands", z3.And(A.T(mm[0]["a_shape"][0]) == m, A.T(mm[0]["b_shape"][0]) == m, A.T(mm[0]["b_shape"][1]) == ns,
                              A.forall([c, t], lambda: z3.Implies(z3.And(c >= 0, c < m, t >= 0, t < ns), mm[0]["b"]((c, t)) == d0((src(c), t))))), "post",
                              "the replacement is a combination of the source channels' data", assume=False)
                # convexity: the coefficients are v(c) / sum(v) with v(c) = weight of source c > 0   (sum of v / sum(v) = 1: arithmetic, A-NP-SPEC sum)
                sums = [e for e in getattr(it.ctx, "reduce_log", []) if e["name"] == "sum"]
                okc = len(sums) >= 2 and len(sums[-1]["in_shape"]) == 1
                it.ctx.oblige("interp.convex.normalised_after_cut", z3.BoolVal(okc), "post", "the coefficients are normalised by a sum taken after the > 0.005 cut")
                if okc:
                    Sx = sums[-1]
                    Sv = Sx["out"]()
                    it.ctx.oblige("interp.convex.sum_over_sources", z3.And(A.T(Sx["in_shape"][0]) == m, A.forall([c], lambda: z3.Implies(z3.And(c >= 0, c < m), Sx["input"]((c,)) == wfinal.read((src(c),))))), "post",
                                  "the normalising sum runs over exactly the sources' weights")
                    it.ctx.oblige("interp.convex.sources_positive", A.forall([c], lambda: z3.Implies(z3.And(c >= 0, c < m), wfinal.read((src(c),)) > 0)), "post")
                    it.ctx.oblige("interp.convex.summands_non_negative", A.forall([c], lambda: z3.Implies(z3.And(c >= 0, c < m), Sx["input"]((c,)) >= 0)), "lemma",
                                  "antecedent of the sum axiom used below")
                    # A-NP-SPEC (sum), stated for this one sum: a sum of non-negative terms (just proved) is at least its first term
                    it.ctx.assume(z3.Implies(m >= 1, Sv >= Sx["input"]((z3.IntVal(0),))))
                    it.ctx.oblige("interp.convex.first_summand_positive", z3.Implies(m >= 1, Sx["input"]((z3.IntVal(0),)) > 0), "lemma")
                    it.ctx.oblige("interp.convex.sum_positive", Sv > 0, "post", "the normalising sum is positive (at least one source, all source weights positive)")
                    it.ctx.oblige("interp.convex.coefficients", A.forall([c], lambda: z3.Implies(z3.And(c >= 0, c < m), z3.And(mm[0]["a"]((c,)) > 0, mm[0]["a"]((c,)) * Sv == wfinal.read((src(c),))))), "post",
                                  "each coefficient is positive and equals weight / sum of the sources' weights: the coefficients sum to one", assume=False)
    S.explore(body)


# ----------------------------------------------------------------------------- bounded
def native_interp(rng, version, ncases):
    h0 = neuropixel.trace_header(version=version)
    bad = []
    short = []
    for case in range(ncases):
        h = h0
        labels = np.zeros(384)
        nb = int(rng.integers(1, 25))
        labels[rng.choice(384, nb, replace=False)] = rng.choice([1, 2], nb)
        top = int(rng.integers(0, 41))
        if top:
            labels[-top:] = np.where(labels[-top:] > 0, labels[-top:], 3)
        if rng.random() < 0.3:
            s = int(rng.integers(0, 370))
            labels[s:s + 6] = 1
        hx, hy = h["x"], h["y"]
        if case % 5 == 1:
            # a block of bad channels wide enough for its middle to have no usable neighbour at all
            s = int(rng.integers(0, 384 - 30))
            labels[s:s + 28] = rng.choice([1, 2], 28)
        if case % 5 == 3:
            # a sparse layout (sites 100 um apart): no channel has a neighbour within reach
            hx, hy = np.zeros(384), np.arange(384) * 100.0
        data = rng.uniform(4.0, 6.0, (384, 30))
        if case % 5 == 2 and np.any(np.isin(labels, (1, 2))):
            # the bad channels themselves hold garbage (NaN / inf, as a dead or unplugged channel can): they are not sources, the repair does not see them
            bi = np.flatnonzero(np.isin(labels, (1, 2)))
            data[bi[0], ::3] = np.nan
            data[bi[-1], 1::4] = np.inf
        # whole-micrometre coordinates in the number types a caller may hold them in (trace_header itself returns integer x)
        cdt = [None, np.int16, np.float32, np.int32, np.int64][case % 5] if np.all(np.asarray(hx) == np.round(hx)) and np.all(np.asarray(hy) == np.round(hy)) and np.max(hy) < 32000 else None
        out = V.interpolate_bad_channels(data.copy(), labels, hx, hy)
        if cdt is not None:
            out_t = V.interpolate_bad_channels(data.copy(), labels, np.asarray(hx).astype(cdt), np.asarray(hy).astype(cdt))
            with np.errstate(invalid="ignore"):
                if out_t.shape != out.shape or not np.allclose(out_t, out, rtol=(1e-9 if cdt is not np.float32 else 1e-5), atol=1e-12, equal_nan=True):
                    bad.append(("coordinates held as " + np.dtype(cdt).name + " give another repair than the same coordinates as floats", case))
        h = dict(h, x=np.asarray(hx, dtype=float), y=np.asarray(hy, dtype=float))
        keep = ~np.isin(labels, (1, 2))
        if not np.array_equal(out[keep], data[keep], equal_nan=True):
            bad.append(("frame", case))
        for c in np.flatnonzero(~keep):
            d = np.abs(h["x"] - h["x"][c] + 1j * (h["y"] - h["y"][c]))
            w = np.exp(-((d / 20) ** 1.3))
            w[~keep] = 0
            w[w < 0.005] = 0
            if w.sum() == 0:
                if not np.all(out[c] == 0):
                    bad.append(("zero fall-back", case, int(c)))
                continue
            srcs = np.flatnonzero(w / w.sum() > 0.005)
            want = (w[srcs] / w[srcs].sum()) @ data[srcs]
            if not np.allclose(out[c], want, rtol=1e-9, atol=1e-12):
                ratio = out[c] / want
                if np.ptp(ratio) < 1e-9 and 0.5 < ratio.mean() < 1:
                    short.append((case, int(c), float(ratio.mean())))
                else:
                    bad.append(("not the convex combination of its good / outside-brain neighbours", case, int(c), float(np.abs(out[c] - want).max())))
    return bad, short


def _synth(rng, nc=384, ns=9000, fs=30000.0):
    t = np.arange(ns) / fs
    common = np.zeros(ns)
    for f in rng.uniform(5, 300, 12):
        common += np.sin(2 * np.pi * f * t + rng.uniform(0, 6.28)) * 20e-6
    hf = rng.standard_normal(ns) * 4e-6
    raw = common[None, :] * (1 + 0.05 * rng.standard_normal((nc, 1))) + hf[None, :] * 0.5 + rng.standard_normal((nc, ns)) * 5e-6
    return raw


def native_detect(rng, nrand):
    """faults over the whole probe: both ends explicitly (1..5 channels from an end is where a trend filter is weakest), random positions, top blocks"""
    bad, first = [], []
    plan = [("dead", c) for c in (0, 1, 3, 5, 378, 380, 382, 383)] + [("noisy", c) for c in (0, 2, 381, 383)]
    plan += [("dead", int(c)) for c in rng.integers(6, 378, nrand)] + [("noisy", int(c)) for c in rng.integers(6, 378, nrand)]
    plan += [("top", int(k)) for k in rng.integers(8, 41, nrand)]
    plan += [("top_gap", int(k)) for k in rng.integers(10, 41, max(1, nrand // 2))]
    # a top block lacking the coherent spiking-band signal while a slow common-mode component (reference artefact, < 60 Hz) is seen by every channel
    plan += [("top_slow_common_mode", int(k)) for k in rng.integers(8, 41, max(2, nrand // 2))]
    for kind, c in plan:
        raw = _synth(rng)
        want = np.zeros(384)
        if kind == "dead":
            raw[c] = rng.standard_normal(raw.shape[1]) * 1e-7
            want[c] = 1
        elif kind == "noisy":
            raw[c] += rng.standard_normal(raw.shape[1]) * 300e-6
            want[c] = 2
        else:
            raw[-c:] = rng.standard_normal((c, raw.shape[1])) * 5e-6
            want[-c:] = 3
            if kind == "top_slow_common_mode":
                tt = np.arange(raw.shape[1]) / 30000.0
                slow = sum(np.sin(2 * np.pi * f * tt + rng.uniform(0, 6.28)) * float(rng.choice([100e-6, 400e-6])) for f in rng.uniform(2, 60, 4))
                raw += slow[None, :]
            if kind == "top_gap":
                # a second low-coherence block lower down: not contiguous with the top, must not become outside-brain (nor hide the top block)
                lo, wd = int(rng.integers(60, 300)), int(rng.integers(8, 20))
                raw[lo:lo + wd] = rng.standard_normal((wd, raw.shape[1])) * 5e-6
        labels, _ = V.detect_bad_channels(raw, 30000.0)
        if kind == "top_gap":
            ok = np.all(labels[-c + 2:] == 3) and not np.any(labels[:-c - 2] == 3)
        elif kind in ("top", "top_slow_common_mode"):
            ok = np.all(labels[-c + 2:] == 3) and np.all(labels[:-c - 2] == 0)
        elif kind == "dead" and c == 383:
            # a silent last channel is also a top block of one channel: dead or outside-brain are both accepted
            ok = labels[383] in (1, 3) and np.all(labels[:383] == 0)
        else:
            ok = np.array_equal(labels, want)
        if not ok:
            rec = (kind, c, [(int(i), int(labels[i])) for i in np.flatnonzero(labels != want)[:6]])
            if kind == "dead" and c == 0 and np.all(labels == 0):
                first.append(rec)
            else:
                bad.append(rec)
    return bad, first


@bounded(PROPERTY, "native_repair_and_detection", bound="interpolate_bad_channels on NP1 / NP2 / NPultra headers, 20 random label vectors each (thorough 200) incl. clusters (also 28 adjacent bad channels), a 100 um sparse layout, probe ends and top blocks 0..40: frame, zero fall-back, range of the sources; "
         "detect_bad_channels on a coherent AP-band background with one silent / one noisy channel at both probe ends (0, 1, 3, 5, 378, 380, 382, 383 / 0, 2, 381, 383) and random positions, a silent top block of 8..40, also under a slow common-mode component shared by all channels (20 cases, thorough 117); per-file mode with a stubbed detector",
         clause="convex combination stays within the sources' range; injected faults are labelled; labels from a file are the per-channel mode")
def b_native(B):
    rng = np.random.default_rng(B.seed)
    for version in (1, 2, "NPultra"):
        bad, short = native_interp(rng, version, 20 if B.tier == "quick" else 200)
        B.case(("interp", str(version)), not bad, detail=bad[:5])
        if short:
            B.case(("interp_convex", str(version)), False, detail={"replacement_over_mean_of_sources": short[:3]}, inputs={"kind": "weights_sum_below_one", "version": str(version)})
    bad, first = native_detect(rng, 2 if B.tier == "quick" else 30)
    B.case("detection", not bad, detail=bad[:5])
    if first:
        B.case("detection_dead_first_channel", False, detail=first[:2], inputs={"kind": "dead_channel_0_not_labelled"})
    # per-file labels are the per-channel mode over the batches
    import unittest.mock as um
    # per batch labels of 6 channels over 10 batches; channel 4 has no strict majority (5 x noisy, 1 x dead, 4 x clear -> mode 2, median 1.5),
    # channel 5 neither (4 x clear, 3 x dead, 3 x noisy -> mode 0, median 1)
    table = np.array([[0, 1, 2, 3, 2, 0], [0, 1, 0, 3, 2, 0], [1, 1, 2, 0, 2, 0], [0, 0, 2, 3, 2, 0], [0, 1, 2, 3, 2, 1],
                      [0, 1, 2, 3, 1, 1], [0, 1, 2, 3, 0, 1], [0, 1, 1, 3, 0, 2], [0, 1, 2, 3, 0, 2], [2, 1, 2, 3, 0, 2]], dtype=float)
    seq = iter(list(table))

    class SR:
        nc, nsync, fs, rl = 7, 1, 30000.0, 10.0

        def __getitem__(self, idx):
            return np.zeros((9000, 6))
    with um.patch.object(V, "detect_bad_channels", lambda raw, fs: (next(seq), {"a": np.zeros(6)})):
        with um.patch.object(V.spikeglx, "Reader", SR):
            flags = V.detect_bad_channels_cbin(SR(), n_batches=10)
    want_mode = [0, 1, 2, 3, 2, 0]
    B.case("cbin_mode", np.array_equal(np.ravel(flags), want_mode), detail=f"labels from the file {np.ravel(flags).tolist()} instead of the per-channel mode {want_mode}")
    # the same on recordings shorter than n_batches x batch_duration (batches overlap): every batch votes, and nothing else does
    for rl_, nb_, bd_ in ((1.2, 10, 0.3), (0.75, 6, 0.25), (2.0, 10, 0.3), (0.31, 5, 0.3)):
        seq2 = iter(list(table[:nb_]))
        asked = []

        class SR2:
            nc, nsync, fs, rl = 7, 1, 30000.0, rl_

            def __getitem__(self, idx):
                asked.append(idx[0])
                return np.zeros((int(bd_ * 30000), 6))
        with um.patch.object(V, "detect_bad_channels", lambda raw, fs: (next(seq2), {"a": np.zeros(6)})):
            with um.patch.object(V.spikeglx, "Reader", SR2):
                flags2 = V.detect_bad_channels_cbin(SR2(), n_batches=nb_, batch_duration=bd_)
        import scipy.stats
        want2 = np.ravel(scipy.stats.mode(table[:nb_].T, axis=1)[0])
        B.case(("cbin_mode_short_recording", rl_, nb_, bd_), len(asked) == nb_ and np.array_equal(np.ravel(flags2), want2),
               detail={"batches_read": len(asked), "requested": nb_, "labels": np.ravel(flags2).tolist(), "mode_over_the_batches": want2.tolist()})


# ----------------------------------------------------------------------------- detect_bad_channels: the recommendation tail
@harness(PROPERTY, "detect_recommendation", functions=["ibldsp.voltage:detect_bad_channels (statements from 'ichannels = np.zeros(nc)' to the return)"],
         clause="labels follow the feature thresholds with precedence noisy (2) over dead (1) over outside-brain (3); outside-brain only for channels of the low-coherence set that reaches the last channel")
def h_detect_tail(H):
    S = H.session("detect_tail")
    FD = V.detect_bad_channels

    def body(it):
        nc = z3.Int("nc")
        it.ctx.assume(nc >= 1)
        hf = A.fresh_array("xcor_hf", "float64", (nc,))
        lf = A.fresh_array("xcor_lf", "float64", (nc,))
        psd = A.fresh_array("psd_hf", "float64", (nc,))
        thr = z3.Real("psd_hf_threshold")
        node, filename = I.SOURCES.funcdef(FD)
        it.session.note_function(FD)
        start = [k for k, st in enumerate(node.body) if isinstance(st, ast.Assign) and ast.unparse(st.targets[0]) == "ichannels"]
        assert len(start) == 1
        tail = node.body[start[0]:]
        assert isinstance(tail[-1], ast.Return)
        env = I.Env(None, FD.__globals__, qualname="detect_bad_channels", filename=filename)
        env.funcnode = node
        env.vars.update(dict(nc=SV(nc), xfeats={"xcor_hf": hf, "xcor_lf": lf, "psd_hf": psd}, similarity_threshold=(-0.5, 1), psd_hf_threshold=SV(thr), display=False, fs=30000.0, raw=None))
        it.ctx.func = env.qualname
        try:
            it.exec_block(tail, env)
            ret = None
        except I.ReturnEx as r:
            ret = r.v
        it.ctx.oblige("detect.returns_labels_and_features", z3.BoolVal(isinstance(ret, tuple) and len(ret) == 2 and isinstance(ret[0], SArr)), "post")
        lab = ret[0]
        c = z3.Int("c")
        inr = z3.And(c >= 0, c < nc)
        noisy = lambda q: z3.Or(psd.read((q,)) > thr, hf.read((q,)) > 1)            # noqa
        dead = lambda q: hf.read((q,)) < term(-0.5)                                   # noqa
        low = lambda q: lf.read((q,)) < term(-0.75)                                   # noqa
        it.ctx.oblige("detect.shape", z3.And(z3.BoolVal(lab.ndim == 1), A.T(lab.shape[0]) == nc), "post")
        it.ctx.oblige("detect.noisy_iff", A.forall([c], lambda: z3.Implies(inr, (lab.read((c,)) == 2) == noisy(c))), "post", "noisy: high-frequency power above threshold or similarity above 1; wins over every other label", assume=False)
        it.ctx.oblige("detect.dead_iff", A.forall([c], lambda: z3.Implies(inr, (lab.read((c,)) == 1) == z3.And(dead(c), z3.Not(noisy(c))))), "post", "dead: detrended similarity below -0.5, unless noisy", assume=False)
        it.ctx.oblige("detect.outside_only_if", A.forall([c], lambda: z3.Implies(z3.And(inr, lab.read((c,)) == 3), z3.And(low(c), z3.Not(dead(c)), z3.Not(noisy(c)), low(nc - 1)))), "post",
                      "outside-brain only for channels of the low-coherence set, and only when that set reaches the last channel; loses against dead and noisy", assume=False)
        if "a" in env.vars and isinstance(env.vars["a"], SArr):
            # lemma (induction over the cumulative sum, the rule itself is the only thing not left to the solver): the gap counter `a` is non-decreasing
            # step by step (proved), hence its last element is its maximum
            av = env.vars["a"]
            na = A.T(av.shape[0])
            kq = z3.Int(fresh_name("ka"))
            it.ctx.oblige("detect.lemma.gap_counter_monotone_step", A.forall([kq], lambda: z3.Implies(z3.And(kq >= 0, kq < na - 1), av.read((kq,)) <= av.read((kq + 1,)))), "lemma",
                          "a[k] <= a[k+1]: indices returned by np.where increase strictly, so diff - 1 >= 0")
            k2 = z3.Int(fresh_name("kb"))
            it.ctx.assume(z3.ForAll([k2], z3.Implies(z3.And(k2 >= 0, k2 < na), av.read((k2,)) <= av.read((na - 1,))), patterns=[av.read((k2,))]))
        it.ctx.oblige("detect.last_channel_outside", z3.Implies(z3.And(low(nc - 1), z3.Not(dead(nc - 1)), z3.Not(noisy(nc - 1))), lab.read((nc - 1,)) == 3), "post", "a low-coherence last channel that is neither dead nor noisy is outside-brain", assume=False)
        it.ctx.oblige("detect.label_values", A.forall([c], lambda: z3.Implies(inr, z3.Or(*[lab.read((c,)) == v for v in (0, 1, 2, 3)]))), "post", assume=False)
    S.explore(body)


# ----------------------------------------------------------------------------- detect_bad_channels_cbin: labels of a file = mode over its batches
@harness(PROPERTY, "cbin_mode_over_batches", functions=["ibldsp.voltage:detect_bad_channels_cbin"],
         clause="labels computed from a file are the per-channel mode over its batches")
def h_cbin_mode(H):
    _cbin_mode(H, False)


@harness(PROPERTY, "cbin_mode_short_recording", functions=["ibldsp.voltage:detect_bad_channels_cbin"],
         clause="labels computed from a file are the per-channel mode over its batches: also for a 1.2 s snippet, shorter than the requested batches side by side")
def h_cbin_mode_short(H):
    _cbin_mode(H, True)


def _cbin_mode(H, short):
    import scipy.stats
    S = H.session("cbin_mode" + (".short_recording" if short else ""))
    FD = V.detect_bad_channels_cbin

    def body(it, short=short):
        nc, ns = z3.Ints("nc nsamples")
        fs, rl = z3.Reals("fs rl")
        nb = 10
        it.ctx.assume(z3.And(nc >= 1, fs > 0, rl > 1, ns >= 1))
        if short:
            rl = z3.RealVal("6/5")          # a 1.2 s snippet: shorter than 10 batches of 0.3 s side by side (the batches overlap)
        calls, modes = [], []

        class FakeReader:
            _pyvc_ok = True
            nsync = 1
            def __getitem__(self_, idx):   # noqa
                sl, cs = idx
                calls.append({"slice": sl, "csel": cs})
                n = term(sl.stop) - term(sl.start)
                return A.fresh_array("raw_batch", "float32", (A.dim(n), nc))
        sr = FakeReader()
        sr.nc, sr.fs, sr.rl = SV(nc + 1), SV(fs), SV(rl)

        def detect(it_, args, kw):
            raw = A.as_sarr(args[0])
            lab = A.fresh_array("batch_labels", "float64", (nc,))
            calls[-1].update({"detect_in_shape": raw.shape, "labels": lab, "fs": kw.get("fs", args[1] if len(args) > 1 else None)})
            return (lab, {"feat": A.fresh_array("feat", "float64", (nc,))})

        def mode(it_, args, kw):
            xx = A.as_sarr(args[0])
            modes.append({"in": xx.snapshot(), "shape": xx.shape, "axis": kw.get("axis", args[1] if len(args) > 1 else 0)})
            return (A.fresh_array("mode", "float64", (xx.shape[0],)), A.fresh_array("count", "float64", (xx.shape[0],)))
        it.session.contracts[V.detect_bad_channels] = detect
        it.session.contracts[scipy.stats.mode] = mode
        it.session.contracts[isinstance] = lambda it_, a, k: True if a[0] is sr else NotImplemented
        out = run_function(it, FD, [sr], {"n_batches": nb})
        it.ctx.oblige("cbin.one_detection_per_batch", z3.BoolVal(len(calls) == nb and all("labels" in c for c in calls)), "post")
        if not modes:
            other = [r for r in getattr(it.ctx, "reduce_log", []) if r["name"] in ("median", "mean") and len(r["in_shape"]) == 2 and r["axis"] in (1, -1)]
            if other:
                it.ctx.oblige("cbin.mode_over_batches", z3.BoolVal(False), "post", f"the labels are aggregated across batches with a {other[0]['name']}, which is the mode only when one label has a strict majority")
                return
            raise I.Unsupported("cannot identify how the labels of the batches are aggregated (no scipy.stats.mode call)")
        it.ctx.oblige("cbin.mode_over_batches", z3.BoolVal(len(modes) == 1 and modes[0]["axis"] in (1, -1) and len(modes[0]["shape"]) == 2), "post", "the labels of the file are a mode taken across batches (axis 1 of the channels x batches table)")
        if len(modes) == 1 and len(calls) == nb and all("labels" in c for c in calls):
            tab, shape = modes[0]["in"], modes[0]["shape"]
            c = z3.Int("c")
            it.ctx.oblige("cbin.table_shape", z3.And(A.T(shape[0]) == nc, A.T(shape[1]) == nb), "post")
            for b, cl in enumerate(calls):
                it.ctx.oblige(f"cbin.table_column.{b}", A.forall([c], lambda: z3.Implies(z3.And(c >= 0, c < nc), tab((c, z3.IntVal(b))) == cl["labels"].read((c,)))), "post",
                              "column b of the table holds the labels detected on batch b", assume=False)
            it.ctx.oblige("cbin.returns_the_mode", z3.BoolVal(isinstance(out, SArr) and out.ndim == 1), "post")
            # batches are evenly spaced over the recording and of the requested duration
            t0s = [term(cl["slice"].start) for cl in calls]
            it.ctx.oblige("cbin.first_batch_at_start", t0s[0] == 0, "post", assume=False)
            it.ctx.oblige("cbin.batches_in_order", z3.And(*[t0s[b] <= t0s[b + 1] for b in range(nb - 1)]), "post", assume=False)
            it.ctx.oblige("cbin.excludes_sync_channels", z3.BoolVal(all(isinstance(cl["csel"], slice) and cl["csel"].start is None for cl in calls)) if True else True, "post")
            it.ctx.oblige("cbin.channels_are_the_non_sync_ones", z3.And(*[term(cl["csel"].stop) == nc for cl in calls]), "post", assume=False)
    S.explore(body)
