"""C14 - spike features obey their ordering, extremum and equivariance laws.

Functions under contract (ibldsp/waveforms.py): _validate_arr_in, pick_maxima, pick_maximum, find_trough, find_tip, recovery_point (helpers, with the
DataFrame as a dict of columns).  arr_pre_post is used through its contract (and checked exhaustively on small sizes natively);
compute_spike_features end-to-end (pandas row swap, half-peak points): bounded stand-in with the property's laws as run-time contracts.
"""
import numpy as np
import pandas as pd
import z3

import ibldsp.waveforms as W
from pyvc.api import harness, bounded, property_meta, run_function
from pyvc.core import SV, term, fresh_name, NAN
from pyvc import arrays as A, pdmodel
from pyvc.arrays import SArr

PROPERTY = "C14"
property_meta(
    PROPERTY, level="other",
    trusted_base=["A-PY", "A-NP-INDEX", "A-REAL (NaN as a token)", "A-NP-SPEC: argmax / nanargmax / max (first maximal element; nanargmax ignores NaN and raises on an all-NaN slice)",
                  "A-PANDAS (DataFrame = dict of columns)", "compute_spike_features data-flow harness: every step (find_peak ... recovery_slope) is replaced by a summary that records its arguments and returns a token / fresh array - "
                  "the steps' own behaviour is what the other harnesses and the stand-in decide", "contract of arr_pre_post: arr_pre[i,t] = arr[i,t] if t < peak_i else NaN, arr_post[i,t] = arr[i,t] if t >= peak_i else NaN (checked exhaustively for T <= 9 natively)"],
    explanation="pick_maximum: the reported peak is the global absolute extremum, first on ties; find_trough / find_tip: trough at or after the peak, tip strictly before it (needs the peak off the first sample); "
                "recovery_point: index in bounds and falls back to the last sample whenever the offset runs past the end; lemmas: scaling by c>0 and channel permutation leave the arg-max rule invariant. "
                "Half-peak points, the weak-positive swap, batch independence and the slopes: bounded stand-in on generated spikes.")


def mk_batch(it):
    n, T, C = z3.Ints("nwav T C")
    it.ctx.assume(z3.And(n >= 1, T >= 2, C >= 1))
    arr = A.fresh_array("wav", "float64", (n, T, C))
    q = [z3.Int(fresh_name("q")) for _ in range(3)]
    it.ctx.assume(z3.ForAll(q, arr.uf(*q) != NAN))       # NaN padding is zeroed by _validate_arr_in first; data are numbers
    return n, T, C, arr


def replay_features(vals, oid):
    bad = native_laws(np.random.default_rng(4), 60)
    return {"failed": bool(bad), "examples": bad[:3]}


@harness(PROPERTY, "pick_maximum", functions=["ibldsp.waveforms:pick_maximum", "ibldsp.waveforms:pick_maxima", "ibldsp.waveforms:_validate_arr_in"], replay=replay_features,
         clause="the reported peak is the global absolute extremum")
def h_peak(H):
    S = H.session("pick_maximum")

    def body(it):
        n, T, C, arr = mk_batch(it)
        tr, pk, val = run_function(it, W.pick_maximum, [arr])
        i, t, c = z3.Ints("i t c")
        ab = lambda x: z3.If(x >= 0, x, -x)     # noqa
        it.ctx.oblige("peak.shapes", z3.And(A.T(tr.shape[0]) == n, A.T(pk.shape[0]) == n, A.T(val.shape[0]) == n), "post")
        it.ctx.oblige("peak.in_range", A.forall([i], lambda: z3.Implies(z3.And(i >= 0, i < n), z3.And(tr.read((i,)) >= 0, tr.read((i,)) < C, pk.read((i,)) >= 0, pk.read((i,)) < T))), "post")
        it.ctx.oblige("peak.value_is_at_index", A.forall([i], lambda: z3.Implies(z3.And(i >= 0, i < n), val.read((i,)) == arr.read((i, pk.read((i,)), tr.read((i,)))))), "post", assume=False)
        r0, t0, c0 = z3.Int(fresh_name("i0")), z3.Int(fresh_name("t0")), z3.Int(fresh_name("c0"))
        it.ctx.assume(z3.And(r0 >= 0, r0 < n, t0 >= 0, t0 < T, c0 >= 0, c0 < C))
        it.ctx.oblige("peak.global_extremum", ab(arr.read((r0, t0, c0))) <= ab(val.read((r0,))), "post", "no sample of any trace of the waveform exceeds the reported peak in absolute value (arbitrary waveform, sample, trace)", assume=False)
        it.ctx.oblige("peak.first_in_time", z3.Implies(z3.And(c0 == tr.read((r0,)), t0 < pk.read((r0,))), ab(arr.read((r0, t0, c0))) < ab(val.read((r0,)))), "post", "on the peak trace, earlier samples are strictly smaller (first maximum)", assume=False)
    S.explore(body)


def arr_pre_post_summary(it, a, k):
    arr, idx = A.as_sarr(a[0]), A.as_sarr(a[1])
    s, ps = arr.snapshot(), idx.snapshot()
    pre = SArr(np.float64, arr.shape, lambda i: z3.If(i[1] < ps((i[0],)), s(i), NAN))
    post = SArr(np.float64, arr.shape, lambda i: z3.If(i[1] >= ps((i[0],)), s(i), NAN))
    return pre, post


def replay_prepost(vals, oid):
    bad = []
    for T in range(1, 10):
        for p in range(T):
            a = np.arange(2 * T, dtype=float).reshape(2, T) + 1
            pre, post = W.arr_pre_post(a.copy(), np.array([p, (p + 1) % T]))
            for r_, pk in ((0, p), (1, (p + 1) % T)):
                wpre = np.where(np.arange(T) < pk, a[r_], np.nan)
                wpost = np.where(np.arange(T) >= pk, a[r_], np.nan)
                if not (np.array_equal(pre[r_], wpre, equal_nan=True) and np.array_equal(post[r_], wpost, equal_nan=True)):
                    bad.append({"T": T, "peak": pk})
    return {"failed": bool(bad), "examples": bad[:3]}


@harness(PROPERTY, "arr_pre_post", functions=["ibldsp.waveforms:arr_pre_post"], replay=replay_prepost,
         clause="pre/post-peak masking: the pre array keeps the samples strictly before each waveform's peak, the post array those from the peak on; everything else is NaN")
def h_prepost(H):
    from pyvc import interp as I
    S = H.session("arr_pre_post")
    FN = W.arr_pre_post

    def body(it):
        n, T = z3.Ints("nwav T")
        it.ctx.assume(z3.And(n >= 1, T >= 1))
        ap = A.fresh_array("arr_peak", "float64", (n, T))
        a0 = ap.snapshot()
        q = [z3.Int(fresh_name("q")) for _ in range(2)]
        it.ctx.assume(z3.ForAll(q, ap.uf(*q) != NAN))
        peak = A.fresh_array("indx_peak", "int64", (n,), ranged=False)
        A.assume_range(peak, 0, T - 1)
        node, filename = I.SOURCES.funcdef(FN)
        it.session.note_function(FN)
        env = I.Env(None, FN.__globals__, qualname="arr_pre_post", filename=filename)
        env.funcnode = node
        env.vars.update(dict(arr_peak=ap, indx_peak=peak))
        it.ctx.func = env.qualname
        ret = None
        lemma_done = False
        i, t = z3.Ints("i t")
        for st in node.body:
            try:
                it.exec_stmt(st, env)
            except I.ReturnEx as e:
                ret = e.v
                break
            cl = getattr(it.ctx, "cumsum_log", [])
            if cl and not lemma_done:
                lemma_done = True
                c = cl[-1]
                f = c["f"]
                # what is summed: an indicator of the peak position (0 elsewhere)
                it.ctx.oblige("prepost.indicator_of_the_peak", A.forall([i, t], lambda: z3.Implies(z3.And(i >= 0, i < n, t >= 0, t < T), c["input"]((i, t)) == z3.If(t == peak.read((i,)), z3.RealVal(1), z3.RealVal(0)))), "post",
                              "the running sum is taken over an array that is 1 at each waveform's peak and 0 elsewhere")
                claim = lambda ii, tt: f(ii, tt) == z3.If(tt >= peak.read((ii,)), z3.RealVal(1), z3.RealVal(0))     # noqa
                # induction on t (the principle is applied here; base and step are obligations)
                it.ctx.oblige("prepost.lemma.running_sum.base", A.forall([i], lambda: z3.Implies(z3.And(i >= 0, i < n), claim(i, z3.IntVal(0)))), "lemma", assume=False)
                it.ctx.oblige("prepost.lemma.running_sum.step", A.forall([i, t], lambda: z3.Implies(z3.And(i >= 0, i < n, t >= 1, t < T, claim(i, t - 1)), claim(i, t))), "lemma", assume=False)
                ii, tt = z3.Int(fresh_name("i")), z3.Int(fresh_name("t"))
                it.ctx.assume(z3.ForAll([ii, tt], z3.Implies(z3.And(ii >= 0, ii < n, tt >= 0, tt < T), claim(ii, tt)), patterns=[f(ii, tt)]))
        if not lemma_done or not (isinstance(ret, tuple) and len(ret) == 2):
            raise I.Unsupported("cannot identify the running sum / the two returned arrays of arr_pre_post()")
        pre, post = ret
        shp = lambda x: z3.And(z3.BoolVal(x.ndim == 2 and x.dtype.kind == "f"), A.T(x.shape[0]) == n, A.T(x.shape[1]) == T)     # noqa
        it.ctx.oblige("prepost.shapes", z3.And(shp(pre), shp(post)), "post")
        it.ctx.oblige("prepost.pre", A.forall([i, t], lambda: z3.Implies(z3.And(i >= 0, i < n, t >= 0, t < T), pre.read((i, t)) == z3.If(t < peak.read((i,)), a0((i, t)), NAN))), "post",
                      "pre[i,t] is the sample when t is strictly before the peak of waveform i, NaN from the peak on", assume=False)
        it.ctx.oblige("prepost.post", A.forall([i, t], lambda: z3.Implies(z3.And(i >= 0, i < n, t >= 0, t < T), post.read((i, t)) == z3.If(t >= peak.read((i,)), a0((i, t)), NAN))), "post",
                      "post[i,t] is the sample from the peak on, NaN before it", assume=False)
        it.ctx.oblige("prepost.input_untouched", A.forall([i, t], lambda: z3.Implies(z3.And(i >= 0, i < n, t >= 0, t < T), ap.read((i, t)) == a0((i, t)))), "post", assume=False)
    S.explore(body)


@harness(PROPERTY, "tip_trough_order", functions=["ibldsp.waveforms:find_trough", "ibldsp.waveforms:find_tip"],
         clause="tip precedes peak which does not follow trough; extraction succeeds whenever the peak is not on the first sample")
def h_order(H):
    S = H.session("order")

    def body(it):
        n, T = z3.Ints("nwav T")
        it.ctx.assume(z3.And(n >= 1, T >= 2))
        ap = A.fresh_array("arr_peak", "float64", (n, T))
        q = [z3.Int(fresh_name("q")) for _ in range(2)]
        it.ctx.assume(z3.ForAll(q, ap.uf(*q) != NAN))
        peak = A.fresh_array("peak_time_idx", "int64", (n,), ranged=False)
        A.assume_range(peak, 1, T - 1)            # "largest deflection not on the first sample"
        inv = A.fresh_array("invert_sign_peak", "float64", (n,))
        it.session.contracts[W.arr_pre_post] = arr_pre_post_summary
        df = pdmodel.SFrame({"peak_time_idx": peak, "invert_sign_peak": inv})
        df = run_function(it, W.find_trough, [ap, df])
        df = run_function(it, W.find_tip, [ap, df])
        tro, tip = df["trough_time_idx"].to_numpy(), df["tip_time_idx"].to_numpy()
        i = z3.Int("i")
        it.ctx.oblige("order.trough_not_before_peak", A.forall([i], lambda: z3.Implies(z3.And(i >= 0, i < n), z3.And(tro.read((i,)) >= peak.read((i,)), tro.read((i,)) < T))), "post")
        it.ctx.oblige("order.tip_before_peak", A.forall([i], lambda: z3.Implies(z3.And(i >= 0, i < n), z3.And(tip.read((i,)) >= 0, tip.read((i,)) < peak.read((i,))))), "post")
        tv = df["trough_val"].to_numpy()
        it.ctx.oblige("order.trough_value", A.forall([i], lambda: z3.Implies(z3.And(i >= 0, i < n), tv.read((i,)) == ap.read((i, tro.read((i,)))) * inv.read((i,)))), "post", assume=False)
        r0, t0 = z3.Int(fresh_name("i0")), z3.Int(fresh_name("t0"))
        it.ctx.assume(z3.And(r0 >= 0, r0 < n, t0 >= peak.read((r0,)), t0 < T))
        it.ctx.oblige("order.trough_is_max_after_peak", ap.read((r0, t0)) <= ap.read((r0, tro.read((r0,)))), "post", "the trough is the largest (sign-normalised) value from the peak on", assume=False)
    S.explore(body)


def replay_halfpeak(vals, oid):
    bad = native_half_peak(np.random.default_rng(11), 40)
    bad = [b for b in bad if b[1] != "swap_positive_trough"]
    return {"failed": bool(bad), "examples": [repr(b) for b in bad[:3]]}


@harness(PROPERTY, "half_peak_point", functions=["ibldsp.waveforms:half_peak_point"], replay=replay_halfpeak,
         clause="the half-peak points are the nearest samples on either side of the peak at which the trace is back within half of the peak value (whenever such samples exist)")
def h_halfpeak(H):
    S = H.session("half_peak")

    def body(it):
        n, T = z3.Ints("nwav T")
        it.ctx.assume(z3.And(n >= 1, T >= 2))
        ap = A.fresh_array("arr_peak", "float64", (n, T))           # sign-normalised: the peak is the negative extremum
        q = [z3.Int(fresh_name("q")) for _ in range(2)]
        it.ctx.assume(z3.ForAll(q, ap.uf(*q) != NAN))
        peak = A.fresh_array("peak_time_idx", "int64", (n,), ranged=False)
        A.assume_range(peak, 0, T - 1)
        pv = A.fresh_array("peak_val", "float64", (n,))
        inv = A.fresh_array("invert_sign_peak", "float64", (n,))
        it.session.contracts[W.arr_pre_post] = arr_pre_post_summary          # proved by harness arr_pre_post
        df = pdmodel.SFrame({"peak_time_idx": peak, "peak_val": pv, "invert_sign_peak": inv})
        df = run_function(it, W.half_peak_point, [ap, df])
        post, pre = df["half_peak_post_time_idx"].to_numpy(), df["half_peak_pre_time_idx"].to_numpy()
        vpost, vpre = df["half_peak_post_val"].to_numpy(), df["half_peak_pre_val"].to_numpy()
        i = z3.Int(fresh_name("i0"))
        t = z3.Int(fresh_name("t0"))
        it.ctx.assume(z3.And(i >= 0, i < n, t >= 0, t < T))
        # proof hints: instances of the arg-max specification (already hypotheses) at the positions the argument needs; the arrays searched on the
        # pre side are indicator / mirrored arrays in which the solver finds no term to instantiate the specification on by itself
        from pyvc import models as M
        ams = [e for e in it.ctx.reduce_log if e["name"] == "argmax" and len(e["in_shape"]) == 2 and e["axis"] == 1]
        for e in ams:
            r_e = e["out"](i)
            for kterm in (t, T - 1 - t, r_e, T - 1 - r_e) + tuple(x for e2 in ams for x in (e2["out"](i), T - 1 - e2["out"](i))):
                it.ctx.assume(M.argmax_instance(e, (i,), kterm))
        half = (pv.read((i,)) / 2) * inv.read((i,))
        back = lambda tt: ap.read((i, tt)) - half > 0          # noqa  the (sign-normalised) trace is back above half of the peak
        p_ = peak.read((i,))
        it.ctx.oblige("half.indices_in_range", z3.And(post.read((i,)) >= 0, post.read((i,)) < T, pre.read((i,)) >= 0, pre.read((i,)) < T), "post")
        # post: the first sample from the peak on where the trace is back within half (when there is one)
        it.ctx.oblige("half.post.nearest_after_peak", z3.Implies(z3.And(t >= p_, back(t)), z3.And(post.read((i,)) >= p_, post.read((i,)) <= t, back(post.read((i,))))), "post",
                      "if the trace is back within half at some sample t from the peak on, the reported point is such a sample and none of them is nearer to the peak (arbitrary waveform i, sample t)", assume=False)
        it.ctx.oblige("half.pre.nearest_before_peak", z3.Implies(z3.And(t < p_, back(t)), z3.And(pre.read((i,)) < p_, pre.read((i,)) >= t, back(pre.read((i,))))), "post",
                      "same on the other side: the last sample before the peak where the trace is within half", assume=False)
        it.ctx.oblige("half.values_at_the_points", z3.And(vpost.read((i,)) == ap.read((i, post.read((i,)))) * inv.read((i,)), vpre.read((i,)) == ap.read((i, pre.read((i,)))) * inv.read((i,))), "post", assume=False)
    S.explore(body)


@harness(PROPERTY, "derived_features_scale", functions=["ibldsp.waveforms:peak_to_trough_ratio", "ibldsp.waveforms:peak_to_trough_duration", "ibldsp.waveforms:half_peak_duration",
                                                        "ibldsp.waveforms:polarisation_slopes", "ibldsp.waveforms:recovery_slope"],
         clause="scaling the waveform by c > 0 scales all values and leaves all indices unchanged: the derived columns (ratio, durations, slopes) computed from scaled values and the same indices")
def h_derived(H):
    S = H.session("derived.scale")

    def body(it):
        n = z3.Int("nwav")
        c = z3.Real("c")
        fs = z3.Real("fs")
        it.ctx.assume(z3.And(n >= 1, c > 0, fs > 0))
        idx_cols = ("peak_time_idx", "trough_time_idx", "tip_time_idx", "half_peak_post_time_idx", "half_peak_pre_time_idx", "recovery_time_idx")
        val_cols = ("peak_val", "trough_val", "tip_val", "recovery_val")
        base = {k_: A.fresh_array(k_, "int64", (n,), ranged=False) for k_ in idx_cols}
        vals = {k_: A.fresh_array(k_, "float64", (n,)) for k_ in val_cols}
        q = z3.Int(fresh_name("q"))
        for v_ in vals.values():
            it.ctx.assume(z3.ForAll([q], v_.uf(q) != NAN))

        def frame(scale):
            cols = {k_: v_.copy() for k_, v_ in base.items()}
            for k_, v_ in vals.items():
                s_ = v_.snapshot()
                cols[k_] = SArr(np.float64, v_.shape, (lambda s_: (lambda idx: s_(idx) * scale))(s_)) if scale is not None else v_.copy()
            return pdmodel.SFrame(cols)
        out = []
        for scale in (None, c):
            df = frame(scale)
            for fn, kw in ((W.peak_to_trough_ratio, {}), (W.peak_to_trough_duration, {"fs": SV(fs)}), (W.half_peak_duration, {"fs": SV(fs)}), (W.polarisation_slopes, {"fs": SV(fs)}), (W.recovery_slope, {"fs": SV(fs)})):
                df = run_function(it, fn, [df], kw)
            out.append(df)
        a, b = out
        i = z3.Int(fresh_name("i0"))
        it.ctx.assume(z3.And(i >= 0, i < n))
        col = lambda d, k_: d[k_].to_numpy().read((i,))       # noqa
        it.ctx.oblige("derived.durations_unchanged", z3.And(col(a, "peak_to_trough_duration") == col(b, "peak_to_trough_duration"), col(a, "half_peak_duration") == col(b, "half_peak_duration")), "post", assume=False)
        it.ctx.oblige("derived.duration_formulas", z3.And(col(a, "peak_to_trough_duration") * fs == z3.ToReal(base["trough_time_idx"].read((i,)) - base["peak_time_idx"].read((i,))),
                      col(a, "half_peak_duration") * fs == z3.ToReal(base["half_peak_post_time_idx"].read((i,)) - base["half_peak_pre_time_idx"].read((i,)))), "post",
                      "durations are index differences over the sampling rate", assume=False)
        it.ctx.oblige("derived.ratio_unchanged", z3.Implies(vals["trough_val"].read((i,)) != 0, z3.And(col(a, "peak_to_trough_ratio") == col(b, "peak_to_trough_ratio"), col(a, "peak_to_trough_ratio_log") == col(b, "peak_to_trough_ratio_log"))), "post",
                      "the peak-to-trough ratio (and its logarithm) does not depend on the amplitude unit", assume=False)
        ab = lambda x: z3.If(x >= 0, x, -x)       # noqa
        it.ctx.oblige("derived.ratio_formula", z3.Implies(vals["trough_val"].read((i,)) != 0, col(a, "peak_to_trough_ratio") * ab(vals["trough_val"].read((i,))) == ab(vals["peak_val"].read((i,)))), "post", assume=False)
        nz = lambda k1, k2: base[k1].read((i,)) != base[k2].read((i,))       # noqa
        it.ctx.oblige("derived.slopes_scale", z3.And(z3.Implies(nz("peak_time_idx", "tip_time_idx"), col(b, "depolarisation_slope") == c * col(a, "depolarisation_slope")),
                      z3.Implies(nz("trough_time_idx", "peak_time_idx"), col(b, "repolarisation_slope") == c * col(a, "repolarisation_slope")),
                      z3.Implies(nz("recovery_time_idx", "trough_time_idx"), col(b, "recovery_slope") == c * col(a, "recovery_slope"))), "post",
                      "slopes scale with the amplitude (wherever the two samples they join differ)", assume=False)
    S.explore(body)


def replay_recovery(vals, oid):
    T = 20
    bad = []
    for off in (1, 5, 19):
        for tr in range(0, T):
            arr = np.arange(T, dtype=float)[None, :] * 1.0
            df = pd.DataFrame({"trough_time_idx": [tr], "invert_sign_peak": [1.0]})
            try:
                out = W.recovery_point(arr.copy(), df, idx_from_trough=off)
                want = tr + off if tr + off < T else T - 1
                if int(out["recovery_time_idx"][0]) != want or out["recovery_val"][0] != arr[0, want]:
                    bad.append((tr, off, int(out["recovery_time_idx"][0]), want))
            except Exception as e:
                bad.append((tr, off, repr(e)))
    return {"failed": bool(bad), "examples": bad[:4]}


@harness(PROPERTY, "recovery_point", functions=["ibldsp.waveforms:recovery_point"], replay=replay_recovery,
         clause="the recovery point falls back to the last sample whenever its offset runs past the end")
def h_recovery(H):
    S = H.session("recovery")

    def body(it):
        n, T, off = z3.Ints("nwav T idx_from_trough")
        it.ctx.assume(z3.And(n >= 1, T >= 2, off >= 1, off < T))
        ap = A.fresh_array("arr_peak", "float64", (n, T))
        tro = A.fresh_array("trough_time_idx", "int64", (n,), ranged=False)
        A.assume_range(tro, 0, T - 1)
        inv = A.fresh_array("invert_sign_peak", "float64", (n,))
        H.input(T=T, idx_from_trough=off)
        df = pdmodel.SFrame({"trough_time_idx": tro, "invert_sign_peak": inv})
        before = tro.snapshot()
        df = run_function(it, W.recovery_point, [ap, df], {"idx_from_trough": SV(off)})
        rt, rv = df["recovery_time_idx"].to_numpy(), df["recovery_val"].to_numpy()
        i = z3.Int("i")
        want = lambda ii: z3.If(before((ii,)) + off < T, before((ii,)) + off, T - 1)     # noqa
        it.ctx.oblige("recovery.index", A.forall([i], lambda: z3.Implies(z3.And(i >= 0, i < n), rt.read((i,)) == want(i))), "post", "trough + offset, or the last sample when that runs past the end")
        it.ctx.oblige("recovery.value", A.forall([i], lambda: z3.Implies(z3.And(i >= 0, i < n), rv.read((i,)) == ap.read((i, want(i))) * inv.read((i,)))), "post", assume=False)
    S.explore(body)


def replay_validate(vals, oid):
    rng = np.random.default_rng(8)
    bad = []
    for shape in ((4, 9, 5), (9, 5), (3, 6, 1)):
        for where in ("first", "middle", "last", "scattered"):
            a = rng.standard_normal(shape)
            C = shape[-1]
            if where == "scattered":
                a[rng.random(shape) < 0.2] = np.nan
            else:
                a[..., {"first": 0, "middle": C // 2, "last": C - 1}[where]] = np.nan
            b = a.copy()
            out = W._validate_arr_in(b)
            want = np.nan_to_num(a if a.ndim == 3 else a[None], nan=0.0)
            if out.shape != want.shape or np.isnan(out).any() or not np.array_equal(out, want):
                bad.append({"shape": shape, "NaN channels": where, "NaN left": int(np.isnan(out).sum())})
    return {"failed": bool(bad), "cases": bad[:4]}


@harness(PROPERTY, "validate_arr_in", functions=["ibldsp.waveforms:_validate_arr_in"], replay=replay_validate,
         clause="feature extraction succeeds for every multi-channel waveform: the NaN padding of out-of-probe channels is replaced by 0 wherever it sits (any channel, any waveform), real samples are kept, a single waveform becomes a batch of one")
def h_validate(H):
    for nd in (3, 2):
        S = H.session(f"validate.{nd}d")

        def body(it, nd=nd):
            dims = z3.Ints("n T C") if nd == 3 else z3.Ints("T C")
            for d_ in dims:
                it.ctx.assume(d_ >= 1)
            a = A.fresh_array("arr_in", "float64", tuple(dims))
            a0 = a.snapshot()
            out = run_function(it, W._validate_arr_in, [a])
            i, t, c = z3.Ints("i t c")
            n_, T_, C_ = (dims if nd == 3 else (z3.IntVal(1),) + tuple(dims))
            src = (lambda i_, t_, c_: a0((i_, t_, c_))) if nd == 3 else (lambda i_, t_, c_: a0((t_, c_)))
            it.ctx.oblige(f"validate.shape.{nd}d", z3.And(z3.BoolVal(out.ndim == 3), A.T(out.shape[0]) == n_, A.T(out.shape[1]) == T_, A.T(out.shape[2]) == C_), "post", assume=False)
            it.ctx.oblige(f"validate.no_nan_left_and_samples_kept.{nd}d", A.forall([i, t, c], lambda: z3.Implies(z3.And(i >= 0, i < n_, t >= 0, t < T_, c >= 0, c < C_),
                          out.read((i, t, c)) == z3.If(src(i, t, c) == NAN, z3.RealVal(0), src(i, t, c)))), "post",
                          "every NaN of the input - in whatever channel - reads 0 afterwards, every other sample is unchanged", assume=False)
        S.explore(body)


def replay_dataflow(vals, oid):
    """native: one waveform handed over as (time, traces), as a batch of one and inside a larger batch, for 1..8 traces: same features; recovery = min(trough + offset, T - 1)"""
    rng = np.random.default_rng(2)
    bad = []
    for nch in (1, 2, 3, 5, 6, 8):
        for T in (40, 82):
            t = np.arange(T)
            w = np.zeros((T, nch))
            pk = int(T * 0.4)
            w[:, nch // 2] = -np.exp(-0.5 * ((t - pk) / 2.0) ** 2) + 0.35 * np.exp(-0.5 * ((t - pk - 9) / 4.0) ** 2)
            w += rng.normal(0, 0.003, w.shape)
            other = rng.normal(0, 0.01, (3, T, nch))
            other[:, T // 2, 0] = -2.0
            f2 = W.compute_spike_features(w.copy())
            f1 = W.compute_spike_features(w[None].copy())
            fb = W.compute_spike_features(np.concatenate([other[:1], w[None], other[1:]]).copy())
            off = int(round(0.16 * 30000 / 1000))
            want = min(int(f1["trough_time_idx"].iloc[0]) + off, T - 1)
            got = [int(f2["recovery_time_idx"].iloc[0]), int(f1["recovery_time_idx"].iloc[0]), int(fb["recovery_time_idx"].iloc[1])]
            if got != [want] * 3:
                bad.append({"traces": nch, "samples": T, "recovery_time_idx (2-D, batch of one, in a batch)": got, "trough + offset": want})
    return {"failed": bool(bad), "cases": bad[:4]}


@harness(PROPERTY, "compute_spike_features_dataflow", functions=["ibldsp.waveforms:compute_spike_features"], replay=replay_dataflow,
         clause="each waveform's features do not depend on the other waveforms in the batch nor on how the batch is handed over: the steps are chained on the peak-trace array and the table of the step before, "
                "with the caller's sampling rate and the recovery offset round(recovery_duration_ms * fs / 1000) whatever the shape of the input")
def h_dataflow(H):
    S = H.session("compute_spike_features")

    def body(it):
        import inspect
        fs, dur = z3.Reals("fs recovery_duration_ms")
        it.ctx.assume(z3.And(fs > 0, dur > 0))
        for nd in (3, 2):
            dims = z3.Ints("n T C") if nd == 3 else z3.Ints("T C")
            for d_ in dims:
                it.ctx.assume(d_ >= 2)
            arr = A.fresh_array("arr_in", "float64", tuple(dims))
            calls = []

            def mk(name, returns):
                real = getattr(W, name)

                def f(it_, a, k, name=name, real=real, returns=returns):
                    ba = inspect.signature(real).bind(*a, **k)
                    ba.apply_defaults()
                    calls.append((name, dict(ba.arguments)))
                    return returns(name)
                it.session.contracts[real] = f
            tok = lambda nm: ("TABLE", nm)          # noqa  the table returned by step nm
            mk("find_peak", lambda nm: tok(nm))
            real_peak = []
            mk("get_array_peak", lambda nm: real_peak.append(A.fresh_array("arr_peak_real", "float64", (z3.Int("nw"), z3.Int("Tw")))) or real_peak[-1])
            mk("invert_peak_waveform", lambda nm: (A.fresh_array("arr_peak", "float64", (z3.Int("nw"), z3.Int("Tw"))), tok(nm)))
            mk("find_tip_trough", lambda nm: (tok(nm), A.fresh_array("arr_peak2", "float64", (z3.Int("nw"), z3.Int("Tw")))))
            for nm in ("peak_to_trough_duration", "half_peak_point", "half_peak_duration", "recovery_point", "polarisation_slopes", "recovery_slope"):
                mk(nm, lambda nm_: tok(nm_))
            out = run_function(it, W.compute_spike_features, [arr], {"fs": SV(fs), "recovery_duration_ms": SV(dur)})
            names = [c[0] for c in calls]
            want = ["find_peak", "get_array_peak", "invert_peak_waveform", "find_tip_trough", "peak_to_trough_duration", "half_peak_point", "half_peak_duration", "recovery_point", "polarisation_slopes", "recovery_slope"]
            tag = f"{nd}d"
            it.ctx.oblige(f"dataflow.steps.{tag}", z3.BoolVal(names == want), "post", "the documented chain of steps, once each")
            if names != want:
                continue
            arg = {nm: a_ for nm, a_ in calls}
            rp = arg["recovery_point"]
            off = rp.get("idx_from_trough")
            from pyvc.core import round_half_even
            it.ctx.oblige(f"dataflow.recovery_offset.{tag}", (term(off) == round_half_even(dur * fs / 1000)) if isinstance(off, (SV, z3.ExprRef)) else z3.BoolVal(False), "post",
                          "the recovery offset is round(recovery_duration_ms * fs / 1000) samples: it does not depend on the shape of the input (traces, samples, batch size)", assume=False)
            peak2 = [c for c in calls if c[0] == "find_tip_trough"]
            ok_chain = (arg["find_peak"].get("arr_in") is arr and arg["get_array_peak"].get("arr_in") is arr and arg["get_array_peak"].get("df") == tok("find_peak")
                        and arg["half_peak_point"].get("df") == tok("peak_to_trough_duration") and arg["recovery_point"].get("df") == tok("half_peak_duration")
                        and arg["polarisation_slopes"].get("df") == tok("recovery_point") and arg["recovery_slope"].get("df") == tok("polarisation_slopes") and out == tok("recovery_slope"))
            it.ctx.oblige(f"dataflow.tables_chained.{tag}", z3.BoolVal(bool(ok_chain)), "post", "each step receives the table of the step before it; the last table is returned")
            inv_in = arg["invert_peak_waveform"].get("arr_peak")
            it.ctx.oblige(f"dataflow.inversion_works_on_a_copy.{tag}", z3.BoolVal(isinstance(inv_in, SArr) and len(real_peak) == 1 and not A.shares_memory(inv_in, real_peak[0])
                                                                                    and arg["find_tip_trough"].get("arr_peak_real") is real_peak[0]), "post",
                          "positive spikes are inverted in a copy: the peak traces handed to find_tip_trough as the un-inverted ones are the ones that were picked (whatever the precision of the input)")
            fs_ok = all(isinstance(arg[nm].get("fs"), SV) and z3.is_true(z3.simplify(term(arg[nm]["fs"]) == fs)) for nm in ("peak_to_trough_duration", "half_peak_duration", "polarisation_slopes", "recovery_slope"))
            it.ctx.oblige(f"dataflow.sampling_rate.{tag}", z3.BoolVal(bool(fs_ok)), "post", "durations and slopes are computed with the caller's sampling rate")
    S.explore(body)


@harness(PROPERTY, "equivariance_lemmas", functions=[], clause="scaling by c>0 leaves all indices unchanged; permuting channels only permutes the peak-channel index (lemmas over the arg-max specification)")
def h_lemmas(H):
    # argmax specification: r is THE index with a[k] <= a[r] for all k and a[k] < a[r] for k < r.  Uniqueness + invariance under positive scaling.
    n, r1, r2, k = z3.Ints("n r1 r2 k")
    c = z3.Real("c")
    a = z3.Function("a", z3.IntSort(), z3.RealSort())
    spec = lambda f, r: z3.And(r >= 0, r < n, z3.ForAll([k], z3.Implies(z3.And(k >= 0, k < n), z3.And(f(k) <= f(r), z3.Implies(k < r, f(k) < f(r))))))    # noqa
    H.lemma("argmax.unique", [n >= 1, spec(a, r1), spec(a, r2)], r1 == r2)
    sa = z3.Function("sa", z3.IntSort(), z3.RealSort())
    H.lemma("argmax.scale_invariant", [n >= 1, c > 0, z3.ForAll([k], sa(k) == c * a(k)), spec(a, r1), spec(sa, r2)], r1 == r2, "argmax(c*a) == argmax(a) for c > 0")
    ab = lambda x: z3.If(x >= 0, x, -x)    # noqa
    x = z3.Real("x")
    H.lemma("abs.scale", [c > 0], ab(c * x) == c * ab(x))
    # channel permutation: the maximum over channels of per-channel maxima is permutation invariant as a value
    p = z3.Function("p", z3.IntSort(), z3.IntSort())
    pinv = z3.Function("pinv", z3.IntSort(), z3.IntSort())
    m = z3.Function("m", z3.IntSort(), z3.RealSort())
    hyp = [n >= 1, z3.ForAll([k], z3.Implies(z3.And(k >= 0, k < n), z3.And(p(k) >= 0, p(k) < n, pinv(p(k)) == k))), z3.ForAll([k], z3.Implies(z3.And(k >= 0, k < n), z3.And(pinv(k) >= 0, pinv(k) < n, p(pinv(k)) == k))),
           r1 >= 0, r1 < n, z3.ForAll([k], z3.Implies(z3.And(k >= 0, k < n), m(k) <= m(r1))),
           r2 >= 0, r2 < n, z3.ForAll([k], z3.Implies(z3.And(k >= 0, k < n), m(p(k)) <= m(p(r2))))]
    H.lemma("channel_permutation.same_peak_value", hyp, m(r1) == m(p(r2)), "permuting channels does not change the peak value: only the index of the peak channel moves")


# ----------------------------------------------------------------------------- bounded
def _spikes(rng, n, T, C, polarity):
    t = np.arange(T)
    out = np.zeros((n, T, C))
    for i in range(n):
        p = int(rng.integers(1, T))
        w = rng.uniform(1.0, 3.0)
        amp = rng.uniform(20, 100) * polarity
        main = amp * np.exp(-0.5 * ((t - p) / w) ** 2)
        rebound = -0.35 * amp * np.exp(-0.5 * ((t - p - 3 * w) / (2 * w)) ** 2)
        if rng.random() < 0.4:
            # tri-phasic: a lobe of opposite sign before the main deflection, sometimes deeper than the one after it
            rebound = rebound * rng.uniform(1.5, 2.4) - rng.uniform(0.6, 0.95) * amp * np.exp(-0.5 * ((t - p + 3 * w) / (1.5 * w)) ** 2)
        if rng.random() < 0.3:
            # doublet: an earlier lobe of the same sign, between half and 95 % of the main one, far enough for the trace to come back above the half level in between
            main = main + rng.uniform(0.55, 0.95) * amp * np.exp(-0.5 * ((t - p + rng.uniform(5, 8) * w) / w) ** 2)
        decay = np.exp(-np.abs(np.arange(C) - rng.integers(0, C)) / 2.0)
        out[i] = (main + rebound)[:, None] * decay[None, :] + rng.normal(0, 0.5, (T, C))
    return out


def native_laws(rng, ncases):
    bad = []
    for case in range(ncases):
        T, C, n = int(rng.integers(10, 200)), int(rng.integers(1, 40)), int(rng.integers(1, 12))
        pol = float(rng.choice([-1, 1]))
        arr = _spikes(rng, n, T, C, pol)
        if rng.random() < 0.3 and C > 2:
            arr[:, :, -1] = np.nan
        a0 = arr.copy()
        try:
            df = W.compute_spike_features(arr.copy())
        except Exception as e:
            pk = np.argmax(np.abs(np.nan_to_num(a0)).max(axis=2), axis=1)
            if np.all(pk > 0):
                bad.append(("raised although no peak on first sample", T, C, repr(e)[:80]))
            continue
        a = np.nan_to_num(a0)
        for i in range(n):
            r = df.iloc[i]
            tr, pt = int(r.peak_trace_idx), int(r.peak_time_idx)
            g = np.abs(a[i]).max()
            tr0, pt0 = np.unravel_index(np.argmax(np.abs(a[i]).T), (C, T))
            swapped = not (np.isclose(abs(a[i, pt, tr]), g))
            if swapped and not (a[i, pt0, tr0] > 0 and tr == tr0):
                bad.append(("peak is neither the global extremum nor the documented swap", T, C, i))
            # which of the two: a positive extremum v0 followed (on its channel) by a minimum xt with |v0 / xt| <= 1.5 is a weakly positive spike - its peak is handed to xt; any other keeps the extremum
            v0 = a[i, pt0, tr0]
            if v0 > 0 and tr == tr0:
                tx = pt0 + int(np.argmin(a[i, pt0:, tr0]))
                xt = a[i, tx, tr0]
                if xt != 0 and abs(abs(v0 / xt) - 1.5) > 1e-6:
                    weak = abs(v0 / xt) <= 1.5
                    if pt != (tx if weak else pt0):
                        bad.append(("weakly positive spike whose peak is not handed to the following minimum" if weak else "peak handed to the following minimum although the spike is not weakly positive", T, C, i,
                                    {"extremum": float(v0), "at": int(pt0), "following_minimum": float(xt), "at_": int(tx), "reported_peak_at": pt}))
            if not (r.tip_time_idx < r.peak_time_idx <= r.trough_time_idx):
                bad.append(("order tip<peak<=trough", T, C, i, int(r.tip_time_idx), pt, int(r.trough_time_idx)))
            if not (0 <= r.recovery_time_idx < T):
                bad.append(("recovery index", T, i))
        # scale equivariance
        c = float(rng.uniform(0.1, 30))
        df2 = W.compute_spike_features(a0.copy() * c)
        idx_cols = [k for k in df.columns if k.endswith("_idx")]
        if not df[idx_cols].equals(df2[idx_cols]):
            bad.append(("scale changes indices", T, C))
        val_cols = [k for k in df.columns if k.endswith("_val")]
        if not np.allclose(df[val_cols].to_numpy(float) * c, df2[val_cols].to_numpy(float), rtol=1e-9, equal_nan=True):
            bad.append(("scale does not scale values", T, C))
        # ... at any amplitude unit (Volts instead of microvolts and smaller): scaling by a power of two is exact in binary floating point, so
        # indices, signs, ratios and durations must be identical and values / slopes exactly scaled
        c2 = 2.0 ** float(rng.choice([-int(rng.integers(10, 45)), int(rng.integers(5, 20))]))
        try:
            df5 = W.compute_spike_features(a0.copy() * c2)
            inv_cols = [k for k in df.columns if k in ("invert_sign_peak", "peak_to_trough_ratio", "peak_to_trough_ratio_log", "peak_to_trough_duration", "half_peak_duration")]
            slope_cols = [k for k in df.columns if k.endswith("_slope")]
            if not df[idx_cols].equals(df5[idx_cols]):
                bad.append(("scale by a power of two changes indices", T, C, c2))
            elif not (np.array_equal(df[val_cols + slope_cols].to_numpy(float) * c2, df5[val_cols + slope_cols].to_numpy(float), equal_nan=True)
                      and np.array_equal(df[inv_cols].to_numpy(float), df5[inv_cols].to_numpy(float), equal_nan=True)):
                bad.append(("scale by a power of two: values / slopes not scaled or ratios / durations changed", T, C, c2))
        except Exception as e:
            bad.append(("scaled copy raised", T, C, c2, repr(e)[:80]))
        # channel permutation
        perm = rng.permutation(C)
        df3 = W.compute_spike_features(a0[:, :, perm].copy())
        same = [k for k in df.columns if k != "peak_trace_idx"]
        ties = False
        if not np.allclose(df[same].to_numpy(float), df3[same].to_numpy(float), equal_nan=True) and not ties:
            bad.append(("channel permutation changes features", T, C))
        if not np.array_equal(perm[df3["peak_trace_idx"].to_numpy()], df["peak_trace_idx"].to_numpy()):
            bad.append(("channel permutation: peak channel", T, C))
        # the same batch in another memory layout (a view of waveforms stored as (wav, trace, time), the result of a fancy channel selection, Fortran order)
        for lay, arr_l in (("swapaxes view", np.swapaxes(np.ascontiguousarray(np.swapaxes(a0, 1, 2)), 1, 2)), ("fancy-indexed channels", a0[:, :, perm][:, :, np.argsort(perm)]), ("fortran order", np.asfortranarray(a0))):
            try:
                dfl = W.compute_spike_features(arr_l)
                if not np.allclose(df.to_numpy(float), dfl.to_numpy(float), equal_nan=True):
                    bad.append(("features depend on the memory layout of the batch", lay, T, C))
            except Exception as e:
                bad.append(("non contiguous batch raised", lay, T, C, repr(e)[:80]))
        # the same spikes cut with another window length (same peak positions, fewer / more samples), right after the batch above and again
        # after an unrelated batch: a feature table depends on the batch at hand only, not on what was computed before it
        pk = df["peak_time_idx"].to_numpy()
        T2 = int(min(T - 1, max(int(pk.max()) + 3, 6)))
        for variant in ("shorter", "longer"):
            if variant == "shorter":
                if T2 >= T or T2 <= int(pk.max()):
                    continue
                b0 = a0[:, :T2, :].copy()
            else:
                tail = np.repeat(a0[:, -1:, :], 7, axis=1) * np.linspace(0.9, 0.1, 7)[None, :, None]
                b0 = np.concatenate([a0, tail], axis=1)
            try:
                r1 = W.compute_spike_features(b0.copy())
                tt_ = np.arange(21.0)
                other = (-50.0 * np.exp(-0.5 * ((tt_ - 9.0) / 1.5) ** 2) + 15.0 * np.exp(-0.5 * ((tt_ - 14.0) / 2.5) ** 2))[None, :, None] * np.array([1.0, 0.5])[None, None, :]
                W.compute_spike_features(np.repeat(other, 2, axis=0))          # an unrelated batch in between (peak mid-window)
                r2 = W.compute_spike_features(b0.copy())
                if not np.allclose(r1.to_numpy(float), r2.to_numpy(float), equal_nan=True):
                    bad.append(("features of a batch depend on the batch computed before it (same peaks, other window length)", variant, T, b0.shape[1], C))
            except Exception as e:
                bad.append(("re-cut batch raised", variant, T, b0.shape[1], repr(e)[:80]))
        # batch independence
        if n > 1:
            df4 = W.compute_spike_features(a0[:1].copy())
            if not np.allclose(df4.to_numpy(float), df.iloc[:1].to_numpy(float), equal_nan=True):
                bad.append(("features depend on the other waveforms of the batch", T, C))
    return bad


def native_half_peak(rng, ncases):
    bad = []
    for case in range(ncases):
        T = int(rng.integers(12, 120))
        arr = _spikes(rng, 6, T, 3, float(rng.choice([-1, 1])))
        try:
            df, apk = W.compute_spike_features(arr.copy(), return_peak_channel=True)
        except Exception:
            continue
        for i in range(6):
            r = df.iloc[i]
            x = apk[i] * (-1 if r.peak_val > 0 else 1) * -1 if False else apk[i]
            pk, pv = int(r.peak_time_idx), r.peak_val
            half = pv / 2
            inside = (lambda v: v >= half) if pv < 0 else (lambda v: v <= half)
            post = [t for t in range(pk, T) if inside(x[t])]
            pre = [t for t in range(pk - 1, -1, -1) if inside(x[t])]
            # the documented swap: a positive global extremum v0 whose following minimum xt satisfies |v0/xt| <= 1.5 hands the peak to xt
            t0_ = int(np.argmax(np.abs(x)))
            v0 = x[t0_]
            xt = x[t0_:].min() if v0 > 0 else None
            swapped_pos = bool(v0 > 0 and xt is not None and xt > 0 and abs(v0 / xt) <= 1.5)   # ... and that minimum is itself positive (no negative lobe after the peak)
            kind = "swap_positive_trough" if swapped_pos else "regular"
            if post and int(r.half_peak_post_time_idx) != post[0]:
                bad.append(("half peak post", kind, T, i, int(r.half_peak_post_time_idx), post[0]))
            if pre and int(r.half_peak_pre_time_idx) != pre[0]:
                bad.append(("half peak pre", kind, T, i, int(r.half_peak_pre_time_idx), pre[0]))
    return bad


@bounded(PROPERTY, "native_feature_laws", bound="generated spikes of either polarity with noise, T in 10..200, 1..40 channels, peaks at every position incl. last samples, NaN-padded channels: 150 batches (thorough 1500); "
         "arr_pre_post contract exhaustively for T <= 9, all peak positions; half-peak points vs a brute-force nearest-sample reference on 60 batches (bi-, tri-phasic spikes and doublets crossing the half level several times)",
         clause="ordering, extremum / documented swap, half-peak points, recovery fallback, scale / permutation equivariance, batch independence")
def b_native(B):
    rng = np.random.default_rng(B.seed)
    bad = native_laws(rng, 150 if B.tier == "quick" else 1500)
    B.case("feature_laws", not bad, detail=bad[:5])
    ok = True
    for T in range(2, 10):
        for p in range(T):
            a = np.arange(1, T + 1, dtype=float)[None, :] * np.array([[1.0], [-2.0]])
            pre, post = W.arr_pre_post(a, np.array([p, p]))
            for row in (0, 1):
                ok = ok and np.array_equal(pre[row], np.where(np.arange(T) < p, a[row], np.nan), equal_nan=True)
                ok = ok and np.array_equal(post[row], np.where(np.arange(T) >= p, a[row], np.nan), equal_nan=True)
    B.case("arr_pre_post_contract", bool(ok), detail="arr_pre_post does not mask before / from the peak")
    r = replay_recovery({}, "")
    B.case("recovery_fallback_all_positions", not r["failed"], detail=r)
    bad = native_half_peak(rng, 60 if B.tier == "quick" else 400)
    sw = [x for x in bad if x[1] == "swap_positive_trough"]
    B.case("half_peak_points", not [x for x in bad if x not in sw], detail=[x for x in bad if x not in sw][:5])
    if sw:
        B.case("half_peak_points_swap_positive", False, detail=sw[:3], inputs={"kind": "swap_positive_trough"})
