"""Shared harness pieces for C03 / C12: one symbolic iteration of the real window loop of NP2Converter._process_NP24."""
import ast

import numpy as np
import scipy.signal
import z3

import neuropixel
import spikeglx
import ibldsp.utils as U
from pyvc.core import SV, term, fresh_name
from pyvc import arrays as A, interp as I, fsmodel, models
from pyvc.arrays import SArr
from pyvc.interp import SObj
from contracts import C17

WG = U.WindowGenerator
TAPER = 144
OVERLAP = 576
RATIO = 12


def sosfiltfilt_summary(it, a, k):
    """A-SCIPY: sosfiltfilt returns a float64 array of the shape of its input (contents opaque); records the call"""
    x = A.as_sarr(a[1])
    out = A.fresh_array("lp", "float64", x.shape)
    if not hasattr(it.ctx, "filt_log"):
        it.ctx.filt_log = []
    it.ctx.filt_log.append({"sos": a[0], "input": x.snapshot(), "in_shape": x.shape, "out": out, "axis": k.get("axis", -1)})
    return out


def mk_converter(it, nshanks=2, fp_err=False):
    """NP2Converter on a symbolic NP2.4 recording: ns samples, napch AP channels + 1 sync, `nshanks` shanks with
    symbolic, strictly increasing channel lists; parameters as set by the real init_params (taper 144, overlap 576, ratio 12: harness C03.init_params)."""
    ns, napch, W = z3.Ints("ns napch W")
    it.ctx.assume(z3.And(ns >= 2 * TAPER, napch >= 1, W > OVERLAP, W % RATIO == 0))
    nc = napch + 1
    # init_params(nsamples=...) may restrict processing to the first `ns` samples of a longer file (ns_file >= ns; default: the whole file)
    ns_file = z3.Int("ns_file")
    it.ctx.assume(ns_file >= ns)
    raw = A.fresh_array("raw", "int16", (ns_file, nc))
    s2v_val = z3.Real("s2v")
    it.ctx.assume(s2v_val > 0)
    # C09: AP channels share range/maxint/80, sync factor is 1
    s2v = SArr(np.float32, (nc,), lambda idx: z3.If(idx[0] < napch, s2v_val, z3.RealVal(1)))
    meta = {"typeThis": "imec", "snsApLfSy": [SV(z3.ToReal(napch)), 0.0, 1.0], "nSavedChans": SV(z3.ToReal(nc)), "imSampRate": 30000.0, "fileTimeSecs": SV(z3.ToReal(ns_file) / 30000)}
    order = A.arange(0, SV(nc))
    sr = SObj(spikeglx.Reader, _raw=raw, raw_channel_order=order, channel_conversion_sample2v={"ap": s2v, "lf": s2v}, meta=meta)
    shank_info = {}
    chns = []
    for s in range(nshanks):
        m = z3.Int(f"nchn{s}")
        it.ctx.assume(z3.And(m >= 1, m <= nc))
        ch = A.fresh_array(f"chns{s}", "int64", (m,), ranged=False)
        A.assume_range(ch, 0, nc - 1)
        # per-shank channel list: where(shank == s) followed by the sync channel (proved in `channel_lists`)
        k, k2 = z3.Int(fresh_name("k")), z3.Int(fresh_name("k"))
        it.ctx.assume(z3.ForAll([k], z3.Implies(z3.And(k >= 0, k < m - 1), z3.And(ch.uf(k) >= 0, ch.uf(k) < napch)), patterns=[ch.uf(k)]))
        it.ctx.assume(z3.ForAll([k, k2], z3.Implies(z3.And(k >= 0, k < k2, k2 < m), ch.uf(k) < ch.uf(k2)), patterns=[z3.MultiPattern(ch.uf(k), ch.uf(k2))]))
        it.ctx.assume(ch.uf(m - 1) == napch)
        chns.append(ch)
        shank_info[f"shank{s}"] = {"chns": ch, "ap_open_file": fsmodel.GhostFile(f"ap{s}"), "lf_open_file": fsmodel.GhostFile(f"lf{s}")}
    taper = np.r_[0, scipy.signal.windows.cosine((TAPER - 1) * 2), 0]
    sos = scipy.signal.butter(N=2, Wn=1000 / 2500 / 2, btype="lowpass", output="sos")
    conv = SObj(neuropixel.NP2Converter, sr=sr, nsamples=SV(ns), samples_window=SV(W), samples_overlap=OVERLAP, samples_taper=TAPER, ratio=RATIO,
                taper=taper, sos_lp=sos, napch=SV(napch), idxsyncch=SV(napch), shank_info=shank_info, fs_ap=30000, fs_lf=2500, np_version="NP2.4")
    it.session.contracts[scipy.signal.sosfiltfilt] = sosfiltfilt_summary
    it.session.contracts[C17.FIRSTLAST] = firstlast_summary_with_nwin
    return conv, dict(ns=ns, ns_file=ns_file, napch=napch, W=W, nc=nc, raw=raw, s2v=s2v_val, chns=chns, shank_info=shank_info, sr=sr)


def firstlast_summary_with_nwin(it, args, kwargs):
    """C17's generator contract + the proved link nwin == number of windows (harness C17.firstlast:init.nwin_eq_count)"""
    sit = C17.firstlast_summary(it, args, kwargs)
    obj = args[0]
    if "nwin" in obj.attrs:
        it.ctx.assume(term(obj.attrs["nwin"]) == sit.length)
    return sit


def loop_parts(fn, which=None):
    """the top-level `for ... in wg.firstlast` loop of fn, the statements before it and after it"""
    node, filename = I.SOURCES.funcdef(fn)
    loops = [n for n in node.body if isinstance(n, ast.For) and "firstlast" in ast.unparse(n.iter)]
    if len(loops) != 1:
        raise I.Unsupported(f"{fn.__qualname__}: cannot identify the top-level loop over the window generator (found {len(loops)})")
    loop = loops[0]
    return node, filename, node.body[:node.body.index(loop)], loop, node.body[node.body.index(loop) + 1:]


def run_window(it, conv, info, j_name="j", fn=None, extra_vars=None):
    """executes the statements of _process_NP24 up to the loop (with the early returns disabled by construction: not already
    processed, nothing exists) and then ONE iteration of the real loop body for a symbolic window index j"""
    fn = fn or neuropixel.NP2Converter._process_NP24
    node, filename, before, loop, after = loop_parts(fn)
    it.session.note_function(fn)
    env = I.Env(None, fn.__globals__, qualname=fn.__qualname__, filename=filename)
    env.funcnode = node
    env.vars["self"] = conv
    env.vars["overwrite"] = False
    env.vars.update(extra_vars or {})
    it.ctx.func = env.qualname
    # the prologue: `wg = WindowGenerator(...)` is the only statement that the loop needs; the guards before it are C04's business
    wg_stmt = [s for s in before if isinstance(s, ast.Assign) and isinstance(s.targets[0], ast.Name) and s.targets[0].id == "wg"]
    if len(wg_stmt) != 1:
        raise I.Unsupported(f"{fn.__qualname__}: cannot identify `wg = WindowGenerator(...)` before the window loop")
    it.exec_stmt(wg_stmt[0], env)
    sit = it.to_iterable(it.eval(loop.iter, env), env)
    Yf, Yl = sit.Y
    K = sit.length
    j = z3.Int(j_name)
    it.ctx.assume(z3.And(j >= 0, j < K))
    sit.on_iter(j)
    it.assign(loop.target, sit.item(j), env)
    it.exec_block(loop.body, env)
    return dict(Yf=Yf, Yl=Yl, K=K, j=j, env=env, wg=env.vars["wg"])


def kept_range(info, w):
    """spec (from the property: every sample once, in order): window j contributes samples [a_j, b_j)"""
    Yf, Yl, K, j = w["Yf"], w["Yl"], w["K"], w["j"]
    a = z3.If(j == 0, z3.IntVal(0), Yf(j) + 2 * TAPER)
    b = z3.If(j == K - 1, info["ns"], Yf(j) + info["W"] - 2 * TAPER)
    return a, b
